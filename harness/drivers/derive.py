"""C03: Derive.tla bound to the model functions of gstools.CovModel.

TLC (four configurations of spec/Derive.tla, exact integer / rational arithmetic)
  A  graph     all 16 subsets D of {cor, correlation, covariance, variogram} a user
               class may define: installation, termination and grounding of every
               evaluation, rejection of D = {};
  B  variant   reductions "variant(args) = f(lag)" for *_nugget, *_axis, *_yadrenko,
               *_spatial on a lattice where the transformed lag is exact;
  C  poly      the documented closed forms of the polynomial / rational models as
               rationals on lags k/8 * len_scale over the parameter lattice;
  D  intscale  the effect of prescribing the integral scale (scalar / list forms).

Binding (the real code is executed, TLC's values decide)
  (i)   a generated gs.CovModel subclass per subset D and closed form: TypeError for
        D = {}, grounding of every function in D, the four functions and all variants
        against TLC's rationals;
  (ii)  all 17 shipped classes: the three identities of the property and every variant
        against the plain function of the lag TLC computed (both sides implementation);
  (iii) the shipped polynomial / rational classes against TLC's rationals (1e-12);
  (iv)  the integral-scale assignment on the classes with a closed-form integral scale;
  (v)   part E (TLC state graph, transition cover): histories of assignments (len_scale, rescale,
        shape parameter, dim, integral_scale) on ONE model object; after every step the reported
        integral scale is kappa(shape) * len_scale / rescale of the current parameters
        (TLC's rational x the integral scale of a fresh unit model) and equals a fresh model's;
  (vi)  part F: the documented truncated-power-law superposition with lower truncation and
        rescale: correlation = wup * rho0(.; lu) - wlow * rho0(.; ll) with TLC's exact weights,
        and the bounds mode(r; ll) <= correlation(r) <= mode(r; lu) of an average of modes, on
        the lag grid, a dyadic ladder of small lags and the far tail;
  (vii) part G: Matern with nu = p + 1/2 (p = 0..3): the four functions at r = z*len/(rescale*sqrt(nu))
        equal P_p(z) * exp(-z) with TLC's rational P_p(z) and exp(-z) = Exponential.correlation(z);
        nu = 1/2 equals the Exponential model of length len/sqrt(nu);
  (viii) continuity in the shape parameters at integer / half-integer values (neighbours at -+2^-12);
  (x)   the length unit (InitUnit): the cases of part B with len_scale, len_low, every lag, position and geo_scale
        multiplied by 2^-40, 2^-30, 2^30 (exact in floating point): on all 17 classes, the generated user classes and
        the polynomial classes every function value equals the unit-1 value (1e-12), the variant relations hold
        inside each unit (nugget-aware variants differ from the plain ones exactly at lag 0), TLC's table values hold;
  (ix)  part H: the spellings of a construction, (var | var_raw) x (len_scale | integral_scale scalar | list)
        x rescale given / omitted x dim, on the 12 standard classes (var_factor = 1), the three TPL classes
        and a user class overriding var_factor: var, var_raw, var_factor, sill, covariance(0), cov_nugget(0),
        variogram(0), variogram(far tail), reported integral scale(s), len_scale, anis against TLC's values.
"""
PROPERTIES = ("C03",)

import itertools
import json
import math
import os
import random
import time
import warnings
from fractions import Fraction

import numpy as np

from .. import tlc, tlaval, paths
from ..report import Report

FNS = ("cor", "correlation", "covariance", "variogram")
PLAIN = {"vario": "variogram", "cov": "covariance", "cor": "correlation"}
TOL = 1e-12

GRAPH_INVS = ["GraphTypeOK", "RejectIffEmpty", "UserKept", "Complete", "DelegationsDocumented",
              "GroundedInD", "EvalTerminates", "EvalGrounded"]
VARIANT_INVS = ["NuggetOnlyAtZero", "AxisScales", "ChordBounds", "SpatialSound"]
POLY_INVS = ["PolyTypeOK", "PolyIdentities", "PolyUnitFree", "CorAtZero", "Monotone", "Bounded", "Support",
             "SillBeyondRange", "Coincidences"]
INT_INVS = ["IntSound"]

# spec model name -> (real class, name of the optional argument)
POLY_CLASSES = {
    "Linear": ("Linear", None), "Spherical": ("Spherical", None), "Cubic": ("Cubic", None),
    "TPLSimple": ("TPLSimple", "nu"), "HyperSpherical": ("HyperSpherical", None),
    "SuperSpherical": ("SuperSpherical", "nu"), "Rational": ("Rational", "alpha"),
}
USER_FORMS = {
    "UserLin": lambda h: np.maximum(1.0 - h, 0.0),
    "UserRat": lambda h: 1.0 / (1.0 + h * h),
}


# ---------------------------------------------------------------------------
# model-checking inputs


def poly_models(tier):
    """Model records [name, opt, dim] of part C: every (shape, dimension) the docstrings admit."""
    big = tier == "thorough"
    out = [("Linear", 0, 1)]
    out += [("Spherical", 0, d) for d in (1, 2, 3)]
    out += [("Cubic", 0, d) for d in (1, 2, 3)]
    for nu in (1, 2, 3) + ((4,) if big else ()):
        out += [("TPLSimple", nu, d) for d in (1, 2, 3) if 2 * nu >= d + 1]
    out += [("HyperSpherical", 0, 1), ("HyperSpherical", 0, 3)]
    for nu in (0, 1, 2, 3):
        out += [("SuperSpherical", nu, d) for d in (1, 2, 3) if 2 * nu >= d - 1]
    for al in (1, 2, 3):  # alpha = 4 overflows 32 bit on lags k/8 (481^4)
        out += [("Rational", al, d) for d in (1, 2, 3)]
    out += [("UserLin", 0, 0), ("UserRat", 0, 0)]
    return out


def integer_norm_vectors(d, kmax):
    """All integer vectors of dimension d whose Euclidean norm is an integer <= kmax."""
    out = []
    for y in itertools.product(range(-kmax, kmax + 1), repeat=d):
        s = sum(c * c for c in y)
        k = math.isqrt(s)
        if k * k == s and k <= kmax:
            out.append(y)
    return out


def spatial_vectors(rng, kmax, n):
    """Isotropic coordinate vectors (units len_scale/8) per dimension: the origin, oblique
    vectors with integer norm (Pythagorean tuples), axis aligned ones."""
    res = {}
    for d in (1, 2, 3):
        allv = integer_norm_vectors(d, kmax)
        obl = [y for y in allv if sum(1 for c in y if c) == d]
        part = [y for y in allv if 0 < sum(1 for c in y if c) < d]
        pick = [tuple([0] * d)] + rng.sample(obl, min(n, len(obl)))
        if part:
            pick += rng.sample(part, min(max(1, n // 2), len(part)))
        res[d] = sorted(set(pick))
    return res


def mc_text(tier, rng):
    big = tier == "thorough"
    kmax = 16 if big else 12
    models = poly_models(tier)
    sy = spatial_vectors(rng, kmax, 5 if big else 3)
    intvals = [(1, 2), (1, 1), (3, 1)] + ([(2, 1)] if big else [])
    defs = {
        "Models": "{" + ", ".join('[name |-> "%s", opt |-> %d, dim |-> %d]' % m for m in models) + "}",
        "VarVals": "{1, 2, 3}" if big else "{1, 2}",
        "NugVals": "{0, 1}",
        "ResVals": "{1, 2, 4}" if big else "{1, 2}",
        "LenExps": "{-2, -1, 0, 1, 2}" if big else "{-1, 0, 1}",
        "KMax": str(kmax),
        "Dims": "{1, 2, 3}",
        "AnisExps": "{-1, 0, 1}",
        "Angles": ("{<<5, 0>>, <<0, 5>>, <<-5, 0>>, <<0, -5>>, <<3, 4>>, <<4, -3>>, <<-3, 4>>, <<-4, -3>>}" if big
                   else "{<<5, 0>>, <<0, 5>>, <<-5, 0>>, <<0, -5>>, <<3, 4>>, <<4, -3>>}"),
        "SpatialY": "(" + " @@ ".join("%d :> %s" % (d, tlaval.to_tla(set(tuple(v) for v in vs)))
                                      for d, vs in sy.items()) + ")",
        "YadK": "1..%d" % (kmax // 2),
        "IntVals": "{" + ", ".join("<<%d, %d>>" % q for q in intvals) + "}",
        "IntLenExps": "{0, 1}",
        # part E: histories of assignments
        "HistDims": "{1, 2, 3}" if big else "{2, 3}",
        "HistLens": "{<<2, 1>>, <<1, 2>>}",
        "HistRes": "{<<1, 1>>, <<2, 1>>, <<1, 2>>}",
        "HistOpts": "{1, 2}",
        "HistInts": "{<< <<3, 1>> >>, << <<1, 1>>, <<2, 1>> >>, << <<1, 2>>, <<1, 2>>, <<3, 1>> >>}",
        "HistMaxSteps": "4" if big else "3",
        # part F: truncated power law superposition
        "TplLow": "{<<0, 1>>, <<1, 4>>, <<1, 2>>, <<1, 1>>, <<2, 1>>}",
        "TplLen": "{<<3, 2>>, <<2, 1>>, <<3, 1>>, <<4, 1>>, <<6, 1>>}",
        "TplRes": "{<<1, 1>>, <<2, 1>>, <<1, 2>>}",
        "TplH2": "{<<1, 1>>, <<1, 2>>, <<3, 2>>}",
        # part G: Matern with nu = p + 1/2 at rational z
        "HalfP": "{0, 1, 2, 3}",
        "HalfZ": "{<<0, 1>>, <<1, 8>>, <<1, 4>>, <<1, 2>>, <<1, 1>>, <<3, 2>>, <<2, 1>>, <<3, 1>>, <<5, 1>>, <<8, 1>>}",
        "UnitExps": "{-40, -30, 30}",
        # part H: spellings of a construction
        "CFams": '{"unit", "tpl", "user"}',
        "CVars": "{<<2, 1>>, <<1, 2>>}",
        "CNugs": "{<<0, 1>>, <<1, 1>>}",
        "CLens": "{<<1, 2>>, <<2, 1>>, <<3, 1>>}" if big else "{<<1, 2>>, <<2, 1>>}",
        "CInts": ("{<< <<3, 1>> >>, << <<1, 2>> >>, << <<1, 1>>, <<2, 1>> >>, << <<3, 1>>, <<3, 2>>, <<1, 2>> >>}"),
        "CRes": "{<<0, 1>>, <<2, 1>>, <<1, 2>>}",
        "CDims": "{1, 2, 3}",
    }
    mod = "---- MODULE MC_Derive ----\nEXTENDS Derive\n"
    mod += "".join("Mc%s == %s\n" % kv for kv in defs.items()) + "====\n"
    cfg = "CONSTANTS\n" + "".join(" %s <- Mc%s\n" % (k, k) for k in defs)
    return mod, cfg, kmax


def cfg_part(cfg, init, nxt, invs):
    return cfg + "INIT %s\nNEXT %s\n" % (init, nxt) + "".join("INVARIANT %s\n" % i for i in invs)


# ---------------------------------------------------------------------------
# helpers


def qf(q):
    return float(Fraction(int(q[0]), int(q[1])))


def differs(a, b, tol=TOL):
    """Boolean array: entries of a and b that are not equal within tol (NaN counts as different)."""
    a = np.atleast_1d(np.asarray(a, dtype=float))
    b = np.atleast_1d(np.asarray(b, dtype=float))
    if a.shape != b.shape:
        return np.ones(max(a.size, b.size, 1), dtype=bool)
    return ~(np.abs(a - b) <= tol * np.maximum(1.0, np.maximum(np.abs(a), np.abs(b))))


class Collect:
    """Stand-in for Report inside worker processes."""

    def __init__(self):
        self.violations, self.drift, self.samples = [], [], []
        self.evals, self.cases, self.keys = 0, 0, 0

    def violation(self, key, what, replay):
        if not any(k == key for k, _w, _r in self.violations):
            self.violations.append((key, what, replay))

    def drift_msg(self, msg):
        if len(self.drift) < 5:
            self.drift.append(msg)

    def result(self):
        return dict(violations=self.violations, drift=self.drift, samples=self.samples,
                    evals=self.evals, cases=self.cases, keys=self.keys)


def user_class(D, form, calls=None, name=None):
    """A gs.CovModel subclass defining exactly the functions in D from one closed form."""
    import gstools as gs

    rho = USER_FORMS[form]
    calls = calls if calls is not None else {}

    def arg(self, r):
        return np.abs(np.asarray(r, dtype=np.double)) * self.rescale / self.len_scale

    def cor(self, h):
        calls["cor"] = calls.get("cor", 0) + 1
        return rho(np.abs(np.asarray(h, dtype=np.double)))

    def correlation(self, r):
        calls["correlation"] = calls.get("correlation", 0) + 1
        return rho(arg(self, r))

    def covariance(self, r):
        calls["covariance"] = calls.get("covariance", 0) + 1
        return self.var * rho(arg(self, r))

    def variogram(self, r):
        calls["variogram"] = calls.get("variogram", 0) + 1
        return self.var * (1.0 - rho(arg(self, r))) + self.nugget

    fns = {"cor": cor, "correlation": correlation, "covariance": covariance, "variogram": variogram}
    ns = {f: fns[f] for f in D}
    return type(name or ("User_" + form + "_" + ("_".join(sorted(D)) or "none")), (gs.CovModel,), ns)


def dsig(D):
    return "+".join(sorted(D)) or "none"


def build_model(spec):
    """spec: {"class": name | "user": {"D": [...], "form": f}, "kwargs": {...}} -> model."""
    import gstools as gs

    cls = user_class(spec["user"]["D"], spec["user"]["form"]) if "user" in spec else getattr(gs, spec["class"])
    with warnings.catch_warnings():
        warnings.simplefilter("ignore")
        return cls(**spec["kwargs"])


# ---------------------------------------------------------------------------
# the variant cases (part B) executed on one real model


def group_cases(states):
    """Variant cases -> groups sharing one model configuration."""
    groups = {}
    for st in states:
        c = st["vc"]
        k = c["kind"]
        if k == "nugget":
            key = ("nugget", 1, (), (), 0)
        elif k == "axis":
            key = ("axis", c["dim"], tuple(c["es"]), (), 0)
        elif k == "yadrenko":
            key = ("yadrenko", 3, (), (), c["uR"])
        else:
            key = ("spatial", c["dim"], tuple(c["es"]), tuple(tuple(a) for a in c["qs"]), 0)
        groups.setdefault(key, []).append(c)
    out = []
    for key in sorted(groups):
        cs = sorted(groups[key], key=lambda c: (c["fn"], c["axis"], c["t"], tuple(c["x"])))
        out.append(dict(kind=key[0], dim=key[1], es=key[2], qs=key[3], uR=key[4], cases=cs))
    return out


def angle_of(a):
    """Spec angle <<5 cos, 5 sin>> -> radians (quarter turns as multiples of pi/2)."""
    quarter = {(5, 0): 0.0, (0, 5): np.pi / 2, (-5, 0): np.pi, (0, -5): 3 * np.pi / 2}
    return quarter.get(tuple(a), math.atan2(a[1], a[0]))


def group_model_kwargs(g, L):
    """Constructor arguments that realise a group's configuration (len_scale = L)."""
    kw = {}
    if g["kind"] in ("axis", "spatial"):
        kw["dim"] = g["dim"]
        if g["dim"] > 1:
            kw["anis"] = [2.0 ** e for e in g["es"]]
        if g["kind"] == "spatial" and g["qs"]:
            kw["angles"] = [angle_of(a) for a in g["qs"]]
    elif g["kind"] == "yadrenko":
        kw["geo_scale"] = g["uR"] * L / 16.0
    return kw


def run_group(m, g, L):
    """Execute every case of group g on model m.  Yields
    (variant method name, plain function name, cases, call description, observed array)."""
    unit = L / 16.0
    kind = g["kind"]
    if kind == "nugget":
        for fn, short in (("variogram", "vario"), ("covariance", "cov")):
            cs = [c for c in g["cases"] if c["fn"] == fn]
            r = np.array([c["x"][0] for c in cs], dtype=float) * unit
            yield short + "_nugget", fn, cs, {"args": [r.tolist()]}, getattr(m, short + "_nugget")(r)
    elif kind == "axis":
        for axis in sorted({c["axis"] for c in g["cases"]}):
            cs = [c for c in g["cases"] if c["axis"] == axis]
            r = np.array([c["x"][0] for c in cs], dtype=float) * unit
            for short, fn in PLAIN.items():
                yield (short + "_axis", fn, cs, {"args": [r.tolist()], "kwargs": {"axis": axis}},
                       getattr(m, short + "_axis")(r, axis=axis))
    elif kind == "yadrenko":
        cs = g["cases"]
        R = g["uR"] * unit
        zeta = np.array([c["t"] for c in cs], dtype=float) * (np.pi / 3) * R
        for short, fn in PLAIN.items():
            yield short + "_yadrenko", fn, cs, {"args": [zeta.tolist()]}, getattr(m, short + "_yadrenko")(zeta)
    else:
        cs = g["cases"]
        pos = np.array([c["x"] for c in cs], dtype=float).T * (L / 2000.0)  # (dim, n)
        for short, fn in PLAIN.items():
            yield short + "_spatial", fn, cs, {"args": [pos.tolist()]}, getattr(m, short + "_spatial")(pos)


def check_group(col, m, mspec, g, L, var, nugget, keyfmt, table=None, relation=True):
    """Compare one group of variant cases.

    relation: variant(args) against the implementation's own plain function at the lag TLC
    computed.  table (rows k -> {fn: float}): variant(args) against TLC's value at that lag."""
    unit = L / 16.0
    sill = var + nugget
    with warnings.catch_warnings():
        warnings.simplefilter("ignore")
        for meth, fn, cs, call, got in run_group(m, g, L):
            got = np.atleast_1d(np.asarray(got, dtype=float))
            u = np.array([c["u"] for c in cs])
            const = [c["const"] for c in cs]
            isconst = np.array([c != "none" for c in const])
            cval = np.array([0.0 if c == "zero" else sill for c in const])
            col.cases += len(cs)
            if relation:
                ref = np.where(isconst, cval, 0.0)
                if (~isconst).any():
                    ref[~isconst] = np.asarray(getattr(m, fn)(u[~isconst] * unit), dtype=float)
                bad = differs(got, ref)
                col.evals += len(cs)
                if bad.any():
                    i = int(np.flatnonzero(bad)[0])
                    col.violation(keyfmt % ("relation", meth),
                                  "%s: %s%s differs from %s: case %s, observed %r, expected %r"
                                  % (mspec.get("class", "user class"), meth, _one(call, i),
                                     ("the constant '%s'" % const[i]) if isconst[i] else "%s(%r)" % (fn, float(u[i] * unit)),
                                     tlaval.to_tla(_pub(cs[i])), float(got[i]) if got.size > i else None, float(ref[i])),
                                  {"model": mspec, "group": _pubg(g), "len_scale": L, "call": dict(call, method=meth),
                                   "index": i, "case": _pub(cs[i]), "observed": got.tolist(), "expected": ref.tolist(),
                                   "expected_from": {"method": fn, "lag": float(u[i] * unit), "const": const[i]}})
            if table is not None:
                sel = np.array([(c["u"] >= 0 and c["u"] % 2 == 0 and (c["u"] // 2) in table) for c in cs])
                if sel.any():
                    ref = np.array([cval[j] if isconst[j] else table[cs[j]["u"] // 2][fn]
                                    for j in np.flatnonzero(sel)])
                    bad = differs(got[sel] if got.size == len(cs) else np.full(sel.sum(), np.nan), ref)
                    col.evals += int(sel.sum())
                    if bad.any():
                        i = int(np.flatnonzero(sel)[np.flatnonzero(bad)[0]])
                        col.violation(keyfmt % ("value", meth),
                                      "%s: %s%s = %r, TLC's exact value of the documented form is %r (case %s)"
                                      % (mspec.get("class", "user class"), meth, _one(call, i),
                                         float(got[i]) if got.size > i else None, float(ref[np.flatnonzero(bad)[0]]),
                                         tlaval.to_tla(_pub(cs[i]))),
                                      {"model": mspec, "group": _pubg(g), "len_scale": L, "call": dict(call, method=meth),
                                       "index": i, "case": _pub(cs[i]), "observed": got.tolist(),
                                       "expected_at_index": float(ref[np.flatnonzero(bad)[0]])})


def _pub(c):
    return {k: (list(v) if isinstance(v, (list, tuple)) else v) for k, v in c.items()}


def _pubg(g):
    return {k: (list(v) if isinstance(v, tuple) else v) for k, v in g.items() if k != "cases"}


def _one(call, i):
    a = call["args"][0]
    if a and isinstance(a[0], list):  # positions (dim, n)
        v = [row[i] for row in a]
    else:
        v = a[i]
    kw = "".join(", %s=%r" % kv for kv in call.get("kwargs", {}).items())
    return "(%r%s)" % (v, kw)


def configured(cls, base_kwargs, g, L, cache):
    """Model of class cls realising group g; models are cached per (kind-dim, geo_scale) and
    re-parametrised through the public setters (cheaper than constructing)."""
    kw = group_model_kwargs(g, L)
    ck = (g["dim"] if g["kind"] in ("axis", "spatial") else 0, kw.get("geo_scale"))
    m = cache.get(ck)
    if m is None:
        full = dict(base_kwargs)
        full.update({k: v for k, v in kw.items() if k in ("dim", "geo_scale")})
        with warnings.catch_warnings():
            warnings.simplefilter("ignore")
            m = cls(**full)
        cache[ck] = m
    if g["kind"] in ("axis", "spatial") and g["dim"] > 1:
        with warnings.catch_warnings():
            warnings.simplefilter("ignore")
            m.anis = kw["anis"]
            m.angles = kw.get("angles", 0.0)
    full = dict(base_kwargs)
    full.update(kw)
    return m, full


# ---------------------------------------------------------------------------
# the length unit (part B, InitUnit): the same cases with len_scale, lags, positions, radius x 2^ue

LENGTH_KW = ("len_scale", "len_low")      # constructor arguments that are lengths


def in_unit(base, ue):
    f = 2.0 ** ue
    return {k: (v * f if k in LENGTH_KW else v) for k, v in base.items()}


def unit_outputs(cls, base, groups, kmax):
    """Every function value of the model in its own length unit: the plain functions on the lag grid
    k/8 * len_scale (and the far tail), every variant case of the groups."""
    L = base["len_scale"]
    out = []
    with warnings.catch_warnings():
        warnings.simplefilter("ignore")
        m = cls(**base)
        r = np.concatenate([np.arange(0, kmax + 1) / 8.0, [2.0, 16.0, 256.0]]) * L
        for fn in ("variogram", "covariance", "correlation"):
            out.append((fn, {"args": [r.tolist()]}, np.asarray(getattr(m, fn)(r), dtype=float)))
        out.append(("cor", {"args": [(m.rescale * r / L).tolist()]}, np.asarray(m.cor(m.rescale * r / L), dtype=float)))
        cache = {}
        for g in groups:
            gm, _full = configured(cls, base, g, L, cache)
            for meth, _fn, _cs, call, got in run_group(gm, g, L):
                out.append((meth, dict(call, group=_pubg(g)), np.atleast_1d(np.asarray(got, dtype=float))))
    return out


def check_units(col, cls, who, base, dim, keyfmt, mspec_of, table=None):
    """Cross-unit equality (every value equals the unit-1 value) and, inside every unit, the variant
    relations (in particular: the nugget-aware variants differ from the plain ones exactly at lag 0)."""
    G = _G
    kmax = G["kmax"]
    ref = None
    for ue in [0] + sorted(G["ugroups"]):
        groups = pick_groups(G["ugroups"][ue if ue else sorted(G["ugroups"])[0]], dim, None, None)
        bu = in_unit(base, ue)
        try:
            out = unit_outputs(cls, bu, groups, kmax)
        except RecursionError:
            raise
        except Exception as e:  # noqa: BLE001
            col.violation(keyfmt % ("unit", "raises"), "%s in the length unit 2^%d (%s) raised %r" % (who, ue, bu, e),
                          {"model": mspec_of(bu), "unit_exponent": ue})
            continue
        if ref is None:
            ref = out
            continue
        col.cases += sum(o[2].size for o in out)
        col.keys += len(groups)
        nbad, plain_bad = 0, False
        for (meth, call, got), (_m0, call0, got0) in zip(out, ref):
            col.evals += got.size
            bad = differs(got, got0)
            if plain_bad and meth not in FNS:
                break        # the variants of a unit dependent plain function follow it: one root cause
            if bad.any():
                nbad += 1
                plain_bad = plain_bad or meth in FNS
                i = int(np.flatnonzero(bad)[0])
                col.violation(keyfmt % ("unit", meth),
                              "%s: %s depends on the length unit: with len_scale, lags, positions and radius x 2^%d the value "
                              "at the same relative lag (index %d of %s) is %r, in the original unit %r"
                              % (who, meth, ue, i, {k: v for k, v in call.items() if k != "args"}, float(got[i]) if got.size > i else None,
                                 float(got0[i]) if got0.size > i else None),
                              {"model": mspec_of(bu), "reference_model": mspec_of(base), "unit_exponent": ue,
                               "call": dict(call, method=meth), "reference_call": dict(call0, method=meth),
                               "observed": got.tolist(), "expected": got0.tolist(), "index": i})
        if nbad:
            continue
        # the relations inside the unit (and TLC's values where there is a table)
        cache = {}
        for g in groups:
            gm, full = configured(cls, bu, g, bu["len_scale"], cache)
            check_group(col, gm, mspec_of(full), g, bu["len_scale"], base["var"], base["nugget"],
                        keyfmt % ("unit-%s", "%s"), table=table, relation=True)


# ---------------------------------------------------------------------------
# tasks executed in worker processes.  _G holds the parsed TLC output.

_G = {}


def table_of(rows):
    return {r["k"]: {"r": qf(r["r"]), "h": qf(r["h"]), "cor": qf(r["cor"]), "correlation": qf(r["correlation"]),
                     "covariance": qf(r["covariance"]), "variogram": qf(r["variogram"])} for r in rows}


def base_kwargs_of(p):
    return dict(var=float(p["var"]), nugget=float(p["nug"]), len_scale=2.0 ** p["le"], rescale=float(p["res"]))


def check_table(col, m, mspec, tab, keyfmt, who):
    """The four functions against TLC's rows (lags r_k, arguments h_k)."""
    ks = sorted(tab)
    r = np.array([tab[k]["r"] for k in ks])
    h = np.array([tab[k]["h"] for k in ks])
    failed = 0
    with warnings.catch_warnings():
        warnings.simplefilter("ignore")
        for fn in FNS:
            x = h if fn == "cor" else r
            exp = np.array([tab[k][fn] for k in ks])
            try:
                got = np.asarray(getattr(m, fn)(x), dtype=float)
            except RecursionError:
                col.violation(keyfmt % ("cycle", fn), "%s: evaluating %s never terminates (cyclic delegation)" % (who, fn),
                              {"model": mspec, "call": {"method": fn, "args": [x.tolist()]}})
                failed += 1
                continue
            bad = differs(got, exp)
            col.evals += len(ks)
            if bad.any():
                failed += 1
                i = int(np.flatnonzero(bad)[0])
                col.violation(keyfmt % ("value", fn),
                              "%s: %s(%r) = %r but the documented closed form is exactly %r (TLC), k = %d"
                              % (who, fn, float(x[i]), float(got.flat[i]) if got.size > i else None, float(exp[i]), ks[i]),
                              {"model": mspec, "call": {"method": fn, "args": [x.tolist()]}, "index": i,
                               "observed": got.tolist(), "expected": exp.tolist()})
    return failed


def pick_groups(groups, dim, rng, nspatial):
    """Groups applicable to a model of dimension dim (all nugget / axis / yadrenko groups, a
    sample of the spatial ones; nspatial None = all)."""
    out = [g for g in groups if g["kind"] in ("nugget", "yadrenko")]
    out += [g for g in groups if g["kind"] == "axis" and g["dim"] == dim]
    sp = [g for g in groups if g["kind"] == "spatial" and g["dim"] == dim]
    if nspatial is not None and len(sp) > nspatial:
        sp = rng.sample(sp, nspatial)
    return out + sp


def task_user(job):
    """(i): one subset D x one closed form."""
    D, form, rseed = job
    D = tuple(D)
    rng = random.Random(rseed)
    col = Collect()
    G = _G
    sig = dsig(D)
    calls = {}
    try:
        cls = user_class(D, form, calls)
    except TypeError as e:
        if D:
            col.violation("userclass:%s:construct" % sig, "a class defining %s is rejected at creation: %r" % (sig, e),
                          {"model": {"user": {"D": list(D), "form": form}}})
        else:
            col.cases += 1
            col.keys += 1
            col.samples.append({"user class": "defines nothing", "observed": "TypeError at class creation"})
        return col.result()
    if not D:
        col.violation("userclass:none:not-rejected",
                      "a CovModel subclass defining none of cor/correlation/covariance/variogram is created without TypeError",
                      {"model": {"user": {"D": [], "form": form}}})
        return col.result()
    ginfo = G["ground"][frozenset(D)]
    # the class's own definitions stay, everything else exists
    for f in FNS:
        if not hasattr(cls, f):
            col.violation("userclass:%s:%s:missing" % (sig, f), "class defining %s has no %s" % (sig, f),
                          {"model": {"user": {"D": list(D), "form": form}}})
            return col.result()
    params = G["poly"][(form, 0, 0)]
    for pi, (p, tab) in enumerate(params):
        dim = 1 + (pi + len(D)) % 3
        base = dict(base_kwargs_of(p), dim=dim)
        mspec = {"user": {"D": list(D), "form": form}, "kwargs": base}
        try:
            with warnings.catch_warnings():
                warnings.simplefilter("ignore")
                m = cls(**base)
        except Exception as e:  # noqa: BLE001
            col.violation("userclass:%s:construct" % sig, "class defining %s cannot be instantiated: %r" % (sig, e), mspec)
            return col.result()
        who = "user class defining {%s} from %s, %s" % (", ".join(sorted(D)), form,
                                                      ", ".join("%s=%r" % kv for kv in base.items()))
        # grounding: which of the class's own functions does evaluating f reach?
        if pi == 0:
            for f in FNS:
                calls.clear()
                x = np.array([tab[1]["h"] if f == "cor" else tab[1]["r"]])
                try:
                    getattr(m, f)(x)
                except RecursionError:
                    col.violation("userclass:%s:cycle:%s" % (sig, f), "%s: evaluating %s never terminates" % (who, f),
                                  {"model": mspec, "call": {"method": f, "args": [x.tolist()]}})
                    continue
                reached = {k for k, v in calls.items() if v}
                col.evals += 1
                if not reached or not reached <= set(D):
                    col.violation("userclass:%s:ground:%s" % (sig, f),
                                  "%s: evaluating %s reaches %s, not a function the class defines" % (who, f, sorted(reached)),
                                  {"model": mspec, "call": {"method": f, "args": [x.tolist()]}})
                elif reached != {ginfo[f][0]}:
                    col.drift_msg("user class {%s}: %s is grounded in %s, the code-shaped spec says %s"
                                  % (sig, f, sorted(reached), ginfo[f][0]))
            for f in D:
                if f not in cls.__dict__ or cls.__dict__[f].__name__ != f:
                    col.drift_msg("user class {%s}: own definition of %s was replaced" % (sig, f))
            if any(":cycle:" in k for k, _w, _r in col.violations):
                return col.result()
        failed = check_table(col, m, mspec, tab, "userclass:" + sig + ":%s:%s", who)
        col.cases += 1
        col.keys += 1
        if pi == 0 and len(D) == 1:
            col.samples.append({"user class defines": list(D), "form": form, "kwargs": base,
                                "grounded": {f: ginfo[f][0] for f in FNS},
                                "variogram(r_k) checked against TLC": [tab[k]["variogram"] for k in sorted(tab)][:6]})
        if failed:
            continue  # the variants of a wrong function are wrong as well: one root cause, one report
        if pi % (8 if G["tier"] == "thorough" else 24) == len(D) % 8:
            check_units(col, cls, who, base, dim, "userclass:" + sig + ":%s:%s",
                        lambda kw: {"user": {"D": list(D), "form": form}, "kwargs": kw}, table=tab)
        if G["tier"] == "quick" and (p["var"] + p["nug"] + p["res"] + p["le"]) % 2:
            continue  # quick: variants on the even-parity half of the lattice (all pairs of values occur)
        cache = {}
        L = base["len_scale"]
        for g in pick_groups(G["groups"], dim, rng, G["nspatial_value"]):
            gm, full = configured(cls, base, g, L, cache)
            check_group(col, gm, {"user": {"D": list(D), "form": form}, "kwargs": full}, g, L, base["var"],
                        base["nugget"], "userclass:" + sig + ":%s:%s", table=tab, relation=True)
    return col.result()


def task_poly(job):
    """(iii): one shipped polynomial / rational model record over the parameter lattice."""
    import gstools as gs

    mkey, rseed = job
    name, opt, dim = mkey
    rng = random.Random(rseed)
    col = Collect()
    G = _G
    real, optname = POLY_CLASSES[name]
    cls = getattr(gs, real)
    for pi, (p, tab) in enumerate(G["poly"][mkey]):
        base = dict(base_kwargs_of(p), dim=dim)
        if optname:
            base[optname] = float(opt)
        mspec = {"class": real, "kwargs": base}
        try:
            with warnings.catch_warnings():
                warnings.simplefilter("ignore")
                m = cls(**base)
        except Exception as e:  # noqa: BLE001
            col.violation("closedform:%s:construct" % real, "%s(%s) cannot be constructed: %r" % (real, base, e), mspec)
            return col.result()
        who = "%s(%s)" % (real, ", ".join("%s=%r" % kv for kv in base.items()))
        failed = check_table(col, m, mspec, tab, "closedform:" + real + ":%s:%s", who)
        col.cases += 1
        col.keys += 1
        if pi == 0 and dim in (1, 3):
            ks = sorted(tab)
            col.samples.append({"class": real, "kwargs": base, "lags": [tab[k]["r"] for k in ks][6:10],
                                "correlation exact (TLC)": ["%d/%d" % tuple(G["polyraw"][mkey][0][k]["correlation"]) for k in ks][6:10],
                                "correlation observed": np.asarray(m.correlation(np.array([tab[k]["r"] for k in ks]))).tolist()[6:10]})
        if failed:
            continue  # the variants of a wrong function are wrong as well: one root cause, one report
        if pi % (8 if G["tier"] == "thorough" else 24) == (dim + opt) % 8:
            check_units(col, cls, who, base, dim, "closedform:" + real + ":%s:%s",
                        lambda kw: {"class": real, "kwargs": kw}, table=tab)
        if G["tier"] == "quick" and (p["var"] + p["nug"] + p["res"] + p["le"]) % 2:
            continue  # quick: variants on the even-parity half of the lattice (all pairs of values occur)
        cache = {}
        L = base["len_scale"]
        for g in pick_groups(G["groups"], dim, rng, G["nspatial_value"]):
            gm, full = configured(cls, base, g, L, cache)
            check_group(col, gm, {"class": real, "kwargs": full}, g, L, base["var"], base["nugget"],
                        "closedform:" + real + ":%s:%s", table=tab, relation=False)
    return col.result()


# optional arguments of the 17 shipped classes per dimension: (kwargs, cor-identity applies)
def class_variants(name, dim, big):
    d = dim
    if name in ("Gaussian", "Exponential", "Cubic", "Linear", "Circular", "Spherical", "HyperSpherical"):
        return [{}]
    if name == "Stable":
        return [{"alpha": a} for a in ((0.5, 1.0, 1.5, 2.0) if big else (0.5, 1.5))]
    if name == "Matern":
        return [{"nu": a} for a in ((0.5, 1.0, 2.5, 25.0) if big else (1.5, 25.0))]
    if name == "Integral":
        return [{"nu": a} for a in ((0.5, 1.0, 2.5) if big else (1.0, 2.5))]
    if name == "Rational":
        return [{"alpha": a} for a in ((0.5, 1.0, 2.5) if big else (0.5, 2.5))]
    if name == "SuperSpherical":
        return [{"nu": a} for a in (((d - 1) / 2, 1.5, 2.0, 3.5) if big else ((d - 1) / 2, 2.5))]
    if name == "JBessel":
        return [{"nu": a} for a in ((d / 2 - 0.5, d / 2, 2.0, 3.5) if big else (d / 2, 2.5))]
    if name == "TPLSimple":
        return [{"nu": a} for a in (((d + 1) / 2, 2.5, 3.0) if big else ((d + 1) / 2, 3.0))]
    if name in ("TPLGaussian", "TPLExponential"):
        return [{"hurst": 0.5, "len_low": 0.0}, {"hurst": 0.25, "len_low": 0.5}] + \
            ([{"hurst": 0.75, "len_low": 0.0}] if big else [])
    if name == "TPLStable":
        return [{"hurst": 0.5, "len_low": 0.0, "alpha": 1.5}, {"hurst": 0.25, "len_low": 0.5, "alpha": 1.0}] + \
            ([{"hurst": 0.75, "len_low": 0.0, "alpha": 0.5}] if big else [])
    raise KeyError(name)


SHIPPED = ("Gaussian", "Exponential", "Matern", "Integral", "Stable", "Rational", "Cubic", "Linear",
           "Circular", "Spherical", "HyperSpherical", "SuperSpherical", "JBessel", "TPLGaussian",
           "TPLExponential", "TPLStable", "TPLSimple")
SUPERPOSITION = ("TPLGaussian", "TPLExponential", "TPLStable")


def task_relation(job):
    """(ii): one shipped class: identities on the lag grid and every variant case."""
    import gstools as gs

    name, rseed = job
    rng = random.Random(rseed)
    col = Collect()
    G = _G
    big = G["tier"] == "thorough"
    cls = getattr(gs, name)
    kmax = G["kmax"]
    lattice = [dict(var=float(v), nugget=float(n), len_scale=L, rescale=r)
               for v in (1, 2) for n in (0, 1) for L in (0.5, 1.0, 2.0) for r in (None, 2.0)]
    rng.shuffle(lattice)
    used = 0
    for dim in (1, 2, 3):
        for oi, opt in enumerate(class_variants(name, dim, big)):
            n_par = 2 if big else 1
            for base0 in lattice[used:used + n_par] if used + n_par <= len(lattice) else lattice[:n_par]:
                base = {k: v for k, v in base0.items() if v is not None}
                base.update(opt)
                base["dim"] = dim
                L = base["len_scale"]
                full0 = dict(base)
                mspec = {"class": name, "kwargs": full0}
                try:
                    with warnings.catch_warnings():
                        warnings.simplefilter("ignore")
                        m = cls(**full0)
                except Exception as e:  # noqa: BLE001
                    col.violation("identity:%s:construct" % name, "%s(%s) cannot be constructed: %r" % (name, full0, e), mspec)
                    continue
                # the three identities of the property on the lag grid and in the far tail
                r = np.concatenate([np.arange(0, kmax + 1) / 8.0 * L, np.array([2.0, 4.0, 8.0, 16.0, 64.0, 256.0]) * L])
                with warnings.catch_warnings():
                    warnings.simplefilter("ignore")
                    v = np.asarray(m.variogram(r), dtype=float)
                    c = np.asarray(m.covariance(r), dtype=float)
                    rho = np.asarray(m.correlation(r), dtype=float)
                    co = np.asarray(m.cor(m.rescale * r / L), dtype=float)
                var, nug = base["var"], base["nugget"]
                checks = [("variogram=var+nugget-covariance", v, var + nug - c), ("covariance=var*correlation", c, var * rho)]
                if not (name in SUPERPOSITION and base.get("len_low", 0.0) > 0):
                    checks.append(("correlation(r)=cor(rescale*r/len_scale)", rho, co))
                for what, a, b in checks:
                    bad = differs(a, b)
                    col.evals += len(r)
                    if bad.any():
                        i = int(np.flatnonzero(bad)[0])
                        col.violation("identity:%s:%s" % (name, what.split("=")[0].split("(")[0]),
                                      "%s(%s): %s fails at r = %r: %r vs %r" % (name, full0, what, float(r[i]), float(a[i]), float(b[i])),
                                      {"model": mspec, "identity": what, "lags": r.tolist(), "lhs": a.tolist(), "rhs": b.tolist()})
                col.cases += 1
                cache = {}
                groups = pick_groups(G["groups"], dim, rng, G["nspatial_rel"])
                for g in groups:
                    gm, full = configured(cls, base, g, L, cache)
                    check_group(col, gm, {"class": name, "kwargs": full}, g, L, var, nug,
                                "variant:" + name + ":%s:%s", relation=True)
                    col.keys += len(g["cases"])
                # the same model in other length units (2^ue): every value unchanged
                if oi == (dim - 1) % max(1, len(class_variants(name, dim, big))) or big:
                    check_units(col, cls, "%s(%s)" % (name, full0), base, dim, "variant:" + name + ":%s:%s",
                                lambda kw: {"class": name, "kwargs": kw})
                # Yadrenko variants on a genuine lat-lon model (dimension forced to 3)
                if dim == 3:
                    for g in [g for g in G["groups"] if g["kind"] == "yadrenko"]:
                        fl = dict(base, latlon=True, geo_scale=g["uR"] * L / 16.0)
                        try:
                            with warnings.catch_warnings():
                                warnings.simplefilter("ignore")
                                ml = cls(**fl)
                        except Exception as e:  # noqa: BLE001
                            col.violation("variant:%s:latlon:construct" % name, "%s(%s) cannot be constructed: %r" % (name, fl, e),
                                          {"model": {"class": name, "kwargs": fl}})
                            break
                        check_group(col, ml, {"class": name, "kwargs": fl}, g, L, var, nug,
                                    "variant:" + name + ":latlon-%s:%s", relation=True)
                if dim == 3 and oi == 0 and not col.samples:
                    g = next((g for g in groups if g["kind"] == "spatial" and any(abs(a[0]) in (3, 4) for a in g["qs"]) and any(g["es"])), groups[-1])
                    cse = next((c for c in g["cases"] if c["u"]), g["cases"][0])
                    col.samples.append({"class": name, "kwargs": dict(full0, **group_model_kwargs(g, L)),
                                        "case": tlaval.to_tla(_pub(cse)),
                                        "meaning": "cov_spatial(x * len_scale/2000) == covariance(u * len_scale/16); angles qs = <<5 cos, 5 sin>>"})
            used = (used + n_par) % len(lattice)
    return col.result()


INT_CLASSES = {
    "Exponential": [{}], "Gaussian": [{}], "Stable": [{"alpha": 0.5}, {"alpha": 1.5}],
    "Matern": [{"nu": 0.5}, {"nu": 2.5}, {"nu": 25.0}], "Integral": [{"nu": 1.0}, {"nu": 2.5}],
    "Rational": [{"alpha": 1.0}, {"alpha": 2.5}],
}


def int_case(cls, name, st, opt, rescale, toggle):
    """Execute one integral-scale case; returns (model spec, assignment, expected, observed) ."""
    d = st["dim"]
    kw = dict(dim=d, var=2.0, nugget=1.0, len_scale=2.0 ** st["le0"], **opt)
    if d > 1:
        kw["anis"] = [2.0 ** e for e in st["es0"]]
        kw["angles"] = [0.3, 1.1, 0.7][: d * (d - 1) // 2]
    if rescale is not None:
        kw["rescale"] = rescale
    I = [qf(x) for x in st["I"]]
    val = I[0] if (len(I) == 1 and toggle) else (np.array(I) if toggle else list(I))
    with warnings.catch_warnings():
        warnings.simplefilter("ignore")
        ref = cls(**kw)
        int0, len0, res0 = ref.integral_scale, ref.len_scale, float(ref.rescale)
        if st["form"] == "setter":
            m = ref
            m.integral_scale = val
        else:
            m = cls(integral_scale=val, **kw)
        obs = {"integral_scale": float(m.integral_scale), "anis": [float(a) for a in m.anis],
               "len_scale*kappa": float(m.len_scale * int0 / len0),
               "integral_scale_vec": [float(a) for a in m.integral_scale_vec],
               "var": float(m.var), "nugget": float(m.nugget), "rescale": float(m.rescale),
               "angles": [float(a) for a in m.angles]}
    exp = {"integral_scale": qf(st["int"]), "anis": [qf(a) for a in st["anis"]], "len_scale*kappa": qf(st["lenk"]),
           "integral_scale_vec": [qf(a) for a in st["vec"]], "var": 2.0, "nugget": 1.0,
           "rescale": res0,
           "angles": [float(a) for a in kw.get("angles", [])]}
    return kw, val, exp, obs


def task_int(job):
    """(iv): integral-scale assignment on one class with a closed-form integral scale."""
    import gstools as gs

    name, lo, hi = job
    col = Collect()
    cls = getattr(gs, name)
    opts = INT_CLASSES[name]
    stride = 1 if _G["tier"] == "thorough" else 2      # quick: every state on every second class
    off = sorted(INT_CLASSES).index(name) % stride
    for si in range(lo + (lo + off) % stride, hi, stride):
        st = _G["int"][si]
        opt = opts[si % len(opts)]
        rescale = (None, 2.0, 0.5)[(si // len(opts)) % 3]
        try:
            kw, val, exp, obs = int_case(cls, name, st, opt, rescale, si % 2)
        except Exception as e:  # noqa: BLE001
            col.violation("intscale:%s:%s:raises" % (name, st["form"]),
                          "%s: prescribing integral_scale=%s (%s) raised %r" % (name, [qf(x) for x in st["I"]], st["form"], e),
                          {"class": name, "state": _pubst(st), "opt": opt, "rescale": rescale, "toggle": si % 2})
            continue
        col.cases += 1
        col.keys += 1
        for k in exp:
            bad = differs(obs[k], exp[k])
            col.evals += 1
            if bad.any():
                col.violation("intscale:%s:%s:%s" % (name, st["form"], k.split("*")[0]),
                              "%s(%s): after integral_scale = %r (%s) %s is %r, expected %r"
                              % (name, kw, val if not isinstance(val, np.ndarray) else val.tolist(), st["form"], k, obs[k], exp[k]),
                              {"class": name, "state": _pubst(st), "opt": opt, "rescale": rescale, "toggle": si % 2,
                               "expected": exp, "observed": obs})
        if si >= lo + 7 and not col.samples:
            col.samples.append({"class": name, "kwargs": kw, "form": st["form"],
                                "integral_scale assigned": val.tolist() if isinstance(val, np.ndarray) else val,
                                "expected (TLC)": {k: exp[k] for k in ("integral_scale", "anis", "integral_scale_vec")},
                                "observed": {k: obs[k] for k in ("integral_scale", "anis", "integral_scale_vec", "len_scale*kappa")}})
    return col.result()


# ---------------------------------------------------------------------------
# part E: histories of assignments on one model object

# class -> (name of the shape parameter, its values for the spec's indices 1, 2, tolerance)
HIST_CLASSES = {
    "Exponential": (None, (), TOL), "Gaussian": (None, (), TOL),
    "Stable": ("alpha", (0.5, 1.5), TOL), "Matern": ("nu", (0.5, 2.5), TOL),
    "Integral": ("nu", (1.0, 2.5), TOL), "Rational": ("alpha", (1.0, 2.5), TOL),
    # integral scale by quadrature: same relations, at quadrature accuracy
    "Spherical": (None, (), 1e-6), "SuperSpherical": ("nu", (1.0, 2.0), 1e-6),
}
HIST_INV = ["HistTypeOK", "HistPrescribed"]


class HistModel:
    """One real model driven by the operations of part E."""

    def __init__(self, name, st):
        import gstools as gs

        self.name = name
        self.cls = getattr(gs, name)
        self.optname, self.optvals, self.tol = HIST_CLASSES[name]
        self.kappa_cache = {}
        self.kw = self.kwargs(st, qf(st["len"]["q"]))
        with warnings.catch_warnings():
            warnings.simplefilter("ignore")
            self.m = self.cls(**self.kw)

    def optkw(self, o):
        return {self.optname: self.optvals[o - 1]} if self.optname else {}

    def kwargs(self, st, len_scale):
        d = st["dim"]
        kw = dict(dim=d, var=2.0, nugget=1.0, len_scale=len_scale, rescale=qf(st["res"]), **self.optkw(st["opt"]))
        if d > 1:
            kw["anis"] = [qf(a) for a in st["anis"]]
        return kw

    def kappa(self, o, dim):
        """Integral scale of the unit model (len_scale = rescale = 1), a fresh object."""
        if o == 0:
            return 1.0
        if (o, dim) not in self.kappa_cache:
            with warnings.catch_warnings():
                warnings.simplefilter("ignore")
                self.kappa_cache[(o, dim)] = float(self.cls(dim=dim, len_scale=1.0, rescale=1.0, **self.optkw(o)).integral_scale)
        return self.kappa_cache[(o, dim)]

    def apply(self, op, toggle):
        m, n, v = self.m, op["name"], [qf(x) for x in op["v"]]
        with warnings.catch_warnings():
            warnings.simplefilter("ignore")
            if n == "SetLen":
                m.len_scale = v[0]
            elif n == "SetRescale":
                m.rescale = v[0]
            elif n == "SetOpt":
                setattr(m, self.optname, self.optvals[int(v[0]) - 1])
            elif n == "SetDim":
                m.dim = int(v[0])
            elif n == "SetInt":
                m.integral_scale = v[0] if len(v) == 1 and toggle else v
            else:
                raise AssertionError(n)

    def expected(self, st):
        d = st["dim"]
        f = self.kappa(st["opt"], d) / self.kappa(st["len"]["o"], d)
        return {"integral_scale": qf(st["intq"]) * f, "integral_scale_vec": [qf(x) * f for x in st["vec"]],
                "len_scale": qf(st["len"]["q"]) / self.kappa(st["len"]["o"], d), "rescale": qf(st["res"]),
                "anis": [qf(a) for a in st["anis"]], "dim": d}

    def observed(self, m=None):
        m = self.m if m is None else m
        with warnings.catch_warnings():
            warnings.simplefilter("ignore")
            return {"integral_scale": float(m.integral_scale), "integral_scale_vec": [float(x) for x in m.integral_scale_vec],
                    "len_scale": float(m.len_scale), "rescale": float(m.rescale), "anis": [float(a) for a in m.anis],
                    "dim": int(m.dim)}


def replay_history(col, name, sts, every, toggle):
    """sts: spec states of one behaviour (the first is the initial one).  every: read the
    observables after every step (else only at the end)."""
    hm = HistModel(name, sts[0]["isc"])
    ops = []
    for i, node in enumerate(sts):
        st = node["isc"]
        if i:
            ops.append(st["op"])
            try:
                hm.apply(st["op"], toggle)
            except Exception as e:  # noqa: BLE001
                col.violation("history:%s:%s:raises" % (name, st["op"]["name"]),
                              "%s: %s raised %r after %s" % (name, tlaval.to_tla(st["op"]), e, [tlaval.to_tla(o) for o in ops[:-1]]),
                              {"class": name, "init": _pubst(sts[0]["isc"]), "ops": _pubst(ops), "every": every, "toggle": toggle})
                return i
        last = i == len(sts) - 1
        if not (every or last):
            continue
        exp, obs = hm.expected(st), hm.observed()
        if last:
            # a freshly constructed model with the resulting parameters reports the same
            with warnings.catch_warnings():
                warnings.simplefilter("ignore")
                fresh = hm.cls(**hm.kwargs(st, exp["len_scale"]))
            exp = dict(exp, **{"fresh.integral_scale": float(fresh.integral_scale)})
            obs = dict(obs, **{"fresh.integral_scale": obs["integral_scale"]})
        col.cases += 1
        for k in exp:
            col.evals += 1
            if differs(obs[k], exp[k], hm.tol).any():
                col.violation("history:%s:%s:%s" % (name, st["op"]["name"], k.split(".")[-1]),
                              "%s(%s): after %s%s %s is %r, expected %r (integral_scale = kappa(shape) * len_scale / rescale "
                              "of the current parameters)"
                              % (name, hm.kw, [tlaval.to_tla(o) for o in ops] or "construction",
                                 " (observables read after every step)" if every else "", k, obs[k], exp[k]),
                              {"class": name, "init": _pubst(sts[0]["isc"]), "ops": _pubst(ops), "every": every, "toggle": toggle,
                               "state": _pubst(st), "expected": exp, "observed": obs})
                return i
    return len(sts) - 1


def task_hist(job):
    name, pidx, rseed = job
    col = Collect()
    graph = _G["hist"][2 if HIST_CLASSES[name][0] else 1]
    nodes, pathlist = graph
    for j in pidx:
        sts = [nodes[i] for i in pathlist[j]]
        steps = replay_history(col, name, sts, every=(j % 2 == 0), toggle=(j // 2) % 2)
        col.keys += 1 if steps else 0
        if not col.samples and steps >= 2 and any(s["isc"]["op"]["name"] == "SetRescale" for s in sts):
            hm = HistModel(name, sts[0]["isc"])
            for s in sts[1:]:
                hm.apply(s["isc"]["op"], 0)
            col.samples.append({"class": name, "constructed": hm.kw, "ops": [tlaval.to_tla(s["isc"]["op"]) for s in sts[1:]],
                                "expected integral_scale (TLC rational x measured kappa)": hm.expected(sts[-1]["isc"])["integral_scale"],
                                "observed": hm.observed()["integral_scale"]})
    return col.result()


# ---------------------------------------------------------------------------
# part F: the truncated-power-law superposition

TPL_CLASSES = [  # (class, extra kwargs, class of the modes, kwargs of the modes)
    ("TPLGaussian", {}, "Gaussian", {}),
    ("TPLExponential", {}, "Exponential", {}),
    ("TPLStable", {"alpha": 1.5}, "Stable", {"alpha": 1.5}),
    ("TPLStable", {"alpha": 2.0}, "Stable", {"alpha": 2.0}),
    ("TPLStable", {"alpha": 0.5}, "Stable", {"alpha": 0.5}),
    ("Integral", {}, "Gaussian", {}),   # nu/2 E_{1+nu/2}: the a = 0 Gaussian-mode superposition with 2H = nu
]
TPL_TOL = 1e-11
TPL_BOUND_TOL = 1e-13   # inequalities between directly evaluated correlations


def task_tpl(job):
    import gstools as gs

    ci, lo, hi, ue, stride = job     # ue: length unit 2^ue applied to len_low, len_scale and every lag
    f = 2.0 ** ue
    cname, extra, mname, mextra = TPL_CLASSES[ci]
    cls, mode = getattr(gs, cname), getattr(gs, mname)
    col = Collect()
    kmax = _G["kmax"]
    for si in range(lo, hi, stride):
        c = _G["tpl"][si]
        a, L, s_, h2 = qf(c["a"]) * f, qf(c["L"]) * f, qf(c["s"]), qf(c["h2"])
        lu, ll, wup, wlow = qf(c["lu"]) * f, qf(c["ll"]) * f, qf(c["wup"]), qf(c["wlow"])   # the weights are unit free
        if cname == "Integral":
            if a != 0.0:
                continue
            kw = dict(dim=1 + si % 3, var=2.0, nugget=1.0, len_scale=L, rescale=s_, nu=h2)
            low0 = {"nu": h2}
        else:
            kw = dict(dim=1 + si % 3, var=2.0, nugget=1.0, len_scale=L, rescale=s_, hurst=h2 / 2, len_low=a, **extra)
            low0 = dict(hurst=h2 / 2, len_low=0.0, **extra)
        with warnings.catch_warnings():
            warnings.simplefilter("ignore")
            m = cls(**kw)
            # lag grid, a dyadic ladder of small lags down to 2^-20 of the upper scale (below that
            # the implementation treats the lag as zero: numeric accuracy, not examined), far tail
            r = np.concatenate([np.arange(0, kmax + 1) / 8.0 * L, lu * 2.0 ** -np.arange(1, 21),
                                ll * 2.0 ** -np.arange(0, 16, 3), np.array([2.0, 4.0, 16.0]) * lu])
            r = np.unique(r[(r == 0) | (r >= lu * 2.0 ** -20)])
            rho = np.asarray(m.correlation(r), dtype=float)
            checks = []
            # the documented closed form through the model's own normalised mode cor(h)
            sup = wup * np.asarray(m.cor(r / lu), dtype=float)
            if a > 0:
                sup = sup - wlow * np.asarray(m.cor(r / ll), dtype=float)
            checks.append(("superposition", "correlation(r) = wup*cor(r/lu) - wlow*cor(r/ll)", rho, sup, "eq"))
            # ... and through models without lower truncation (fresh objects, other rescale)
            up = cls(len_scale=lu, rescale=1.0, **low0)
            sup2 = wup * np.asarray(up.correlation(r), dtype=float)
            if a > 0:
                low = cls(len_scale=a, rescale=s_, **low0)
                sup2 = sup2 - wlow * np.asarray(low.correlation(r), dtype=float)
            checks.append(("superposition-models", "correlation(r) = wup*rho0(r; lu) - wlow*rho0(r; ll)", rho, sup2, "eq"))
            checks.append(("variogram", "variogram(r) = var*(1 - superposition) + nugget",
                           np.asarray(m.variogram(r), dtype=float), 2.0 * (1.0 - sup) + 1.0, "eq"))
            # an average of the modes lies between the modes of the truncation scales
            mu = np.asarray(mode(len_scale=lu, rescale=1.0, **mextra).correlation(r), dtype=float)
            checks.append(("mode-bound-upper", "correlation(r) <= mode(r; lu)", rho, mu, "le"))
            ml = np.asarray(mode(len_scale=ll, rescale=1.0, **mextra).correlation(r), dtype=float) if a > 0 else np.where(r > 0, 0.0, 1.0)
            checks.append(("mode-bound-lower", "mode(r; ll) <= correlation(r)", ml, rho, "le"))
            checks.append(("monotone", "correlation non-increasing in r", rho[1:], rho[:-1], "le"))
        col.cases += 1
        col.keys += 1
        for key, what, lhs, rhs, rel in checks:
            col.evals += len(lhs)
            if rel == "eq":
                bad = differs(lhs, rhs, TPL_TOL)
            else:
                bad = ~(lhs <= rhs + TPL_BOUND_TOL)
            if bad.any():
                i = int(np.flatnonzero(bad)[0])
                col.violation("tpl:%s:%s" % (cname, key),
                              "%s(%s): %s fails at r = %r: %r vs %r  (lu = %r, ll = %r, wup = %s, wlow = %s from TLC)"
                              % (cname, kw, what, float(r[min(i, len(r) - 1)]), float(lhs[i]), float(rhs[i]), lu, ll,
                                 "%d/%d" % tuple(c["wup"]), "%d/%d" % tuple(c["wlow"])),
                              {"class": cname, "kwargs": kw, "case": _pubst(c), "relation": what, "lags": r.tolist(),
                               "lhs": lhs.tolist(), "rhs": rhs.tolist()})
        if not col.samples and a > 0 and s_ != 1.0:
            col.samples.append({"class": cname, "kwargs": kw, "TLC": {k: "%d/%d" % tuple(c[k]) for k in ("lu", "ll", "wup", "wlow")},
                                "r": r[-6:-3].tolist(), "correlation": rho[-6:-3].tolist(),
                                "wup*cor(r/lu)-wlow*cor(r/ll)": sup[-6:-3].tolist()})
    return col.result()


# ---------------------------------------------------------------------------
# part G: Matern with half-integer shape, and continuity in the shape parameters

HALF_TOL = 1e-11


def task_half(job):
    """Matern(nu = p + 1/2): correlation(r) = P_p(z) * exp(-z) at r = z*len_scale/(rescale*sqrt(nu)); P_p(z) is
    TLC's rational, exp(-z) the Exponential model's correlation at the lag z."""
    import gstools as gs

    (p,) = job
    col = Collect()
    cases = [c for c in _G["half"] if c["p"] == p]
    nu = qf(cases[0]["nu"])
    z = np.array([qf(c["z"]) for c in cases])
    poly = np.array([qf(c["poly"]) for c in cases])
    with warnings.catch_warnings():
        warnings.simplefilter("ignore")
        E = np.asarray(gs.Exponential(dim=1, len_scale=1.0, rescale=1.0).correlation(z), dtype=float)
        ref = poly * E
        i0 = 0
        for var in (1.0, 2.0):
            for nug in (0.0, 1.0):
                for L in (0.5, 1.0, 2.0):
                    for res in (None, 2.0, 0.5):
                        i0 += 1
                        kw = dict(dim=1 + i0 % 3, var=var, nugget=nug, len_scale=L, nu=nu)
                        if res is not None:
                            kw["rescale"] = res
                        m = gs.Matern(**kw)
                        h = z / math.sqrt(nu)                       # sqrt(nu) * h = z
                        r = h * L / float(m.rescale)
                        checks = [("cor", "cor(z/sqrt(nu)) = P(z)*exp(-z)", m.cor(h), ref),
                                  ("correlation", "correlation(r) = P(z)*exp(-z)", m.correlation(r), ref),
                                  ("covariance", "covariance(r) = var*P(z)*exp(-z)", m.covariance(r), var * ref),
                                  ("variogram", "variogram(r) = var*(1 - P(z)*exp(-z)) + nugget", m.variogram(r), var * (1.0 - ref) + nug)]
                        if p == 0:
                            # nu = 1/2 is the Exponential model with the length scale len_scale / sqrt(nu)
                            e = gs.Exponential(dim=kw["dim"], var=var, nugget=nug, len_scale=L, rescale=float(m.rescale) * math.sqrt(nu))
                            rg = np.arange(0, 13) / 8.0 * L
                            checks.append(("exponential", "Matern(nu=1/2).variogram = Exponential(rescale*sqrt(1/2)).variogram",
                                           m.variogram(rg), e.variogram(rg)))
                        col.cases += len(cases)
                        col.keys += len(cases)
                        for key, what, got, exp in checks:
                            got = np.asarray(got, dtype=float)
                            bad = differs(got, exp, HALF_TOL)
                            col.evals += got.size
                            if bad.any():
                                i = int(np.flatnonzero(bad)[0])
                                col.violation("maternhalf:nu=%g:%s" % (nu, key),
                                              "Matern(%s): %s fails at z = %r (P = %s from TLC): %r vs %r"
                                              % (kw, what, float(z[min(i, len(z) - 1)]),
                                                 "%d/%d" % tuple(cases[min(i, len(cases) - 1)]["poly"]), float(got[i]), float(np.asarray(exp)[i])),
                                              {"class": "Matern", "kwargs": kw, "relation": what, "z": z.tolist(),
                                               "lags": (h if key == "cor" else r).tolist(), "lhs": got.tolist(),
                                               "rhs": np.asarray(exp, dtype=float).tolist(), "case": _pubst(cases[min(i, len(cases) - 1)])})
        col.samples.append({"class": "Matern", "nu": nu, "z": z[3:7].tolist(),
                            "P(z) exact (TLC)": ["%d/%d" % tuple(c["poly"]) for c in cases[3:7]],
                            "correlation observed": np.asarray(m.correlation(r), dtype=float)[3:7].tolist(),
                            "P(z)*Exponential.correlation(z)": ref[3:7].tolist()})
    return col.result()


# interior "special" values of the shape parameters (integers, half-integers), dimension 1
SHAPE_SPECIAL = {
    "Matern": ("nu", (0.5, 1.0, 1.5, 2.0, 2.5, 3.0, 3.5), {}),
    "Stable": ("alpha", (0.5, 1.0, 1.5), {}),
    "Rational": ("alpha", (1.0, 1.5, 2.0), {}),
    "Integral": ("nu", (1.0, 2.0, 3.0), {}),
    "SuperSpherical": ("nu", (0.5, 1.0, 1.5, 2.0), {}),
    "JBessel": ("nu", (0.5, 1.0, 1.5, 2.0), {}),
    "TPLSimple": ("nu", (1.5, 2.0, 2.5, 3.0), {}),
    "TPLStable": ("alpha", (0.5, 1.0, 1.5), {"hurst": 0.5}),
    "TPLGaussian": ("hurst", (0.25, 0.5, 0.75), {}),
    "TPLExponential": ("hurst", (0.25, 0.5, 0.75), {"len_low": 0.5}),
}


def task_shape(job):
    """The documented forms are smooth in their shape parameter: the value at a special shape s0 lies
    between / next to its neighbours s0 -+ 2^-12:  |f(s0) - mean| <= |f(s0+e) - f(s0-e)| + 1e-6."""
    import gstools as gs

    (name,) = job
    col = Collect()
    optname, vals, extra = SHAPE_SPECIAL[name]
    eps = 2.0 ** -12
    L = 1.0
    r = np.concatenate([np.arange(0, 13) / 8.0, [2.0 ** -10, 2.0, 4.0, 16.0]]) * L
    cls = getattr(gs, name)
    with warnings.catch_warnings():
        warnings.simplefilter("ignore")
        for s0 in vals:
            for res in (None, 2.0):
                kw = dict(dim=1, var=1.0, nugget=0.0, len_scale=L, **extra)
                if res:
                    kw["rescale"] = res
                f = [np.asarray(cls(**dict(kw, **{optname: s})).correlation(r), dtype=float) for s in (s0 - eps, s0, s0 + eps)]
                col.cases += 1
                col.keys += 1
                col.evals += len(r)
                bad = ~(np.abs(f[1] - 0.5 * (f[0] + f[2])) <= np.abs(f[2] - f[0]) + 1e-6)
                if bad.any():
                    i = int(np.flatnonzero(bad)[0])
                    col.violation("shape-continuity:%s:%s" % (name, optname),
                                  "%s(%s): correlation(%r) jumps at %s = %r: %r, but %r and %r at %s -+ 2^-12"
                                  % (name, kw, float(r[i]), optname, s0, float(f[1][i]), float(f[0][i]), float(f[2][i]), optname),
                                  {"class": name, "kwargs": kw, "shape": optname, "value": s0, "eps": eps, "lags": r.tolist(),
                                   "below": f[0].tolist(), "at": f[1].tolist(), "above": f[2].tolist()})
        col.samples.append({"class": name, "shape": optname, "values": list(vals), "eps": eps,
                            "correlation(1.0) below/at/above last value": [float(x[8]) for x in f]})
    return col.result()


# ---------------------------------------------------------------------------
# part H: the spellings of a construction

# class -> (spec family, shape kwargs, integral scale needs a quadrature)
CTOR_CLASSES = {
    "Exponential": ("unit", {}, False), "Gaussian": ("unit", {}, False), "Stable": ("unit", {"alpha": 1.5}, False),
    "Matern": ("unit", {"nu": 1.5}, False), "Integral": ("unit", {"nu": 2.5}, False), "Rational": ("unit", {"alpha": 2.0}, False),
    "Spherical": ("unit", {}, True), "Cubic": ("unit", {}, True), "Circular": ("unit", {}, True),
    "HyperSpherical": ("unit", {}, True), "SuperSpherical": ("unit", {"nu": 2.0}, True), "TPLSimple": ("unit", {"nu": 3.0}, True),
    "TPLGaussian": ("tpl", {"hurst": 0.5, "len_low": 0.0}, True),
    "TPLExponential": ("tpl", {"hurst": 0.5, "len_low": 0.0}, True),
    "TPLStable": ("tpl", {"hurst": 0.5, "len_low": 0.0, "alpha": 1.5}, True),
    "UserVarFactor": ("user", {}, True),
}


def ctor_class(name):
    import gstools as gs

    if name != "UserVarFactor":
        return getattr(gs, name)

    def cor(self, h):
        return np.exp(-np.abs(np.asarray(h, dtype=np.double)))

    def var_factor(self):
        return 2.0 * self.len_scale / self.rescale

    return type("UserVarFactor", (gs.CovModel,), {"cor": cor, "var_factor": var_factor})


def ctor_kwargs(name, st, toggle):
    opt = CTOR_CLASSES[name][1]
    d = st["dim"]
    kw = dict(dim=d, nugget=qf(st["nug"]), **opt)
    kw[str(st["vs"])] = qf(st["v"])
    if d > 1:
        kw["anis"] = [qf(a) for a in st["an0"]]
        kw["angles"] = [0.3, 1.1, 0.7][: d * (d - 1) // 2]
    if tuple(st["r"]) != (0, 1):
        kw["rescale"] = qf(st["r"])
    if st["ls"] == "len":
        kw["len_scale"] = qf(st["L"])
    else:
        I = [qf(x) for x in st["I"]]
        kw["integral_scale"] = I[0] if (len(I) == 1 and toggle % 2) else I
        if toggle // 2 % 2:
            kw["len_scale"] = qf(st["L"])   # documented: ignored when integral_scale is given
    return kw


def ctor_observe(name, kw):
    """Construct and read the derived quantities."""
    cls = ctor_class(name)
    with warnings.catch_warnings():
        warnings.simplefilter("ignore")
        m = cls(**kw)
        far = 1.0e7 * max(1.0, float(m.len_scale))
        z = np.array([0.0, far])
        vg, cv, cn = (np.asarray(f(z), dtype=float) for f in (m.variogram, m.covariance, m.cov_nugget))
        obs = {"var": float(m.var), "var_raw": float(m.var_raw), "var_factor": float(m.var_factor()), "sill": float(m.sill),
               "nugget": float(m.nugget), "len_scale": float(m.len_scale), "rescale": float(m.rescale),
               "anis": [float(a) for a in m.anis], "covariance(0)": float(cv[0]), "cov_nugget(0)": float(cn[0]),
               "variogram(0)": float(vg[0]), "variogram(far)": float(vg[1]), "covariance(far)": float(cv[1])}
        if "integral_scale" in kw:
            obs["integral_scale"] = float(m.integral_scale)
            obs["integral_scale_vec"] = [float(x) for x in m.integral_scale_vec]
    return m, obs


def task_ctor(job):
    name, idx = job
    fam, opt, slow = CTOR_CLASSES[name]
    col = Collect()
    cls = ctor_class(name)
    tolq = 1e-6 if slow else TOL       # quantities that involve an integral scale found by quadrature
    kappa = {}
    for si in idx:
        st = _G["ctor"][fam][si]
        if name == "Linear" and st["dim"] > 1:
            continue
        kw = ctor_kwargs(name, st, si)
        spell = "%s+%s" % (st["vs"], st["ls"])
        try:
            m, obs = ctor_observe(name, kw)
        except Exception as e:  # noqa: BLE001
            col.violation("ctor:%s:%s:raises" % (name, spell), "%s(%s) raised %r" % (name, kw, e),
                          {"ctor": name, "kwargs": kw, "case": _pubst(st)})
            continue
        needk = any(st[f]["k"] for f in ("var", "raw", "len", "vf"))
        if needk:
            kk = (st["dim"], kw.get("rescale"))
            if kk not in kappa:
                with warnings.catch_warnings():
                    warnings.simplefilter("ignore")
                    ukw = dict(dim=st["dim"], len_scale=1.0, **opt)
                    if "rescale" in kw:
                        ukw["rescale"] = kw["rescale"]
                    kappa[kk] = float(cls(**ukw).integral_scale)
            kap = kappa[kk]
        else:
            kap = 1.0

        def val(x):
            return qf(x["q"]) * kap ** x["k"]

        var, nug = val(st["var"]), qf(st["nug"])
        exp = {"var": (var, st["var"]["k"]), "var_raw": (val(st["raw"]), st["raw"]["k"]),
               "var_factor": (val(st["vf"]), st["vf"]["k"]), "sill": (var + nug, st["var"]["k"]), "nugget": (nug, 0),
               "len_scale": (val(st["len"]), st["len"]["k"]), "anis": ([qf(a) for a in st["anis"]], 0),
               "covariance(0)": (var, st["var"]["k"]), "cov_nugget(0)": (var + nug, st["var"]["k"]),
               "variogram(0)": (nug, 0), "variogram(far)": (var + nug, 1), "covariance(far)": (0.0, 1)}
        if "rescale" in kw:
            exp["rescale"] = (kw["rescale"], 0)
        if "integral_scale" in kw:
            exp["integral_scale"] = (qf(st["int"]), 1)
            exp["integral_scale_vec"] = ([qf(x) for x in st["vec"]], 1)
        col.cases += 1
        col.keys += 1
        for k, (e, usesk) in exp.items():
            tol = tolq if usesk else TOL
            if k in ("variogram(far)", "covariance(far)"):
                tol = max(1e-9, tolq if st["var"]["k"] else 0.0)
            col.evals += 1
            if differs(obs[k], e, tol).any():
                col.violation("ctor:%s:%s:%s" % (name, spell, k),
                              "%s(%s): %s is %r, expected %r (%s)"
                              % (name, kw, k, obs[k], e,
                                 "var = var_raw * var_factor; a variance given as var is the variance; a prescribed integral scale is reported"),
                              {"ctor": name, "kwargs": kw, "case": _pubst(st), "kappa": kap,
                               "expected": {a: b[0] for a, b in exp.items()}, "observed": obs})
                break   # the first deviating quantity names the root cause; the others follow from it
        if fam != "unit" and "integral_scale" in kw and st["vs"] == "var" and len(col.samples) < 1:
            col.samples.append({"class": name, "kwargs": kw, "expected (TLC; k = power of the measured kappa)":
                                {"var": st["var"], "var_raw": st["raw"], "len_scale": st["len"]},
                                "observed": {a: obs[a] for a in ("var", "var_raw", "len_scale", "covariance(0)", "variogram(far)", "integral_scale")}})
    return col.result()


def _pubst(st):
    return json.loads(json.dumps(st, default=list))


def _jsonable_sample(o):
    return json.loads(json.dumps(o, default=lambda x: x.tolist() if hasattr(x, "tolist") else repr(x)))


def _dispatch(job):
    kind, payload = job
    try:
        return kind, {"user": task_user, "poly": task_poly, "relation": task_relation, "int": task_int,
                      "hist": task_hist, "tpl": task_tpl, "half": task_half, "shape": task_shape, "ctor": task_ctor}[kind](payload)
    except RecursionError:
        # evaluation of a model function does not terminate: the derivation of the missing
        # functions is cyclic (C03: every function bottoms out in a defined one)
        col = Collect()
        who = payload[0] if kind != "user" else "user class {%s}" % dsig(payload[0])
        col.violation("cycle:%s:%s" % (kind, who if kind != "poly" else payload[0][0]),
                      "%s: evaluating a model function never terminates (RecursionError, cyclic delegation)" % (who,),
                      {"task": kind, "payload": repr(payload)})
        return kind, col.result()


def aux_numeric(rep):
    """Clearly auxiliary numeric cross-checks (quadrature / root finding); never a VIOLATION."""
    import gstools as gs

    out = {"integral_scale_by_quadrature": [], "closed_form_integral_scale_vs_quadrature": [], "percentile_scale": []}
    with warnings.catch_warnings():
        warnings.simplefilter("ignore")
        for name, kw in (("Linear", dict(dim=1)), ("Spherical", dict(dim=3)), ("Cubic", dict(dim=3)),
                         ("Circular", dict(dim=2)), ("HyperSpherical", dict(dim=3)), ("SuperSpherical", dict(dim=3, nu=2.0)),
                         ("TPLSimple", dict(dim=3, nu=3.0))):
            try:
                m = getattr(gs, name)(integral_scale=1.5, **kw)
                out["integral_scale_by_quadrature"].append({"class": name, "assigned": 1.5, "reported": float(m.integral_scale)})
            except Exception as e:  # noqa: BLE001
                out["integral_scale_by_quadrature"].append({"class": name, "assigned": 1.5, "error": repr(e)})
        for name, opts in INT_CLASSES.items():
            try:
                m = getattr(gs, name)(dim=2, len_scale=2.0, **opts[-1])
                out["closed_form_integral_scale_vs_quadrature"].append(
                    {"class": name, "opt": opts[-1], "closed_form": float(m.integral_scale),
                     "quadrature": float(gs.CovModel.calc_integral_scale(m))})
            except Exception as e:  # noqa: BLE001
                out["closed_form_integral_scale_vs_quadrature"].append({"class": name, "error": repr(e)})
        for name, kw in (("Exponential", {}), ("Gaussian", {}), ("Spherical", {}), ("Matern", {"nu": 1.5}), ("Rational", {"alpha": 2.0})):
            try:
                m = getattr(gs, name)(dim=2, var=2.0, nugget=1.0, len_scale=2.0, **kw)
                ps = float(m.percentile_scale(0.9))
                out["percentile_scale"].append({"class": name, "per": 0.9, "scale": ps,
                                                "(variogram(scale)-nugget)/var": float((m.variogram(ps) - 1.0) / 2.0)})
            except Exception as e:  # noqa: BLE001
                out["percentile_scale"].append({"class": name, "error": repr(e)})
        # informational: the near-zero shortcut of tplstable_cor (|r/l| <= 1e-8 -> 1) applied to only one of the
        # two modes makes the correlation exceed 1 for lags between 1e-8*ll and 1e-8*lu
        try:
            m = gs.TPLStable(dim=1, len_scale=2.0, len_low=1.0, hurst=0.5, alpha=0.5)
            r = 3.0 * 2.0 ** -np.arange(21, 34)
            c = np.asarray(m.correlation(r), dtype=float)
            out["tpl_near_zero_lags"] = {"model": "TPLStable(dim=1, len_scale=2, len_low=1, hurst=0.5, alpha=0.5)",
                                         "lags": r.tolist(), "correlation": c.tolist(), "max": float(c.max())}
        except Exception as e:  # noqa: BLE001
            out["tpl_near_zero_lags"] = {"error": repr(e)}
    rep.extra["aux_numeric"] = out


# ---------------------------------------------------------------------------


def do_replay(path):
    rp = json.load(open(path))
    print("replaying", rp["key"], "\n ", rp["what"])
    r = rp["replay"]
    if "ctor" in r:  # spelling of a construction
        _m, obs = ctor_observe(r["ctor"], r["kwargs"])
        print("  %s(%s)" % (r["ctor"], r["kwargs"]))
        for k in obs:
            print("   %-18s observed %r   expected %r" % (k, obs[k], r.get("expected", {}).get(k)))
        return 0
    if "ops" in r and "init" in r:  # history of assignments
        sts = [{"isc": r["init"]}]
        hm = HistModel(r["class"], r["init"])
        print("  constructed:", hm.kw, "\n  observed:", hm.observed())
        for op in r["ops"]:
            hm.apply(op, r.get("toggle", 0))
            print("  after", tlaval.to_tla(op), "->", hm.observed() if r.get("every", True) or op is r["ops"][-1] else "(not read)")
        print("  expected:", r.get("expected"))
        return 0
    if "relation" in r and "lags" in r:  # TPL superposition
        import gstools as gs
        with warnings.catch_warnings():
            warnings.simplefilter("ignore")
            m = getattr(gs, r["class"])(**r["kwargs"])
            print("  model:", r["class"], r["kwargs"], "\n  relation:", r["relation"], "\n  TLC case:", r["case"])
            lhs, rhs = np.array(r["lhs"]), np.array(r["rhs"])
            i = int(np.argmax(np.abs(lhs - rhs)))
            print("  correlation now:", np.asarray(m.correlation(np.array(r["lags"])))[max(0, i - 1):i + 2].tolist())
            print("  recorded lhs:", lhs[max(0, i - 1):i + 2].tolist(), "\n  recorded rhs:", rhs[max(0, i - 1):i + 2].tolist())
        return 0
    if "state" in r and "class" in r:  # integral scale
        import gstools as gs
        kw, val, exp, obs = int_case(getattr(gs, r["class"]), r["class"], r["state"], r["opt"], r["rescale"], r["toggle"])
        print("  model kwargs:", kw, "\n  assigned:", val, "\n  expected:", exp, "\n  observed:", obs)
        return 0
    if "model" in r and "kwargs" in r["model"]:
        m = build_model(r["model"])
        print("  model:", r["model"])
        if "call" in r:
            c = r["call"]
            args = [np.array(a) for a in c["args"]]
            got = np.asarray(getattr(m, c["method"])(*args, **c.get("kwargs", {})))
            print("  %s(...) ->" % c["method"], got.tolist())
            if "expected_from" in r:
                e = r["expected_from"]
                print("  index", r["index"], "observed", got.flat[r["index"]], "expected",
                      e["const"] if e["const"] != "none" else getattr(m, e["method"])(np.array([e["lag"]])))
            elif "expected" in r:
                print("  expected  ->", r["expected"])
            elif "expected_at_index" in r:
                print("  index", r["index"], "observed", got.flat[r["index"]], "expected (TLC)", r["expected_at_index"])
        if "identity" in r:
            print("  identity", r["identity"], "\n  lhs", r["lhs"], "\n  rhs", r["rhs"])
    else:
        print(json.dumps(r, indent=1)[:4000])
    return 0


def run(pid, tier, seed, replay=None):
    if replay:
        return do_replay(replay)
    rep = Report(pid, tier, seed)
    rng = random.Random(seed)
    big = tier == "thorough"
    rep.assumptions += [
        "abstraction: model parameters and lags are the float images of the spec's integers / rationals "
        "(len_scale in {1/2,1,2}, ratios 2^e, quarter-turn angles, lags k/8*len_scale); comparison tolerance 1e-12",
        "closed forms are decided only for the polynomial / rational models (Linear, Spherical, Cubic, TPLSimple with integer nu, "
        "HyperSpherical in dim 1 and 3, SuperSpherical with integer nu, Rational with integer alpha); the closed forms of the "
        "transcendental models (Gaussian, Exponential, Stable, Matern incl. the nu > 20 switch, Integral, Circular, JBessel, "
        "TPLGaussian/TPLExponential/TPLStable, non-integer shape parameters) are NOT covered: for those classes only the identities "
        "and the variant relations between implementation outputs are checked",
        "accuracy of the quadrature behind calc_integral_scale and of the root finder behind percentile_scale is NOT covered "
        "(aux_numeric is informational); 'integral scale = integral of the correlation' is not decided, only the setter logic "
        "on classes with a closed-form integral scale",
        "for the superposition TPL models with len_low > 0 the documented relation is correlation(r) = wup*cor(r/lu) - wlow*cor(r/ll) "
        "(cor = the len_low = 0 mode; exact weights from TLC for 2H in {1, 1/2, 3/2}); the plain identity is demanded for len_low = 0",
        "TPL / Integral values themselves (exponential integral) are not compared with an external reference; small lags are examined "
        "down to 2^-20 of the upper truncation scale through structural relations only (superposition identity, mode bounds, "
        "monotonicity); below that the implementation treats the lag as zero (numeric accuracy, not examined; see aux_numeric)",
        "Matern with half-integer nu is decided through exp(-z) * P(z) with z = sqrt(nu)*rescale*r/len_scale (exact polynomial from TLC, "
        "exp(-z) supplied by the Exponential model, lags z/sqrt(nu) mapped with a correctly rounded float sqrt, 1e-11); other nu only "
        "through continuity in the shape parameter: |f(s0) - mean of neighbours| <= |f(s0+e) - f(s0-e)| + 1e-6 at e = 2^-12, a smoothness "
        "relation between implementation outputs (special-cased shape values), not a value oracle",
        "construction spellings: quantities that depend on a prescribed integral scale are TLC's rational times a power of kappa, the "
        "integral scale of a freshly constructed unit-length model of the same code (1e-12; 1e-6 where that needs a quadrature); the "
        "variance relations that do not involve kappa (var, covariance(0), sill when the variance is given as var) are exact (1e-12); "
        "far tail = 1e7 * max(1, len_scale) at 1e-9; TPL classes with hurst = 1/2, len_low = 0 (var_factor = len_scale/rescale exactly); "
        "JBessel is not constructed through integral_scale (the library refuses it)",
        "length units: a unit is a power of two applied to len_scale, len_low, lags, positions and geo_scale, so all float images "
        "stay exact and TLC's values on the lattice k/8*len_scale are unchanged (PolyUnitFree); spatial cases in other units for dim <= 2",
        "integral scale along histories: kappa(shape) is measured on a freshly constructed unit model of the same code, so the history "
        "relation decides staleness / coupling, not the value of kappa; quadrature classes (Spherical, SuperSpherical) at 1e-6",
        "the rotation convention used for *_spatial (planes xy, xz, yz; alternating signs; first angle first) is the "
        "Tait-Bryan convention of the documentation; its correctness as a geometry statement belongs to C12",
    ]
    with tlc.Scratch() as sc:
        mod, cfg, kmax = mc_text(tier, rng)
        sc.write("MC_Derive.tla", mod)
        # the same constants with a single shape index (classes without a shape parameter)
        sc.write("MC_Derive1.tla", mod.replace("MODULE MC_Derive ", "MODULE MC_Derive1 ").replace("McHistOpts == {1, 2}", "McHistOpts == {1}"))
        w = 2
        jobs = [
            ("graph", sc, "MC_Derive", cfg_part(cfg, "InitGraph", "NextGraph", GRAPH_INVS),
             dict(workers=1, timeout=600, dump=("states", sc.path("graph.dump")))),
            ("variant", sc, "MC_Derive", cfg_part(cfg, "InitVariant", "Stutter", VARIANT_INVS),
             dict(workers=w, timeout=1800, dump=("states", sc.path("variant.dump")))),
            ("unit", sc, "MC_Derive", cfg_part(cfg, "InitUnit", "Stutter", ["UnitSound"]),
             dict(workers=w, timeout=1800, dump=("states", sc.path("unit.dump")))),
            ("poly", sc, "MC_Derive", cfg_part(cfg, "InitPoly", "Stutter", POLY_INVS),
             dict(workers=w, timeout=1800, dump=("states", sc.path("poly.dump")))),
            ("intscale", sc, "MC_Derive", cfg_part(cfg, "InitInt", "Stutter", INT_INVS),
             dict(workers=w, timeout=1800, dump=("states", sc.path("int.dump")))),
            ("inthist2", sc, "MC_Derive", cfg_part(cfg, "InitHist", "NextHist", HIST_INV) + "PROPERTY HistCoupling\n",
             dict(workers=1, timeout=1800, dump=("dot", sc.path("hist2.dot")))),
            ("inthist1", sc, "MC_Derive1", cfg_part(cfg, "InitHist", "NextHist", HIST_INV) + "PROPERTY HistCoupling\n",
             dict(workers=1, timeout=1800, dump=("dot", sc.path("hist1.dot")))),
            ("tpl", sc, "MC_Derive", cfg_part(cfg, "InitTpl", "Stutter", ["TplSound"]),
             dict(workers=1, timeout=600, dump=("states", sc.path("tpl.dump")))),
            ("maternhalf", sc, "MC_Derive", cfg_part(cfg, "InitHalf", "Stutter", ["HalfSound"]),
             dict(workers=1, timeout=600, dump=("states", sc.path("half.dump")))),
            ("ctor", sc, "MC_Derive", cfg_part(cfg, "InitCtor", "Stutter", ["CtorSound"]),
             dict(workers=1, timeout=600, dump=("states", sc.path("ctor.dump")))),
        ]
        t0 = time.time()
        results = tlc.run_many(jobs, parallel=10)
        print("TLC: %d jobs in %.1fs" % (len(jobs), time.time() - t0))
        design_ok = True
        for key in ("graph", "variant", "unit", "poly", "intscale", "inthist2", "inthist1", "tpl", "maternhalf", "ctor"):
            r = results[key]
            tlc.must_pass(r, "Derive." + key)
            rep.add_tlc("Derive.%s" % key, r)
            if r.error:
                design_ok = False
                rep.violation("design:%s:%s" % (key, r.error[1]),
                              "Derive.tla (%s) violates its own %s %s" % (key, r.error[0], r.error[1]),
                              {"trace": tlc.error_trace(r)})
        if not design_ok:
            return rep.finish(level="model_checking", rule="design check failed; nothing replayed", exhaustive=False)
        t0 = time.time()
        gstates = tlc.read_state_dump(sc.path("graph.dump"))
        vstates = tlc.read_state_dump(sc.path("variant.dump"))
        pstates = tlc.read_state_dump(sc.path("poly.dump"))
        istates = tlc.read_state_dump(sc.path("int.dump"))
        tstates = tlc.read_state_dump(sc.path("tpl.dump"))
        hstates = tlc.read_state_dump(sc.path("half.dump"))
        cstates = tlc.read_state_dump(sc.path("ctor.dump"))
        ustates = tlc.read_state_dump(sc.path("unit.dump"))
        hist = {}
        for nopt in (1, 2):
            nodes, edges, inits = tlc.read_dot(sc.path("hist%d.dot" % nopt))
            pl, left = paths.edge_cover(nodes, edges, inits, rng=random.Random(rng.randrange(2**31)), merge=True)
            if left:
                raise tlc.MachineryError("history graph: %d transitions not covered" % left)
            hist[nopt] = (nodes, pl)
        print("parsed %d + %d + %d + %d dumped states in %.1fs" % (len(gstates), len(vstates), len(pstates), len(istates),
                                                                  time.time() - t0))
    # part A: per subset D the verdict and the grounding of every function
    ground, verdict = {}, {}
    for st in gstates:
        D = frozenset(st["D"])
        if st["pc"] in ("installed", "rejected"):
            verdict[D] = str(st["pc"])
        if st["pc"] == "installed" and st["ev"]["fn"] != "-" and st["inst"][st["ev"]["at"]] == "user":
            ground.setdefault(D, {})[str(st["ev"]["fn"])] = (str(st["ev"]["at"]), st["ev"]["n"])
    if len(verdict) != 16 or any(len(ground.get(D, {})) != 4 for D in verdict if verdict[D] == "installed"):
        raise tlc.MachineryError("graph dump incomplete: %d subsets" % len(verdict))
    if verdict[frozenset()] != "rejected" or any(v != "installed" for D, v in verdict.items() if D):
        raise tlc.MachineryError("graph verdicts inconsistent with the checked invariants")
    poly, polyraw = {}, {}
    for st in pstates:
        m, p = st["pm"]["m"], st["pm"]["p"]
        key = (str(m["name"]), m["opt"], m["dim"])
        poly.setdefault(key, []).append((p, table_of(st["tab"])))
        polyraw.setdefault(key, []).append({r["k"]: r for r in st["tab"]})
    for key in poly:
        order = sorted(range(len(poly[key])), key=lambda i: tuple(sorted(poly[key][i][0].items())))
        poly[key] = [poly[key][i] for i in order]
        polyraw[key] = [polyraw[key][i] for i in order]
    groups = group_cases(vstates)
    ints = sorted((st["isc"] for st in istates), key=lambda s: tlaval.to_tla(s))
    rng.shuffle(ints)
    tpls = sorted((st["vc"] for st in tstates), key=lambda c: tlaval.to_tla(c))
    ugroups = {}
    for ue in sorted({st["vc"]["ue"] for st in ustates}):
        ugroups[ue] = group_cases([{"vc": st["vc"]["c"]} for st in ustates if st["vc"]["ue"] == ue])
    if len({tlaval.to_tla([_pubg(g) for g in gs_]) for gs_ in ugroups.values()}) != 1:
        raise tlc.MachineryError("unit part: the case sets of the units differ")
    _G["ugroups"] = ugroups
    ctors = {}
    for st in sorted((st["vc"] for st in cstates), key=lambda c: tlaval.to_tla(c)):
        ctors.setdefault(str(st["fam"]), []).append(st)
    for fam in ctors:
        rng.shuffle(ctors[fam])
    _G["ctor"] = ctors
    _G.update(tier=tier, kmax=kmax, ground=ground, poly=poly, polyraw=polyraw, groups=groups, int=ints, hist=hist, tpl=tpls,
              half=sorted((st["vc"] for st in hstates), key=lambda c: (c["p"], qf(c["z"]))),
              nspatial_value=40 if big else 6, nspatial_rel=1200 if big else 150)
    work = []
    for D in sorted(verdict, key=lambda s: (len(s), sorted(s))):
        for form in USER_FORMS:
            work.append(("user", (tuple(sorted(D)), form, rng.randrange(2**31))))
    for mkey in sorted(poly):
        if mkey[0] in POLY_CLASSES:
            work.append(("poly", (mkey, rng.randrange(2**31))))
    for name in SHIPPED:
        work.append(("relation", (name, rng.randrange(2**31))))
    chunk = 400
    for name in INT_CLASSES:
        for lo in range(0, len(ints), chunk):
            work.append(("int", (name, lo, min(len(ints), lo + chunk))))
    # part E: every class replays a share of the transition-covering behaviours (all of them
    # in thorough); together the classes cover every transition several times
    for ci, name in enumerate(HIST_CLASSES):
        npaths = len(hist[2 if HIST_CLASSES[name][0] else 1][1])
        idx = list(range(npaths))
        rng.shuffle(idx)
        quad = HIST_CLASSES[name][2] > TOL
        share = idx if (big and not quad) else idx[: max(60, npaths // (12 if quad else 3))]
        for lo in range(0, len(share), 150):
            work.append(("hist", (name, share[lo:lo + 150], rng.randrange(2**31))))
    for ci in range(len(TPL_CLASSES)):
        work.append(("tpl", (ci, 0, len(tpls), 0, 1)))
        for ui, ue in enumerate(sorted(ugroups)):       # the same identity in other length units
            work.append(("tpl", (ci, (ci + ui) % 3 if not big else 0, len(tpls), ue, 1 if big else 3)))
    for pp in sorted({c["p"] for c in _G["half"]}):
        work.append(("half", (pp,)))
    for name in SHAPE_SPECIAL:
        work.append(("shape", (name,)))
    # part H: every class of a family replays the family's constructions; classes whose integral scale needs a
    # quadrature take a share of them in quick (the shares of a family together cover all its states)
    for ci, (name, (fam, _opt, slow)) in enumerate(CTOR_CLASSES.items()):
        n = len(ctors[fam])
        stride = 1 if big else ({"unit": 6, "tpl": 9, "user": 1}[fam] if slow else 2)
        idx = list(range(ci % stride, n, stride))
        step = {"unit": 500, "tpl": 27, "user": 250}[fam] if not big else 90
        for lo in range(0, len(idx), step):
            work.append(("ctor", (name, idx[lo:lo + step])))
    only = os.environ.get("VERIF_ONLY")
    if only:
        work = [w_ for w_ in work if w_[0] in only.split(",")]
    # long tasks first
    work.sort(key=lambda j: {"relation": 0, "hist": 1, "user": 2, "poly": 3, "int": 4, "tpl": 5, "half": 6, "shape": 7, "ctor": 1}[j[0]])
    import multiprocessing as mp

    t0 = time.time()
    per_kind = {}
    nproc = int(os.environ.get("VERIF_PROCS", "14"))
    with mp.get_context("fork").Pool(nproc) as pool:
        for kind, res in pool.imap_unordered(_dispatch, work):
            k = per_kind.setdefault(kind, {"cases": 0, "evals": 0, "keys": 0})
            for f in k:
                k[f] += res[f]
            for key, what, rp in res["violations"]:
                rep.violation(key, what, rp)
            for msg in res["drift"]:
                rep.drift_msg(msg)
            for s in res["samples"]:
                cap = {"user": 3, "poly": 2, "relation": 2, "int": 1, "hist": 2, "tpl": 2, "half": 2, "shape": 1, "ctor": 3}[kind]
                s = _jsonable_sample(dict(s, part=kind))
                if s not in rep.samples and sum(1 for x in rep.samples if x.get("part") == kind) < cap:
                    rep.sample(s, cap=24)
    print("replay: %d tasks in %.1fs: %s" % (len(work), time.time() - t0, per_kind))
    base = 0
    for kind in sorted(per_kind):
        k = per_kind[kind]
        rep.traces += k["cases"]
        rep.evaluations += k["evals"]
        rep.nontrivial |= set(range(base, base + k["keys"]))
        base += k["keys"]
    rep.extra["replayed"] = per_kind
    rep.extra["variant_groups"] = {kd: sum(1 for g in groups if g["kind"] == kd) for kd in ("nugget", "axis", "yadrenko", "spatial")}
    rep.extra["poly_model_records"] = len(poly)
    aux_numeric(rep)
    return rep.finish(
        level="model_checking",
        rule="traces = executions of one TLC-generated case on one real model (variant case x method, (model, parameter) table, "
             "integral-scale case, observation point of an assignment history, TPL superposition case, construction spelling); evaluations = float comparisons; distinct non-trivial = distinct (TLC state, class / generated "
             "subclass, parameter set) combinations on which at least one function of a real model was evaluated",
        exhaustive=False)
