"""C20: Alias.tla / AliasMatrix.tla bound to the public entry points of gstools.

Part A  TLC explores all histories of generate / field-call / transform operations on the
        alias heap of a Field object and checks EarlierResultsStable / NoForeignWrite; the
        behaviours are replayed on real SRF / Field objects with and without a mean / trend /
        normalizer: every array the caller holds (passed in or returned earlier) is compared
        byte-wise after every step, except the array a transformation with store=True was
        asked to replace.
Part B  TLC enumerates the entry-point matrix (entry x role x layout x option set); each cell
        is executed with sentinel arrays; all caller arrays are compared byte-wise.
"""
PROPERTIES = ("C20",)

import itertools
import os
import random
import warnings

import numpy as np

from .. import tlc, tlaval, paths
from ..report import Report

N = 12
LAYOUTS = ["f64c", "f32", "list", "fortran", "strided", "masked"]


# ---------------------------------------------------------------------------
# sentinel arrays


class Arg:
    """One caller argument in a given layout, with everything needed to detect a write."""

    def __init__(self, base, layout):
        base = np.array(base, dtype=np.double)
        self.layout = layout
        self.guard = None
        if layout == "f64c":
            self.value = np.ascontiguousarray(base)
        elif layout == "f32":
            self.value = base.astype(np.float32)
        elif layout == "list":
            self.value = base.tolist()
        elif layout == "fortran":
            self.value = np.asfortranarray(base)
        elif layout == "strided":
            big = np.full(base.shape[:-1] + (2 * base.shape[-1],), 7.25)
            big[..., ::2] = base
            self.guard = big
            self.value = big[..., ::2]
        elif layout == "masked":
            mask = np.zeros(base.shape, dtype=bool)
            self.value = np.ma.array(base, mask=mask)
        else:
            raise AssertionError(layout)
        self.before = self.snapshot()

    def snapshot(self):
        v = self.value
        if isinstance(v, list):
            return repr(v)
        if isinstance(v, np.ma.MaskedArray):
            return (np.ma.getdata(v).tobytes(), np.ma.getmaskarray(v).tobytes(), v.shape,
                    None if self.guard is None else self.guard.tobytes())
        return (v.tobytes(), v.shape, str(v.dtype), None if self.guard is None else self.guard.tobytes())

    def changed(self):
        return self.snapshot() != self.before


def base_pos(dim=2, latlon=False):
    rng = np.random.default_rng(5)
    if latlon:
        return np.array([rng.uniform(-60, 60, N), rng.uniform(-150, 150, N)])
    return rng.uniform(0, 10, (dim, N))


def base_field(k=None):
    rng = np.random.default_rng(6)
    return rng.normal(1.0, 1.0, N) + 3.0 if k is None else rng.normal(1.0, 1.0, (k, N)) + 3.0


def _trend(*p):
    return 0.5 * p[0]


def _coord(*p):
    """A legal user callable that returns one of its coordinate arguments unchanged (a view of the positions)."""
    return p[0]


# ---------------------------------------------------------------------------
# entry table: entry -> dict(roles={role: base array factory(opts)}, opts=[...], inplace=[...], call=f(gs, args, opts))


def _norm(gs, opts):
    return gs.normalizer.LogNormal() if "normalizer" in opts else None


def e_vario_estimate(gs, a, o):
    kw = {}
    if "latlon_geo" in o:
        kw.update(latlon=True, geo_scale=gs.KM_SCALE)
    if "trend" in o:
        kw["trend"] = _trend
    if "mean" in o:
        kw["mean"] = 2.0
    if "normalizer" in o:
        kw["normalizer"] = gs.normalizer.LogNormal()
    if "no_data" in o:
        kw["no_data"] = -999.0
    if "directional" in o and "latlon_geo" not in o:
        kw["direction"] = a["direction"]
    if "mask" in a and "masked_field" not in o:
        kw["mask"] = a["mask"]
    return gs.vario_estimate(a["pos"], a["field"], a["bin_edges"], return_counts=True, **kw)


def e_vario_axis(gs, a, o):
    return gs.vario_estimate_axis(a["field2d"], direction="y" if "diry" in o else "x",
                                  estimator="cressie" if "cressie" in o else "matheron",
                                  **({"no_data": 4.0} if "no_data" in o else {}))


def e_standard_bins(gs, a, o):
    kw = dict(latlon=True, geo_scale=gs.KM_SCALE) if "latlon_geo" in o else {}
    return gs.variogram.standard_bins(a["pos"], **kw)


def _krige(gs, a, o):
    model = gs.Gaussian(dim=2, var=2, len_scale=3, nugget=0.1)
    kw = {}
    if "trend" in o:
        kw["trend"] = _trend
    if "normalizer" in o:
        kw["normalizer"] = gs.normalizer.LogNormal()
    if "fit_normalizer" in o:
        kw["normalizer"] = gs.normalizer.BoxCox()
        kw["fit_normalizer"] = True
    if "fit_variogram" in o:
        kw["fit_variogram"] = True
    if "cond_err" in a:
        kw["cond_err"] = a["cond_err"]
    if "ext_drift" in a:
        return gs.krige.ExtDrift(model, a["cond_pos"], a["cond_val"], a["ext_drift"], **kw)
    if "simple" in o:
        return gs.krige.Simple(model, a["cond_pos"], a["cond_val"], mean=_coord if "coord_mean" in o else 2.0, **kw)
    return gs.krige.Ordinary(model, a["cond_pos"], a["cond_val"], **kw)


def e_krige_init(gs, a, o):
    return _krige(gs, a, o)


def e_krige_setcond(gs, a, o):
    k = gs.krige.Ordinary(gs.Gaussian(dim=2, var=2, len_scale=3, nugget=0.1), base_pos(), base_field(),
                          **({"trend": _trend} if "trend" in o else {}),
                          **({"normalizer": gs.normalizer.LogNormal()} if "normalizer" in o else {}))
    k.set_condition(a["cond_pos"], a["cond_val"], **({"cond_err": a["cond_err"]} if "cond_err" in a else {}))
    return k


HELD = []


def hold(label, arr):
    """Register a result the caller keeps; run_cell verifies it is unchanged at the end of the cell."""
    for i, x in enumerate(arr if isinstance(arr, (tuple, list)) else [arr]):
        if isinstance(x, np.ndarray):
            HELD.append(("%s[%d]" % (label, i), x, x.tobytes()))
    return arr


def e_krige_call(gs, a, o):
    b = {"cond_pos": base_pos(), "cond_val": base_field()}
    if "ext_drift_t" in a:
        b["ext_drift"] = base_field() * 0.1
    k = _krige(gs, b, o)
    kw = {}
    if "ext_drift_t" in a:
        kw["ext_drift"] = a["ext_drift_t"]
    if "chunk" in o:
        kw["chunk_size"] = 5
    if "only_mean" in o:
        kw["only_mean"] = True
    if "raw" in o:
        kw["post_process"] = False
    # two evaluations on equally sized meshes: the first result must survive the second call
    if "structured" in o:
        hold("first kriging result", k((a["gx"], a["gy"]), mesh_type="structured", **kw))
        kw2 = dict(kw, ext_drift=np.asarray(kw["ext_drift"], dtype=float)[::-1].copy()) if "ext_drift" in kw else kw
        return k((np.asarray(a["gx"], dtype=float) + 0.5, a["gy"]), mesh_type="structured", store=["f2", "v2"], **kw2)
    hold("first kriging result", k(a["tpos"], **kw))
    kw2 = dict(kw, ext_drift=np.asarray(kw["ext_drift"], dtype=float)[::-1].copy()) if "ext_drift" in kw else kw
    out = k(np.asarray(a["tpos"], dtype=float) + 0.25, store=["f2", "v2"], **kw2)
    if "ext_drift" not in kw:
        k(only_mean=True, store="m2")
    return out


def _llt_model(gs):
    return gs.Gaussian(latlon=True, temporal=True, var=2, len_scale=2000, anis=[1, 1, 0.25], geo_scale=gs.KM_SCALE)


def base_llt_pos():
    p = base_pos(latlon=True)
    return np.array([p[0], p[1], np.linspace(1.0, 9.0, N)])


def _srf(gs, o):
    model = gs.Gaussian(dim=2, var=2, len_scale=3, nugget=0.1 if "nugget" in o else 0.0)
    if "latlon_temporal" in o:
        model = _llt_model(gs)
    kw = {}
    if "trend" in o:
        kw["trend"] = _trend
    if "mean" in o:
        kw["mean"] = 2.0
    if "coord_mean" in o:
        kw["mean"] = _coord
    if "normalizer" in o:
        kw["normalizer"] = gs.normalizer.LogNormal()
    return gs.SRF(model, seed=3, mode_no=8, **kw)


def e_srf_call(gs, a, o):
    s = _srf(gs, o)
    kw = {}
    if "point_volumes" in a:
        s = gs.SRF(s.model, seed=3, mode_no=8, upscaling="coarse_graining")
        kw["point_volumes"] = a["point_volumes"]
    if "latlon_temporal" in o:
        return s(a["lltpos"], **kw)
    if "structured" in o:
        hold("first field", s((a["gx"], a["gy"]), mesh_type="structured", **kw))
        return s((np.asarray(a["gx"], dtype=float) + 0.5, a["gy"]), mesh_type="structured", seed=9, store="f2", **kw)
    hold("first field", s(a["tpos"], **kw))
    t2 = np.asarray(a["tpos"], dtype=float)
    hold("second field (raw)", s(t2 + 0.25, seed=9, store="f2", post_process=False, **kw))
    return s(t2 + 0.5, seed=10, store=False, **kw)


def e_llt_krige(gs, a, o):
    """Kriging / conditioned simulation with a lat-lon + temporal model (positions as one (3, n) array)."""
    model = _llt_model(gs)
    k = gs.krige.Ordinary(model, a["cond_llt"], base_field())
    out = [k(a["lltpos"])]
    if "condsrf" in o:
        out.append(gs.CondSRF(k, seed=5, mode_no=8)(a["lltpos"]))
    out.append(model.isometrize(a["lltpos"]))
    out.append(model.anisometrize(model.isometrize(a["lltpos"])))
    return out


def e_condsrf_call(gs, a, o):
    k = _krige(gs, {"cond_pos": base_pos(), "cond_val": base_field()}, o)
    c = gs.CondSRF(k, seed=4, mode_no=8)
    kw = {"post_process": False} if "no_process" in o else {}
    if "structured" in o:
        out = c((a["gx"], a["gy"]), mesh_type="structured", **kw)
        c((a["gx"], a["gy"]), mesh_type="structured", seed=9, store=["f2", "rf2", "rk2"], krige_store=["kf2", True], **kw)
        return out
    out = c(a["tpos"], **kw)
    c(a["tpos"], seed=9, store=["f2", "rf2", "rk2"], krige_store=["kf2", True], **kw)
    return out


def e_field_call(gs, a, o):
    kw = {}
    if "trend" in o:
        kw["trend"] = _trend
    if "mean" in o:
        kw["mean"] = 2.0
    if "coord_mean" in o:
        kw["mean"] = _coord
    if "normalizer" in o:
        kw["normalizer"] = gs.normalizer.LogNormal()
    f = gs.field.Field(dim=2, **kw)
    return f(a["tpos"], field=a["field"], post_process="no_process" not in o)


NORMALIZERS = ["LogNormal", "BoxCox", "BoxCoxShift", "YeoJohnson", "Modulus", "Manly"]


def e_normalizer(gs, a, o):
    out = []
    for nm in NORMALIZERS:
        n = getattr(gs.normalizer, nm)()
        d = a["data"]
        out += [n.normalize(d), n.denormalize(d), n.derivative(d), n.loglikelihood(d)]
        if "fit" in o:
            n.fit(d)
    return out


def e_apply_mnt(gs, a, o):
    kw = dict(mean=(_coord if "coord_mean" in o else 2.0) if ("mean" in o or "coord_mean" in o) else None,
              trend=_trend if "trend" in o else None,
              normalizer=gs.normalizer.LogNormal() if "normalizer" in o else None)
    if "stacked" in o:
        return gs.normalizer.apply_mean_norm_trend(a["tpos"], a["fields"], stacked=True, **kw)
    return gs.normalizer.apply_mean_norm_trend(a["tpos"], a["field"], **kw)


def e_remove_tnm(gs, a, o):
    kw = dict(mean=2.0 if "mean" in o else None, trend=_trend if "trend" in o else None,
              normalizer=gs.normalizer.LogNormal() if "normalizer" in o else None)
    if "fit_normalizer" in o:
        kw.update(normalizer=gs.normalizer.BoxCox(), fit_normalizer=True)
    if "stacked" in o:
        return gs.normalizer.remove_trend_norm_mean(a["tpos"], a["fields"], stacked=True, **kw)
    return gs.normalizer.remove_trend_norm_mean(a["tpos"], a["field"], **kw)


def e_fit_variogram(gs, a, o):
    if "latlon" in o:
        m = gs.Exponential(latlon=True, geo_scale=gs.KM_SCALE, var=1, len_scale=1000)
    else:
        m = gs.Exponential(dim=2, var=1, len_scale=2)
    kw = {}
    if "weights" in a:
        kw["weights"] = a["weights"]
    if "sill" in o:
        kw["sill"] = 1.2
    if "directional" in o and "latlon" not in o:
        return m.fit_variogram(a["x_data"], a["y_data2"], **kw)
    return m.fit_variogram(a["x_data"], a["y_data"], **kw)


ARRAY_TRANSFORMS = ["array_discrete", "array_boxcox", "array_zinnharvey", "array_force_moments", "array_to_lognormal",
                    "array_to_uniform", "array_to_arcsin", "array_to_uquad"]


def e_array_transforms(gs, a, o):
    t = gs.transform
    f = a["field"]
    return [t.array_discrete(f, [1.0, 2.0, 3.0]), t.array_boxcox(f, lmbda=0.5), t.array_zinnharvey(f, conn="high"),
            t.array_force_moments(f, mean=1, var=2), t.array_to_lognormal(f), t.array_to_uniform(f, mean=4.0, var=1.0),
            t.array_to_arcsin(f, mean=4.0, var=1.0), t.array_to_uquad(f, mean=4.0, var=1.0)]


def e_model_funcs(gs, a, o):
    m = gs.Stable(dim=2, var=2, len_scale=3, anis=0.5, angles=0.3, nugget=0.1)
    r = a["r"]
    out = [m.variogram(r), m.covariance(r), m.correlation(r), m.vario_nugget(r), m.cov_nugget(r), m.vario_axis(r, 1),
           m.spectrum(r), m.spectral_density(r), m.spectral_rad_pdf(r), m.cov_spatial(a["tpos"]), m.isometrize(a["tpos"]),
           m.anisometrize(a["tpos"])]
    ll = gs.Gaussian(latlon=True, geo_scale=gs.KM_SCALE, len_scale=500)
    out += [ll.isometrize(a["llpos"]), ll.vario_yadrenko(r), gs.tools.geometric.latlon2pos(a["llpos"]),
            gs.tools.geometric.pos2latlon(gs.tools.geometric.latlon2pos(a["llpos"])), gs.tools.geometric.generate_grid((a["gx"], a["gy"]))]
    return out


def _field_with_marker(o):
    f = base_field()
    if "no_data" in o and "normalizer" not in o:
        f[3] = -999.0  # the no_data marker of the "no_data" option
    return f


def _axis_field():
    f = base_field(6).T.copy()[:6, :5] + 0.0
    f[2, 3] = 4.0  # equals the no_data value of the "no_data" option
    f[0, 1] = 4.0
    return f


def grid_x():
    return np.linspace(0.0, 6.0, 4)


def grid_y():
    return np.linspace(1.0, 5.0, 3)


ENTRIES = {
    "vario_estimate": dict(
        roles={"pos": lambda o: base_pos(latlon="latlon_geo" in o), "field": lambda o: _field_with_marker(o),
               "bin_edges": lambda o: np.array([0.0, 1500.0, 3000.0, 6000.0]) if "latlon_geo" in o else np.array([0.0, 2.0, 4.0, 8.0]),
               "mask": lambda o: np.array([0, 1] + [0] * (N - 2), dtype=float), "direction": lambda o: np.array([[1.0, 1.0], [0.0, 2.0]])},
        opts=["latlon_geo", "trend", "mean", "normalizer", "no_data", "directional"],
        inplace=["latlon_geo", "trend", "mean", "normalizer", "no_data"], call=e_vario_estimate),
    "vario_estimate_axis": dict(
        roles={"field2d": lambda o: _axis_field()}, opts=["no_data", "cressie", "diry"],
        inplace=["no_data"], call=e_vario_axis),
    "standard_bins": dict(roles={"pos": lambda o: base_pos(latlon="latlon_geo" in o)}, opts=["latlon_geo"],
                          inplace=["latlon_geo"], call=e_standard_bins),
    "krige_init": dict(
        roles={"cond_pos": lambda o: base_pos(), "cond_val": lambda o: base_field(), "cond_err": lambda o: np.full(N, 0.05),
               "ext_drift": lambda o: base_field() * 0.1},
        opts=["trend", "normalizer", "fit_normalizer", "fit_variogram", "simple"],
        inplace=["trend", "normalizer", "fit_normalizer", "fit_variogram", "simple"], call=e_krige_init),
    "krige_set_condition": dict(
        roles={"cond_pos": lambda o: base_pos() + 0.5, "cond_val": lambda o: base_field() + 0.5, "cond_err": lambda o: np.full(N, 0.05)},
        opts=["trend", "normalizer"], inplace=["trend", "normalizer"], call=e_krige_setcond),
    "krige_call": dict(
        roles={"tpos": lambda o: base_pos() + 0.3, "gx": lambda o: grid_x(), "gy": lambda o: grid_y(),
               "ext_drift_t": lambda o: (np.arange(12.0) if "structured" in o else base_field() * 0.2)},
        opts=["structured", "chunk", "only_mean", "trend", "normalizer", "simple", "coord_mean", "raw"],
        inplace=["trend", "normalizer", "simple", "coord_mean", "raw"], call=e_krige_call),
    "latlon_temporal": dict(
        roles={"lltpos": lambda o: base_llt_pos(), "cond_llt": lambda o: base_llt_pos() + 0.5}, opts=["condsrf"], inplace=["condsrf"],
        call=e_llt_krige),
    "srf_call": dict(
        roles={"tpos": lambda o: base_pos() + 0.3, "gx": lambda o: grid_x(), "gy": lambda o: grid_y(), "lltpos": lambda o: base_llt_pos(),
               "point_volumes": lambda o: (np.full(12, 0.5) if "structured" in o else np.full(N, 0.5))},
        opts=["structured", "trend", "mean", "normalizer", "nugget", "latlon_temporal", "coord_mean"],
        inplace=["trend", "mean", "normalizer", "latlon_temporal", "coord_mean"], call=e_srf_call),
    "condsrf_call": dict(
        roles={"tpos": lambda o: base_pos() + 0.3, "gx": lambda o: grid_x(), "gy": lambda o: grid_y()},
        opts=["structured", "trend", "normalizer", "simple", "no_process"], inplace=["trend", "normalizer", "simple", "no_process"], call=e_condsrf_call),
    "field_call": dict(
        roles={"tpos": lambda o: base_pos(), "field": lambda o: base_field()},
        opts=["trend", "mean", "normalizer", "no_process", "coord_mean"], inplace=["trend", "mean", "normalizer", "coord_mean"], call=e_field_call),
    # out_of_range: the data contain values outside the normalizer's domain (answered with a warning and NaN)
    "normalizer_methods": dict(roles={"data": lambda o: (base_field() - 3.0) if "out_of_range" in o else np.abs(base_field()) + 0.5},
                               opts=["fit", "out_of_range"], inplace=["fit", "out_of_range"], call=e_normalizer),
    "apply_mean_norm_trend": dict(
        roles={"tpos": lambda o: base_pos(), "field": lambda o: base_field(), "fields": lambda o: base_field(2)},
        opts=["mean", "trend", "normalizer", "stacked", "coord_mean"], inplace=["mean", "trend", "normalizer", "coord_mean"], call=e_apply_mnt),
    "remove_trend_norm_mean": dict(
        roles={"tpos": lambda o: base_pos(), "field": lambda o: base_field() + 5, "fields": lambda o: base_field(2) + 5},
        opts=["mean", "trend", "normalizer", "stacked", "fit_normalizer"], inplace=["mean", "trend", "normalizer", "fit_normalizer"],
        call=e_remove_tnm),
    "fit_variogram": dict(
        roles={"x_data": lambda o: (np.array([100.0, 300, 600, 1000, 1500]) if "latlon" in o else np.array([0.5, 1.0, 2.0, 3.0, 5.0])),
               "y_data": lambda o: np.array([0.2, 0.4, 0.7, 0.85, 0.98]),
               "y_data2": lambda o: np.array([[0.2, 0.4, 0.7, 0.85, 0.98], [0.3, 0.5, 0.8, 0.9, 0.99]]),
               "weights": lambda o: np.array([1.0, 1.0, 0.5, 0.0, 0.25])},  # an exact zero weight is legal
        opts=["directional", "sill", "latlon"], inplace=["directional", "sill", "latlon"], call=e_fit_variogram),
    "array_transforms": dict(roles={"field": lambda o: base_field()}, opts=[], inplace=[], call=e_array_transforms),
    "model_functions": dict(
        roles={"r": lambda o: np.linspace(0.0, 6.0, N), "tpos": lambda o: base_pos(), "llpos": lambda o: base_pos(latlon=True),
               "gx": lambda o: grid_x(), "gy": lambda o: grid_y()}, opts=[], inplace=[], call=e_model_funcs),
}
# roles that only make sense with some layouts / options
MASKED_OK = {"field", "field2d", "fields"}


def role_applicable(entry, role, layout, opts):
    if layout == "masked" and role not in MASKED_OK:
        return False
    if layout == "list" and (entry in ("apply_mean_norm_trend", "remove_trend_norm_mean") and role in ("field", "fields")
                             or role == "point_volumes"):
        return False  # these arguments are documented as numpy arrays
    if entry == "krige_init" and "fit_variogram" in opts and "fit_normalizer" in opts:
        return False  # the automatic fit does not converge on the sentinel data
    if layout == "fortran" and role not in ("pos", "tpos", "cond_pos", "fields", "field2d", "y_data2", "direction", "llpos", "lltpos", "cond_llt"):
        return False
    if role == "direction" and ("directional" not in opts or "latlon_geo" in opts):
        return False
    if role == "y_data2" and ("directional" not in opts or "latlon" in opts):
        return False
    if role == "y_data" and "directional" in opts and "latlon" not in opts:
        return False
    if role in ("gx", "gy") and entry in ("krige_call", "srf_call", "condsrf_call") and "structured" not in opts:
        return False
    if role == "tpos" and entry in ("krige_call", "srf_call", "condsrf_call") and "structured" in opts:
        return False
    if role == "lltpos" and entry == "srf_call" and "latlon_temporal" not in opts:
        return False
    if entry == "srf_call" and "latlon_temporal" in opts and (role != "lltpos" or opts & {"structured", "trend", "mean", "normalizer"}):
        return False
    if role == "fields" and "stacked" not in opts:
        return False
    if role == "field" and "stacked" in opts:
        return False
    if "coord_mean" in opts and ("mean" in opts or "normalizer" in opts
                                 or (entry in ("krige_call", "krige_init") and "simple" not in opts)
                                 or (entry in ("srf_call", "krige_call") and "structured" in opts and False)):
        return False   # coord_mean replaces the constant mean; keep the identity normalizer so that the mean is not log-transformed
    if role == "ext_drift" and "simple" in opts:
        return False
    if role == "ext_drift_t" and "simple" in opts:
        return False
    if entry == "vario_estimate" and role == "mask" and layout == "masked":
        return False
    if entry in ("krige_init",) and "fit_variogram" in opts and ("normalizer" in opts or "trend" in opts):
        return False
    if entry == "remove_trend_norm_mean" and "fit_normalizer" in opts and "normalizer" in opts:
        return False
    if entry == "krige_init" and "fit_normalizer" in opts and "normalizer" in opts:
        return False
    return True


class StoreMonitor:
    """Wraps Field.post_field: snapshots every array at the moment it is stored under a name; `altered()`
    reports arrays that are still bound under that name but whose bytes changed afterwards."""

    def __init__(self, gs):
        self.cls = gs.field.Field
        self.orig = self.cls.post_field
        self.log = []

    def __enter__(self):
        mon = self

        def post_field(fld, field, name="field", process=True, save=True):
            out = mon.orig(fld, field, name, process, save)
            if save:
                mon.log.append((fld, str(name), out, out.tobytes()))
            return out

        self.cls.post_field = post_field
        return self

    def __exit__(self, *a):
        self.cls.post_field = self.orig

    def altered(self):
        last = {}
        for fld, name, arr, snap in self.log:
            last[(id(fld), name)] = (fld, name, arr, snap)
        for fld, name, arr, snap in last.values():
            if name in fld.field_names and getattr(fld, name) is arr and arr.tobytes() != snap:
                return "%s.%s" % (type(fld).__name__, name)
        return None


def run_cell(gs, cell):
    """Execute one matrix cell; returns None or (role that changed, how)."""
    entry, role, layout, opts = cell["entry"], cell["role"], cell["layout"], set(cell["opts"])
    e = ENTRIES[entry]
    args = {}
    del HELD[:]
    for r, fac in e["roles"].items():
        if r != role and not role_applicable(entry, r, "f64c", opts):
            continue
        if r in ("cond_err", "ext_drift", "ext_drift_t", "point_volumes", "mask", "weights") and r != role:
            continue  # optional arguments are only passed when under test
        args[r] = Arg(fac(opts), layout if r == role else "f64c")
    try:
        with warnings.catch_warnings(), StoreMonitor(gs) as mon:
            warnings.simplefilter("ignore")
            e["call"](gs, {k: a.value for k, a in args.items()}, opts)
    except Exception as ex:  # noqa: BLE001
        return ("-", "exception %r" % ex)
    bad = mon.altered()
    if bad:
        return ("stored:" + bad, "a result stored during the call was altered after it had been stored")
    for label, arr, snap in HELD:
        if arr.tobytes() != snap:
            return ("returned:" + label.split("[")[0], "a result returned by an earlier call was altered by a later call")
    for r, a in args.items():
        if a.changed():
            return (r, "contents changed")
    return None


# ---------------------------------------------------------------------------
# part A: replay of heap behaviours


TRANSFORMS = {
    "function": ("function", dict(function=lambda x: x + 1.0)),
    "binary": ("binary", {}), "discrete": ("discrete", dict(values=[-1.0, 0.5, 2.0], thresholds="equal")), "zinnharvey": ("zinnharvey", {}),
    "force_moments": ("normal_force_moments", {}), "lognormal": ("normal_to_lognormal", {}), "uniform": ("normal_to_uniform", {}),
    "arcsin": ("normal_to_arcsin", {}), "uquad": ("normal_to_uquad", {}), "boxcox": ("boxcox", dict(lmbda=0.5, shift=3.0)),
}
NORMAL_KINDS = ["binary", "discrete", "zinnharvey", "force_moments", "uniform", "arcsin", "uquad"]


def heap_replay(gs, beh, pipeline):
    """Returns None or (signature, description)."""
    kw = {"mean": dict(mean=2.0), True: dict(mean=2.0, trend=_trend, normalizer=gs.normalizer.LogNormal()), False: {}}[pipeline]
    model = gs.Gaussian(dim=2, var=0.25, len_scale=3)
    srf = gs.SRF(model, seed=11, mode_no=8, **kw)
    pos = base_pos()
    held = []  # (label, array, bytes, exempt buffer flag)
    hist = []
    for st in beh[1:]:
        op = st["op"]
        hist.append(op)
        n = op["name"]
        target = None
        with warnings.catch_warnings():
            warnings.simplefilter("ignore")
            if n == "Generate":
                out = srf(pos, seed=len(hist), store=False if op["store"] == "none" else op["store"])
                held.append(("returned by step %d" % len(hist), out))
            elif n == "FieldCall":
                arr = np.ascontiguousarray(base_field() * 0.1 + 0.2)
                held.append(("array passed as field= in step %d" % len(hist), arr))
                out = gs.field.Field.__call__(srf, pos, field=arr, post_process=op["process"],
                                              store=False if op["store"] == "none" else op["store"])
                held.append(("returned by step %d" % len(hist), out))
            elif n == "Transform":
                src = op["src"]
                target = srf[src]
                store = True if op["store"] == "same" else (False if op["store"] == "none" else op["store"])
                try:
                    method, tkw = TRANSFORMS[op.get("kind", "function")]
                    out = srf.transform(method, field=src, store=store, process=op["process"], **tkw)
                except Exception as ex:  # noqa: BLE001
                    return ("Transform:exception", "transform raised %r after %s" % (ex, [tlaval.to_tla(o) for o in hist]))
                held.append(("returned by step %d" % len(hist), out))
        snaps = getattr(heap_replay, "_snaps", None)
        for i, (label, arr) in enumerate(held):
            key = id(arr)
            if key not in _SNAP:
                _SNAP[key] = arr.tobytes()
            elif arr is target:
                _SNAP[key] = arr.tobytes()  # the declared in-place target may change
            elif _SNAP[key] != arr.tobytes():
                sig = "%s:process=%s:store=%s" % (n, op.get("process"), "same" if op.get("store") == "same" else ("none" if op.get("store") == "none" else "name"))
                return (sig, "array %s was modified by %s" % (label, tlaval.to_tla(op)))
    return None


_SNAP = {}


class _Collect:
    def __init__(self):
        self.violations = []

    def violation(self, key, what, replay):
        if not any(k == key for k, _w, _r in self.violations):
            self.violations.append((key, what, replay))


def _work_cells(cells):
    warnings.simplefilter("ignore")
    import gstools as gs

    out = []
    for c in cells:
        out.append((c, run_cell(gs, c)))
    return out


def _work_heap(job):
    pipeline, behs = job
    warnings.simplefilter("ignore")
    import gstools as gs

    out = []
    for b in behs:
        _SNAP.clear()
        out.append((b, heap_replay(gs, b, pipeline)))
    return out


def tla_table():
    rows = []
    for e, d in ENTRIES.items():
        rows.append('%s |-> [roles |-> {%s}, opts |-> {%s}, inplace |-> {%s}]' % (
            e, ", ".join('"%s"' % r for r in d["roles"]), ", ".join('"%s"' % o for o in d["opts"]),
            ", ".join('"%s"' % o for o in d["inplace"])))
    return "[" + ",\n ".join(rows) + "]"


def run(pid, tier, seed, replay=None):
    rep = Report(pid, tier, seed)
    rng = random.Random(seed)
    thorough = tier == "thorough"
    rep.assumptions += [
        "a write is detected by comparing the bytes of every caller array (data and mask; for strided views also the memory between the elements) before and after the call, "
        "and by passing read-only arrays (a 'read-only' ValueError is a write attempt)",
        "entry-point matrix = the table ENTRIES in harness/drivers/alias.py mirrored into AliasMatrix.tla; entry points not in the table (plotting, export) are not covered",
        "a transformation with store=True may replace the array it was asked to transform in place",
        "FieldStore.tla models the storage of Field / SRF objects as the code behaves, with three named deviations (D1-D3) that no listed property forbids",
    ]
    if replay:
        import json
        import gstools as gs
        rp = json.load(open(replay))["replay"]
        if "cell" in rp:
            print(rp["cell"], "->", run_cell(gs, rp["cell"]))
        else:
            print(json.dumps(rp, indent=1))
        return 0
    with tlc.Scratch() as sc:
        mod = "---- MODULE MC_matrix ----\nEXTENDS AliasMatrix\nMcTable == %s\nMcLayouts == {%s}\n====\n" % (
            tla_table(), ", ".join('"%s"' % l for l in LAYOUTS))
        sc.write("MC_matrix.tla", mod)
        cfg = "CONSTANTS\n EntryTable <- McTable\n Layouts <- McLayouts\nINIT Init\nNEXT Next\nINVARIANT NoForeignWrite\n"
        jobs = [("matrix", sc, "MC_matrix", cfg, dict(workers=4, timeout=1800, dump=("states", sc.path("matrix.dump"))))]
        kinds = list(TRANSFORMS) if thorough else ["function", "zinnharvey"]
        names = ["field", "f2"]
        defs = ('McNames == {%s}\nMcKinds == {%s}\nMcNormalKinds == {%s}\n'
                % (", ".join('"%s"' % n for n in names), ", ".join('"%s"' % k for k in kinds),
                   ", ".join('"%s"' % k for k in NORMAL_KINDS)))

        def heap_cfg(maxbuf, normal, inpl, check):
            return ("CONSTANTS\n Names <- McNames\n TKinds <- McKinds\n NormalKinds <- McNormalKinds\n MaxBuf = %d\n HasPipeline = TRUE\n"
                    " NormalField = %s\n InPlacePipeline = %s\nINIT Init\nNEXT Next\n%s"
                    % (maxbuf, "TRUE" if normal else "FALSE", "TRUE" if inpl else "FALSE",
                       "INVARIANT EarlierResultsStable\nPROPERTY NoForeignWrite\n" if check else ""))
        for nm, inpl in (("MC_heap", False), ("NEG_heap", True)):
            sc.write(nm + ".tla", "---- MODULE %s ----\nEXTENDS Alias\n%s====\n" % (nm, defs))
            jobs.append((nm, sc, nm, heap_cfg(5, False, inpl, True), dict(workers=4, timeout=1800)))
        for nm, normal in (("G_heap_n", True), ("G_heap_f", False)):
            sc.write(nm + ".tla", "---- MODULE %s ----\nEXTENDS Alias\n%s====\n" % (nm, defs))
            jobs.append((nm, sc, nm, heap_cfg(4, normal, False, False), dict(workers=4, timeout=1800, dump=("dot", sc.path(nm + ".dot")))))
        res = tlc.run_many(jobs, parallel=4)
        for nm, r in res.items():
            tlc.must_pass(r, nm)
        if res["NEG_heap"].error is None:
            raise tlc.MachineryError("vacuity: Alias.tla does not detect in-place pipeline arithmetic")
        rep.extra["non_vacuity"] = "with InPlacePipeline = TRUE (the code before the repair) TLC reports %s %s" % res["NEG_heap"].error
        for nm in ("matrix", "MC_heap", "G_heap_n", "G_heap_f"):
            rep.add_tlc("Alias." + nm, res[nm])
            if res[nm].error:
                rep.violation("design:%s:%s" % (nm, res[nm].error[1]), "the ideal alias model violates %s" % res[nm].error[1],
                              {"trace": tlc.error_trace(res[nm])})
        cells = []
        seen = set()
        for st in tlc.read_state_dump(sc.path("matrix.dump")):
            c = st["pick"]
            cell = {"entry": str(c["entry"]), "role": str(c["role"]), "layout": str(c["layout"]), "opts": sorted(str(x) for x in c["opts"])}
            k = tlaval.freeze(cell)
            if k in seen:
                continue
            seen.add(k)
            if role_applicable(cell["entry"], cell["role"], cell["layout"], set(cell["opts"])):
                cells.append(cell)
        behs = {}
        for nm in ("G_heap_n", "G_heap_f"):
            nodes, edges, inits = tlc.read_dot(sc.path(nm + ".dot"))
            ps, _ = paths.edge_cover(nodes, edges, inits, rng=rng, merge=True)
            behs[nm] = [[nodes[i] for i in p] for p in ps]
    rng.shuffle(cells)
    import multiprocessing as mp

    ncell = 0
    with mp.get_context("fork").Pool(14) as pool:
        chunks = [cells[i::28] for i in range(28)]
        for outs in pool.imap_unordered(_work_cells, chunks):
            for cell, bad in outs:
                ncell += 1
                rep.count(1, nontrivial_key=tlaval.freeze(cell))
                if ncell % 997 == 1:
                    rep.sample({"cell": cell, "result": "caller arrays unchanged" if bad is None else bad}, cap=5)
                if bad is None:
                    continue
                role, how = bad
                if role == "-":
                    rep.drift_msg("matrix cell %s could not be executed: %s" % (cell, how))
                    continue
                opts = "+".join(o for o in cell["opts"] if o in ENTRIES[cell["entry"]]["inplace"]) or "-"
                rep.violation("caller:%s:%s:%s" % (cell["entry"], role, opts),
                              "%s: caller array in role '%s' changed (cell under test: role '%s' in %s layout, options %s): %s"
                              % (cell["entry"], role, cell["role"], cell["layout"], cell["opts"], how),
                              {"cell": cell})
        # no pipeline / constant mean only: a plain normal field (every transformation is available);
        # mean + trend + normalizer: transformations that need a normal field must process it themselves
        hjobs = [(pl, behs[g][i::7]) for pl, g in ((False, "G_heap_n"), ("mean", "G_heap_n"), (True, "G_heap_f")) for i in range(7)]
        for outs in pool.imap_unordered(_work_heap, hjobs):
            for beh, bad in outs:
                rep.traces += 1
                rep.count(1, nontrivial_key=tlaval.freeze([s["op"] for s in beh]))
                if bad:
                    rep.violation("heap:" + bad[0], bad[1], {"ops": [s["op"] for s in beh[1:]]})
        if behs["G_heap_n"]:
            rep.sample({"heap_behaviour": [tlaval.to_tla(s["op"]) for s in behs["G_heap_n"][0][1:]]}, cap=6)
    rep.extra["matrix_cells_executed"] = ncell
    # part C: the storage machine of Field objects (FieldStore.tla, StoreConfig.tla)
    from .. import fieldstore
    fieldstore.run_part(rep, tier, rng)
    return rep.finish(
        level="model_checking",
        rule="evaluations = matrix cells (entry x role x layout x option subset, enumerated by TLC from AliasMatrix) executed with sentinel arrays + heap behaviours "
             "(edge cover of the Alias state graph) replayed on SRF objects with and without mean/trend/normalizer; distinct = distinct cells / operation sequences",
        exhaustive=True)
