"""C04 (partial): Spectral.tla bound to the spectral functions of every shipped covariance model.

TLC enumerates (class, dimension, length unit 2^e, wave number index) and computes the powers of two by
which each spectral function must differ from its unit-1 value at the same dimensionless wave number,
and the algebraic identities between the functions.  Every case is evaluated on real model objects.
Relations between outputs of the implementation are compared (exact powers of two).  The Fourier-pair clause itself is
decided pointwise in unit 1 by adaptive quadrature of the implementation's own correlation (`forward`), only where the
quadrature certifies its error and with a tolerance above the accuracy of the library's numerical transform; the
normalisation of the pdf of classes without a cdf and classes with an oscillating correlation (JBessel) are NOT covered.
"""
import os
import random
import warnings

import numpy as np

from .. import tlaval, tlc
from ..report import Report

PROPERTIES = ("C04",)

CLASSES = ["Gaussian", "Exponential", "Matern", "Stable", "Rational", "Cubic", "Linear", "Circular", "Spherical",
           "HyperSpherical", "SuperSpherical", "JBessel", "Integral", "TPLSimple", "TPLGaussian", "TPLExponential", "TPLStable"]
KAPPA = [0.0, 0.125, 0.5, 1.0, 2.0, 4.0]
VAR = 2.0
LEN = 2.0


def surface(d, k):
    return {1: 2.0 + 0.0 * k, 2: 2.0 * np.pi * k, 3: 4.0 * np.pi * k ** 2}[d]


OPT = {"JBessel": dict(nu=0.5), "SuperSpherical": dict(nu=1.0), "TPLSimple": dict(nu=2.0)}   # admissible in dim 1-3
# second value of every shape parameter (variant "shape"): the property quantifies over shape parameters
SHAPE = {"Matern": dict(nu=2.5), "Stable": dict(alpha=0.75), "Rational": dict(alpha=3.0), "Integral": dict(nu=2.5), "HyperSpherical": dict(nu=2.5),
         "SuperSpherical": dict(nu=2.5), "JBessel": dict(nu=1.5), "TPLSimple": dict(nu=3.0), "TPLGaussian": dict(hurst=0.25),
         "TPLExponential": dict(hurst=0.25), "TPLStable": dict(hurst=0.25, alpha=1.0)}
ROUTES = ["direct", "dim-assigned", "len-assigned", "rescale-assigned"]
TPL = ("TPLGaussian", "TPLExponential", "TPLStable")


def build(gs, cls, d, e, variant, route="direct", **over):
    """The model of a case.  Routes other than "direct" build another model first and assign the final values."""
    kw = dict(dim=d, var=VAR, len_scale=LEN * 2.0 ** e)
    kw.update(OPT.get(cls, {}))
    if variant == "rescaled":
        kw["rescale"] = 4.0
    if variant == "shape":
        kw.update(SHAPE.get(cls, {}))
    if variant == "lower-truncation" and cls in TPL:
        kw["len_low"] = 0.5 * 2.0 ** e
    kw.update(over)
    c = getattr(gs, cls)
    if route == "dim-assigned":
        m = c(**dict(kw, dim=d - 1 if d > 1 else 2))
        m.dim = d
        return m
    if route == "len-assigned":
        m = c(**dict(kw, len_scale=3.0 * kw["len_scale"]))
        m.len_scale = kw["len_scale"]
        m.var = VAR          # (the variance of a truncated power law follows its intensity: documented coupling)
        return m
    if route == "rescale-assigned":
        m = c(**{k: v for k, v in kw.items() if k != "rescale"})
        m.rescale = kw.get("rescale", m.rescale)
        m.var = VAR
        return m
    return c(**kw)


def capabilities(gs):
    cdf, ppf = {}, {}
    for c in CLASSES:
        cdf[c], ppf[c] = set(), set()
        for d in (1, 2, 3):
            try:
                m = build(gs, c, d, 0, "plain")
            except Exception:  # noqa: BLE001
                continue
            if m._has_cdf():
                cdf[c].add(d)
            if m._has_ppf():
                ppf[c].add(d)
    return cdf, ppf


def mc_text(name, cdf, ppf, exps):
    def fun(tab):
        return "[c \\in McClasses |-> CASE " + " [] ".join('c = "%s" -> {%s}' % (c, ", ".join(str(x) for x in sorted(tab[c]))) for c in CLASSES) + "]"
    mod = ("---- MODULE %s ----\nEXTENDS Spectral\nMcRoutes == {%s}\nMcTPL == {%s}\nMcClasses == {%s}\nMcExps == {%s}\nMcHasCdf == %s\nMcHasPpf == %s\n====\n"
           % (name, ", ".join('"%s"' % r for r in ROUTES), ", ".join('"%s"' % t for t in TPL), ", ".join('"%s"' % c for c in CLASSES),
              ", ".join("0 - %d" % -x if x < 0 else str(x) for x in exps), fun(cdf), fun(ppf)))
    cfg = ("CONSTANTS\n Classes <- McClasses\n Dims = {1, 2, 3}\n UnitExps <- McExps\n KIdx = {%s}\n HasCdf <- McHasCdf\n HasPpf <- McHasPpf\n"
           " Routes <- McRoutes\n TPLFamily <- McTPL\n"
           "INIT Init\nNEXT Next\nINVARIANT PdfIsDensity\nINVARIANT DensityIsDensity\nINVARIANT SurfaceRoute\nINVARIANT PpfInvertsCdf\n"
           % ", ".join(str(i) for i in range(len(KAPPA))))
    return mod, cfg


def close(a, b, scale, tol=1e-12):
    a, b = float(a), float(b)
    if np.isnan(a) or np.isnan(b):
        return np.isnan(a) and np.isnan(b)
    if np.isinf(a) or np.isinf(b):
        return a == b
    return abs(a - b) <= tol * max(scale, 1e-300)


OSCILLATING = ("JBessel",)      # correlation oscillates with a slowly decaying envelope: no quadrature certifies its transform
FOURIER_TOL = {"closed-form": 1e-2, "numeric-transform": 0.3}     # of the peak density over the wave number lattice


def forward(m, d, k):
    """(value, error estimate) of (2 pi)^-d int cor(|r|) exp(-i k.r) d^d r by adaptive quadrature of the implementation's own
    correlation (radial kernels: cos(kr); r J0(kr); r sin(kr)/k), or None where no certified quadrature applies."""
    from scipy.integrate import quad
    from scipy.special import j0

    def cor(r):
        return float(m.correlation(np.array([r]))[0])

    ls, lr = float(m.len_scale), float(m.len_rescaled)
    rmax = None
    for t in (1.0, 2.0, 4.0):                                   # compact support
        if cor(t * ls * 1.0000001) == 0.0 and cor(8.0 * ls) == 0.0 and cor(64.0 * ls) == 0.0:
            rmax = t * ls * 1.0000001
            break
    if rmax is None:
        for t in (8, 16, 32, 64):                               # negligible beyond
            if abs(cor(t * lr)) < 1e-15 and abs(cor(2 * t * lr)) < 1e-15:
                rmax = t * lr
                break
    if d == 1:
        if rmax is not None:
            v, e = quad(lambda r: cor(r) * np.cos(k * r), 0, rmax, limit=400)
        elif k > 0:
            v, e = quad(cor, 0, np.inf, weight="cos", wvar=k, limit=400)
        else:
            v, e = quad(cor, 0, np.inf, limit=400)
        return v / np.pi, e / np.pi
    if d == 2:
        if rmax is None:
            return None
        v, e = quad(lambda r: cor(r) * r * j0(k * r), 0, rmax, limit=400)
        return v / (2 * np.pi), e / (2 * np.pi)
    if k == 0:
        v, e = quad(lambda r: cor(r) * r * r, 0, np.inf if rmax is None else rmax, limit=400)
        return v / (2 * np.pi ** 2), e / (2 * np.pi ** 2)
    if rmax is not None:
        v, e = quad(lambda r: cor(r) * r * np.sin(k * r), 0, rmax, limit=400)
    else:
        v, e = quad(lambda r: cor(r) * r, 0, np.inf, weight="sin", wvar=k, limit=400)
    return v / (2 * np.pi ** 2 * k), e / (2 * np.pi ** 2 * k)


_BASE = {}


def base_values(gs, cls, d, variant):
    key = (cls, d, variant)
    if key not in _BASE:
        m = build(gs, cls, d, 0, variant)
        k0 = np.array(KAPPA) / m.len_rescaled
        v = {"k": k0, "density": np.asarray(m.spectral_density(k0), dtype=float), "pdf": np.asarray(m.spectral_rad_pdf(k0), dtype=float)}
        if m._has_cdf():
            v["cdf"] = np.asarray(m.spectral_rad_cdf(k0), dtype=float)
        _BASE[key] = v
    return _BASE[key]


def run_case(gs, c, exp, variant):
    """Returns list of (key, message)."""
    cls, d, e, j = str(c["cls"]), int(c["d"]), int(c["e"]), int(c["j"])
    route = str(c.get("route", "direct"))
    out = []
    if route == "rescale-assigned" and variant != "rescaled":
        return None
    if variant == "shape" and cls not in SHAPE:
        return None
    try:
        m = build(gs, cls, d, e, variant, route)
    except Exception:  # noqa: BLE001 - class not available in this dimension
        return None
    if route != "direct":
        # the route is not observable: every spectral function equals that of the directly built model
        ref = build(gs, cls, d, e, variant)
        ka = np.array([base_values(gs, cls, d, variant)["k"][j] / 2.0 ** e])
        where = "%s(dim=%d, len_scale=%g*2^%d, %s) built via %s at k = %g / len" % (cls, d, LEN, e, variant, route, KAPPA[j])
        for fn in ("spectral_density", "spectrum", "spectral_rad_pdf") + (("spectral_rad_cdf",) if m._has_cdf() else ()):
            a, b_ = float(getattr(m, fn)(ka)[0]), float(getattr(ref, fn)(ka)[0])
            if not close(a, b_, abs(b_), 1e-13):
                out.append(("route:%s:%s" % (route, fn), "%s: %s = %r, the directly constructed model gives %r" % (where, fn, a, b_)))
                break
        return out
    numeric = type(m).spectral_density is gs.CovModel.spectral_density
    tag = "numeric-transform" if numeric else "closed-form"
    b = base_values(gs, cls, d, variant)
    u = 2.0 ** e
    k = b["k"][j] / u
    ka = np.array([k])
    dens = float(m.spectral_density(ka)[0])
    pdf = float(m.spectral_rad_pdf(ka)[0])
    where = "%s(dim=%d, var=%g, len_scale=%g*2^%d%s) at k = %g / len" % (cls, d, VAR, LEN, e, "" if variant == "plain" else ", " + variant, KAPPA[j])
    dscale, pscale = float(np.max(np.abs(b["density"]))), float(np.max(np.abs(b["pdf"])))
    # unit scaling (powers computed by TLC)
    if not close(dens / 2.0 ** int(exp["densityPow"]), b["density"][j], dscale):
        out.append(("unit-scaling:%s:%s" % (tag, cls), "%s: spectral_density = %r, 2^%d x the unit-1 value %r expected" % (where, dens, exp["densityPow"], float(b["density"][j]))))
    if not close(pdf / 2.0 ** int(exp["radPdfPow"]), b["pdf"][j], pscale):
        out.append(("unit-scaling:%s:%s" % (tag, cls), "%s: spectral_rad_pdf = %r, 2^%d x the unit-1 value %r expected" % (where, pdf, exp["radPdfPow"], float(b["pdf"][j]))))
    if out and numeric:
        return out[:1]      # one root cause: the numerical transform does not follow the unit; the identities below inherit it
    # spectrum = var x density
    spec = float(m.spectrum(ka)[0])
    if not close(spec, VAR * dens, abs(VAR * dens), 1e-14):
        out.append(("spectrum:%s" % cls, "%s: spectrum %r is not var x spectral_density %r" % (where, spec, VAR * dens)))
    # radial pdf = surface factor x density
    want = {"zero": 0.0, "twice-density": 2.0 * dens}.get(str(exp["pdfAtOrigin"]), float(surface(d, ka)[0]) * dens)
    if not close(pdf, want, pscale * 2.0 ** int(exp["radPdfPow"])):
        out.append(("rad-pdf:surface-factor:%s" % cls, "%s: spectral_rad_pdf = %r, surface factor x density = %r" % (where, pdf, want)))
    # the Fourier pair itself (unit 1, directly built): density(k) = (2 pi)^-d int cor(r) exp(-ikr) d^d r
    if exp.get("fourierAt") and cls not in OSCILLATING:
        assert int(exp["twoPiPow"]) == -d and str(exp["kernel"]) == {1: "cos", 2: "bessel-j0", 3: "sinc"}[d]
        try:
            with warnings.catch_warnings():
                warnings.simplefilter("ignore")
                fw = forward(m, d, k)
        except Exception:  # noqa: BLE001 - quadrature failure: no verdict
            fw = None
        if fw is not None and np.isfinite(fw[0]) and fw[1] <= 1e-6 * dscale:
            if not abs(fw[0] - dens) <= FOURIER_TOL[tag] * dscale:
                out.append(("fourier-pair:%s:%s:dim=%d" % (tag, cls, d), "%s: spectral_density = %r, the Fourier transform of the model's own correlation "
                            "(adaptive quadrature, certified error %.1e) is %r" % (where, dens, fw[1], fw[0])))
    if exp.get("tplParts") and variant == "lower-truncation" and not numeric:
        hurst = float(m.hurst)
        low, up = float(m.len_low), float(m.len_low + m.len_scale)
        d_up = float(build(gs, cls, d, e, "plain", len_scale=up, len_low=0.0).spectral_density(ka)[0])
        d_lo = float(build(gs, cls, d, e, "plain", len_scale=low, len_low=0.0).spectral_density(ka)[0])
        parts = (up ** (2 * hurst) * d_up - low ** (2 * hurst) * d_lo) / (up ** (2 * hurst) - low ** (2 * hurst))
        if not close(dens, parts, abs(parts), 1e-9):
            out.append(("tpl-parts:%s" % cls, "%s: spectral_density = %r, the weighted difference of the densities of [0, up] and [0, low] is %r" % (where, dens, parts)))
    if exp["checkCdf"]:
        cdf = float(m.spectral_rad_cdf(ka)[0])
        if not close(cdf, b["cdf"][j], 1.0):
            out.append(("unit-scaling:cdf:%s" % cls, "%s: spectral_rad_cdf = %r, the unit-1 value is %r" % (where, cdf, float(b["cdf"][j]))))
        if (str(exp["cdfAtOrigin"]) == "zero") != (cdf == 0.0) or not 0.0 <= cdf < 1.0:
            out.append(("rad-cdf:range:%s" % cls, "%s: spectral_rad_cdf = %r" % (where, cdf)))
        if str(exp.get("cdfSlope")) == "rad-pdf":
            h = 1e-5 * k
            slope = float((m.spectral_rad_cdf(np.array([k + h]))[0] - m.spectral_rad_cdf(np.array([k - h]))[0]) / (2 * h))
            if not close(slope, pdf, abs(pdf), 1e-6):
                out.append(("rad-cdf:slope:%s:dim=%d" % (cls, d), "%s: d spectral_rad_cdf / dk = %r (central difference), spectral_rad_pdf = %r" % (where, slope, pdf)))
        far = float(m.spectral_rad_cdf(np.array([1e8 / m.len_rescaled]))[0])
        if not 1.0 - 1e-6 <= far <= 1.0:
            out.append(("rad-cdf:normalised:%s:dim=%d" % (cls, d), "%s: spectral_rad_cdf(1e8 / len) = %r, 1 expected" % (where, far)))
        if exp["checkPpf"]:
            back = float(m.spectral_rad_ppf(np.array([cdf]))[0])
            if not close(back, k, max(abs(k), 1e-9 / (LEN * u)), 1e-7):
                out.append(("ppf-inverts-cdf:%s:dim=%d" % (cls, d), "%s: spectral_rad_ppf(spectral_rad_cdf(k)) = %r, k = %r" % (where, back, k)))
    return out


def _work(job):
    variant, cases = job
    warnings.simplefilter("ignore")
    import gstools as gs

    res, n = [], 0
    for c, exp in cases:
        r = run_case(gs, c, exp, variant)
        if r is None:
            continue
        n += 1
        res += [(k, m, {"case": c, "variant": variant}) for k, m in r]
    seen, uniq = set(), []
    for k, m, rp in res:
        if k not in seen:
            seen.add(k)
            uniq.append((k, m, rp))
    return n, uniq


def run(pid, tier, seed, replay=None):
    rep = Report(pid, tier, seed)
    rng = random.Random(seed)
    thorough = tier == "thorough"
    rep.assumptions += [
        "PARTIAL: only relations between outputs of the implementation are decided (dimensional analysis under a change of the length unit by exact powers of two, "
        "spectrum = var x density, radial pdf = surface factor x density incl. the origin, cdf range / slope = pdf / limit 1, ppf inverts cdf); the Fourier-pair clause is decided pointwise "
        "in unit 1 against a certified quadrature of the implementation's own correlation with tolerance %s of the peak density (JBessel excluded: oscillating correlation); that the pdf integrates to one "
        "is decided only through cdf -> 1 where a cdf is offered" % FOURIER_TOL,
        "unit-1 reference: the same function of the same class at len_scale 2, var 2; wave numbers kappa/len with kappa in %s" % KAPPA,
    ]
    if replay:
        import json
        import gstools as gs
        rp = json.load(open(replay))["replay"]
        c = rp["case"]
        print(rp, "->", run_case(gs, c, {"densityPow": c["e"] * c["d"], "radPdfPow": c["e"], "pdfAtOrigin": "zero" if (c["j"] == 0 and c["d"] > 1) else (
            "twice-density" if c["j"] == 0 else "surface-x-density"), "cdfAtOrigin": "zero" if c["j"] == 0 else "in", "cdfSlope": "rad-pdf" if c["j"] else "no", "tplParts": c["cls"] in TPL, "fourierAt": c["e"] == 0 and c.get("route", "direct") == "direct", "twoPiPow": -c["d"], "kernel": {1: "cos", 2: "bessel-j0", 3: "sinc"}[c["d"]], "checkCdf": True, "checkPpf": True}, rp["variant"]))
        return 0
    import gstools as gs

    with warnings.catch_warnings():
        warnings.simplefilter("ignore")
        cdf, ppf = capabilities(gs)
    exps = [-40, -30, -10, 0, 10, 30, 40] if thorough else [-30, 0, 30]
    with tlc.Scratch() as sc:
        mod, cfg = mc_text("MC_spectral", cdf, ppf, exps)
        sc.write("MC_spectral.tla", mod)
        r = tlc.run(sc, "MC_spectral", cfg, workers=4, timeout=1800, dump=("states", sc.path("sp.dump")))
        tlc.must_pass(r, "MC_spectral")
        rep.add_tlc("Spectral.MC", r)
        if r.error:
            rep.violation("design:Spectral:%s" % r.error[1], "the dimensional analysis violates %s" % r.error[1], {"trace": tlc.error_trace(r)})
        cases = []
        for st in tlc.read_state_dump(sc.path("sp.dump")):
            c = {k: (str(v) if k in ("cls", "route") else int(v)) for k, v in st["case"].items()}
            cases.append((c, {k: (v if isinstance(v, bool) else (str(v) if isinstance(v, (str, tlaval.Sym)) else (v if isinstance(v, dict) else int(v))))
                              for k, v in st["expect"].items()}))
    if not thorough:    # quick: the assignment routes on two wave numbers and two units only
        cases = [(c, e) for c, e in cases if c["route"] == "direct" or (c["j"] in (1, 4) and c["e"] >= 0)]
    rng.shuffle(cases)
    variants = ["plain", "rescaled", "lower-truncation", "shape"]
    import multiprocessing as mp

    work = [(v, cases[i::6]) for v in variants for i in range(6)]
    with mp.get_context("fork").Pool(12) as pool:
        for n, viol in pool.imap_unordered(_work, work):
            rep.traces += n
            rep.count(n)
            for key, msg, rp in viol:
                rep.nontrivial.add(key)
                rep.violation(key, msg, rp)
    rep.nontrivial |= {tlaval.freeze(c) for c, _e in cases}
    rep.sample({"case": cases[0][0], "expected_powers_of_two": cases[0][1]}, cap=3)
    return rep.finish(
        level="model_checking",
        rule="evaluations = (class, dim, unit, wave number, variant) cases enumerated by TLC from Spectral.tla and evaluated on real model objects; "
             "the powers of two and the identities come from the spec, the unit-1 values from the implementation itself",
        exhaustive=True)
