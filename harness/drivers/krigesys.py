"""C05 / C06: KrigeSys.tla bound to gstools.krige.

1. TLC enumerates kriging configurations on an integer / polynomial family (Linear,
   Spherical, Cubic covariances at integer lags; 1-D, 2-D on 3-4-5 layouts, space+time
   with dyadic anisotropy) and computes, with exact integer arithmetic (Cramer's rule,
   Laplace expansion), the estimate, the kriging variance, the kriged mean and get_mean()
   of every variant as rationals; cheap theorems (exactness at the data, variance bounds)
   are invariants of every enumerated configuration, the heavier ones (permutation, chunk,
   linearity, unbiasedness, duplicates) of the theorem jobs.
2. Every dumped configuration is built as the real object (Simple / Ordinary / Universal /
   ExtDrift / Detrended / Krige) and called (unstructured, structured, chunk sizes,
   permuted targets and conditioning points, all inversion routines, return_var / only_mean
   / get_mean, LogNormal wrapper); estimate and variance are compared with TLC's rationals
   at 1e-9: the property-level oracle.  The assembled matrix / right-hand sides / chunk
   slices captured by wrappers are compared entry-wise: drift-level.
2b. Histories on one object (KrigeSysHist.tla): attribute re-assignments, in-place model changes and the
   set_condition() refresh, every call compared with TLC's exact table.  Where the fitted quantity is a real
   number (fit_normalizer, fit_variogram) or the system is too large for TLC (40-80 points with coincident
   copies) the property is decided as a relation between implementation outputs: exactness at the data, equality
   with the object built from a copy of the fitted normalizer / model, duplicated set == merged set; tolerance
   from the conditioning, ill-conditioned or non-converging cases are counted as inconclusive.
3. Auxiliary (never deciding): other model classes, anisotropy/rotation, lat-lon solved
   with numpy on well conditioned systems; reported as ``aux_numeric``.
"""
PROPERTIES = ("C05", "C06")

import hashlib
import json
import math
import os
import random
import re
import time
from fractions import Fraction

import numpy as np

from .. import tlc, tlaval
from ..report import Report

TOL = 1e-9
TOL_NORM = 1e-8

# ---------------------------------------------------------------------------
# plan: families, variants, value domains


def V(cls, unb, drift, ext, mean=(0, 0), trend=(0, 0)):
    return dict(cls=cls, unb=unb, drift=drift, ext=ext, mean=list(mean), trend=list(trend))


VARIANTS_1D = [
    V("Simple", False, 0, "none", mean=(0, 0)),
    V("Simple", False, 0, "none", mean=(2, 0)),
    V("Simple", False, 0, "none", mean=(1, 1), trend=(1, -1)),
    V("Ordinary", True, 0, "none"),
    V("Ordinary", True, 0, "none", trend=(1, 1)),
    V("Universal", True, 1, "none"),
    V("ExtDrift", True, 0, "bowl"),
    V("ExtDrift", True, 0, "alt"),
    V("Detrended", False, 0, "none", trend=(1, 1)),
    V("Detrended", False, 0, "none", trend=(0, -2)),
    V("Krige", True, 0, "none", mean=(2, 0)),
    V("Krige", False, 1, "none"),
    V("Krige", False, 0, "bowl", mean=(1, 0)),
    V("Krige", True, 1, "bowl"),
    V("Krige", True, 0, "none", trend=(2, 0)),
    V("Krige", False, 0, "none", mean=(-1, 2), trend=(0, 1)),
]
VARIANTS_2D = [
    V("Simple", False, 0, "none", mean=(2, 0)),
    V("Ordinary", True, 0, "none"),
    V("Ordinary", True, 0, "none", trend=(1, 1)),
    V("Universal", True, 1, "none"),
    V("ExtDrift", True, 0, "bowl"),
    V("Detrended", False, 0, "none", trend=(1, -1)),
    V("Krige", False, 1, "none"),
    V("Krige", True, 0, "none", mean=(1, 0)),
]

POS_1D = [
    [[0], [1]], [[2], [0]], [[0], [1], [3]], [[3], [0], [2]], [[1], [2], [4]], [[0], [2], [4]], [[-1], [1], [2]],
    [[4], [1]],
]
POS_1D_DUP = [[[0], [0], [2]], [[1], [3], [1]], [[2], [2]], [[3], [0], [0]]]
POS_1D_4 = [[[0], [1], [2], [4]], [[3], [-1], [1], [0]], [[0], [2], [0], [2]]]
TGT_1D = [[0], [1], [2], [3], [4], [-1], [7]]
TGT_1D_THM = [[1], [2], [6]]

POS_2D = [
    [[0, 0], [3, 4]], [[3, 0], [0, 0]], [[0, 0], [3, 0], [0, 4]], [[3, 4], [0, 0], [3, 0]], [[0, 4], [3, 4], [3, 0]],
]
POS_2D_DUP = [[[0, 0], [0, 0], [3, 4]], [[3, 0], [0, 4], [3, 0]]]
TGT_2D = [[0, 0], [0, 4], [3, 0], [3, 4], [-4, -3], [6, 4]]
TGT_2D_THM = [[0, 0], [3, 4], [6, 4]]
# space + time: second coordinate is time, stretch 4 = 1 / anis
POS_ST = [[[p[0], p[1] // 4] for p in ps] for ps in POS_2D]
POS_ST_DUP = [[[p[0], p[1] // 4] for p in ps] for ps in POS_2D_DUP]
TGT_ST = [[0, 0], [0, 1], [3, 0], [3, 1], [-4, -1], [6, 1]]
TGT_ST_THM = [[0, 0], [3, 1], [6, 1]]

ERRS = [("nugget", 0, []), ("scalar", 0, []), ("scalar", 1, []), ("list", 0, [0, 1, 1, 0]), ("list", 0, [1, 0, 1, 1])]

# name, model, dim, stretch, lens, vars, maxfree
FAMILIES = [
    ("lin", "Linear", 1, 1, [2, 4], [1, 2], 4),
    ("sph2", "Spherical", 1, 1, [2], [1, 2], 3),
    ("sph4", "Spherical", 1, 1, [4], [1], 2),
    ("cub2", "Cubic", 1, 1, [2], [1], 2),
    ("sph2d", "Spherical", 2, 1, [5], [1], 2),
    ("sphst", "Spherical", 2, 4, [5], [1], 2),
]
SMALL_DD = ("lin", "lin3", "sph2")
MAXFREE3 = {"cub2": 1}
FAMILIES_THOROUGH = [
    ("lin3", "Linear", 1, 1, [3], [1, 2], 4),
    ("sph2d4", "Spherical", 2, 1, [4], [1], 2),
]


def _tla(v):
    return tlaval.to_tla(v)


def _set(items):
    return "{" + ", ".join(items) + "}"


def mc_module(name, fam, variants, possets, valseqs, errs, exacts, targets, with_rejected, nugs=(0, 1), units=(0, (0, 0))):
    _n, model, dim, stretch, lens, vars_, maxfree = fam
    lens_used = sorted({len(p) for p in possets})
    vs = "[n \\in %s |-> %s]" % (
        _set(str(n) for n in lens_used),
        " ".join("IF n = %d THEN %s ELSE" % (n, _set(_tla(list(z)) for z in valseqs[n])) for n in lens_used) + " {}")
    defs = {
        "Models": _set(['"%s"' % model]),
        "Dim": str(dim), "Stretch": str(stretch),
        "Lens": _set(map(str, lens)), "Vars": _set(map(str, vars_)), "Nugs": _set(map(str, nugs)),
        "Variants": _set(_tla(dict(cls=v["cls"], unb=v["unb"], drift=v["drift"], ext=v["ext"],
                                   mean=v["mean"], trend=v["trend"])) for v in variants),
        "PosSets": _set(_tla(p) for p in possets),
        "ValSeqs": vs,
        "ErrSpecs": _set("[mode |-> \"%s\", e |-> %d, pat |-> %s]" % (m, e, _tla(p)) for m, e, p in errs),
        "Exacts": _set("TRUE" if e else "FALSE" for e in exacts),
        "Targets": _tla(targets),
        "LUnit": str(units[0]), "VUnit": _tla(list(units[1])),
        "MaxFree": str(maxfree),
        "WithRejected": "TRUE" if with_rejected else "FALSE",
    }
    mod = "---- MODULE %s ----\nEXTENDS KrigeSys\n" % name
    mod += "".join("Mc%s == %s\n" % kv for kv in defs.items()) + "====\n"
    cfg = "CONSTANTS\n" + "".join(" %s <- Mc%s\n" % (k, k) for k in defs) + "INIT Init\nNEXT Next\n"
    return mod, cfg


CHEAP_INVS = ["TypeOK", "ExactAtData", "ZeroVarianceAtData", "VarianceNonNegative", "VarianceLeSillSimple"]
THM_INVS = CHEAP_INVS + ["PermutationInvariantCond", "PermutationInvariantTgt", "ChunkIndependent", "LinearInData",
                         "ReproducesConstants", "ReproducesDrift", "MeanIrrelevantWhenUnbiased", "TrendActsAsMean",
                         "DuplicatesMerge", "LengthUnitInvariant", "ValueUnitScaling"]

CHUNK_MOD = """---- MODULE MC_KrigeChunks ----
EXTENDS KrigeSysChunks, TLC
VARIABLES n, cs, slices
Init == n \\in 0..40 /\\ cs \\in 1..45 /\\ slices = Chunks(n, cs)
Next == UNCHANGED <<n, cs, slices>>
ChunksPartition == ChunksPartitionAt(n, cs)
====
"""
CHUNK_CFG = "INIT Init\nNEXT Next\nINVARIANT ChunksPartition\n"


def _invs(cfg, invs):
    return cfg + "".join("INVARIANT %s\n" % i for i in invs)


def _split(seq, k):
    k = max(1, min(k, len(seq)))
    return [seq[i::k] for i in range(k)]


def _valseqs(rng, lens, per_len):
    out = {}
    for n in lens:
        allv = [z for z in __import__("itertools").product(range(-2, 3), repeat=n) if len(set(z)) > 1]
        out[n] = sorted(rng.sample(allv, min(per_len, len(allv))))
    return out


def plan(pid, tier, rng):
    """-> list of TLC jobs: dict(tag, kind ('gen'|'thm'), module text, cfg text, family)."""
    thorough = tier == "thorough"
    jobs = []
    fams = FAMILIES + (FAMILIES_THOROUGH if thorough else [])
    only = os.environ.get("VERIF_ONLY")
    for fam in fams:
        name, _model, dim, stretch, _lens, _vars, _mf = fam
        if only and name not in only.split(","):
            continue
        if not thorough and len(fam[4]) > 1:
            fam = fam[:4] + (fam[4][-1:],) + fam[5:]      # quick: one length scale per family
        if dim == 1:
            variants, pos, dup, tg, tgthm = VARIANTS_1D, POS_1D, POS_1D_DUP, TGT_1D, TGT_1D_THM
        elif stretch == 1:
            variants, pos, dup, tg, tgthm = VARIANTS_2D, POS_2D, POS_2D_DUP, TGT_2D, TGT_2D_THM
        else:
            variants, pos, dup, tg, tgthm = VARIANTS_2D, POS_ST, POS_ST_DUP, TGT_ST, TGT_ST_THM
        if pid == "C06":
            # exactness / bounds / duplicates: zero-error and exact configurations, all duplicate layouts
            errs, exacts = ERRS[:2] + ERRS[3:4], [False, True]
            possets = pos[: (8 if thorough else 5)] + dup
            per_len = 6 if thorough else 2
        else:
            errs, exacts = (ERRS if thorough else ERRS[:4]), [False, True]
            possets = pos + (dup if thorough else dup[:2])
            per_len = 8 if thorough else 2
        if name == "lin" and thorough:
            possets = possets + POS_1D_4
        lens_needed = sorted({len(p) for p in possets})
        valseqs = _valseqs(rng, lens_needed, per_len)
        nsplit = {"lin": 6, "sph2": 3}.get(name, 2) * (2 if thorough else 1)
        if name in SMALL_DD:
            groups = [(vg, possets, fam) for vg in _split(variants, nsplit)]
        else:
            # large denominators (32 bit integers): all variants on two-point layouts; three-point layouts
            # without external drift values and with a family specific bound on (#points - #constraints)
            noext = [v for v in variants if v["ext"] == "none"]
            fam3 = fam[:6] + (MAXFREE3.get(name, 2),)
            groups = [(variants, [p_ for p_ in possets if len(p_) == 2], fam)]
            groups += [(vg, [p_ for p_ in possets if len(p_) > 2], fam3) for vg in _split(noext, nsplit)]
        for gi, (vgroup, pss, gfam) in enumerate(groups):
            tag = "G_%s_%d" % (name, gi)
            mod, cfg = mc_module("MC_" + tag, gfam, vgroup, pss, valseqs, errs, exacts, tg, False,
                                 units=UNITS[len([j_ for j_ in jobs if j_["kind"] == "gen"]) % len(UNITS)])
            jobs.append(dict(tag=tag, kind="gen", mod=mod, cfg=_invs(cfg, CHEAP_INVS), fam=name))
        # theorem job: smaller domain, every theorem
        tposs = (pos[2:4] + pos[:1] + dup[:1]) if not thorough else (pos[:5] + dup[:2])
        tval = _valseqs(rng, sorted({len(p) for p in tposs}), 1 if not thorough else 3)
        tvars = variants if name in SMALL_DD else [v for v in variants if v["ext"] == "none"]
        tfam = fam if name in SMALL_DD else fam[:6] + (MAXFREE3.get(name, 2),)
        for gi, vgroup in enumerate(_split(tvars, (8 if name in SMALL_DD else 3) if dim == 1 else 2)):
            tag = "T_%s_%d" % (name, gi)
            mod, cfg = mc_module("MC_" + tag, tfam, vgroup, tposs, tval,
                                 (ERRS[:4] if thorough else ERRS[:2] + ERRS[3:4]) if dim == 1 else ERRS[:2],
                                 [False, True], tgthm, False)
            jobs.append(dict(tag=tag, kind="thm", mod=mod, cfg=_invs(cfg, THM_INVS), fam=name))
    # documented rejection: exact=True together with an explicit measurement error
    fam = FAMILIES[0]
    if not only or "lin" in only.split(","):
        mod, cfg = mc_module("MC_R_lin", fam, VARIANTS_1D[:1] + VARIANTS_1D[3:4] + VARIANTS_1D[5:7] + VARIANTS_1D[8:9]
                             + VARIANTS_1D[10:11], POS_1D[2:4], {3: [(1, -2, 2)]}, ERRS[1:4], [True], TGT_1D_THM, True)
        jobs.append(dict(tag="R_lin", kind="gen", mod=mod, cfg=_invs(cfg, CHEAP_INVS), fam="lin"))
    return jobs


# ---------------------------------------------------------------------------
# replay on the real code


def fr(q):
    return Fraction(q[0], q[1])


def lin(ab, p):
    return ab[0] + ab[1] * p[0]


class Capture:
    """Drift-level recording of what the implementation hands to its solver."""

    active = None

    def __init__(self):
        self.mats, self.vecs = [], []

    @classmethod
    def install(cls):
        from gstools.krige.base import Krige

        if getattr(Krige, "_verif_wrapped", False):
            return
        inv0, vec0 = Krige._inv, Krige._get_krige_vecs

        def _inv(self, mat):
            if Capture.active is not None:
                Capture.active.mats.append(np.array(mat, dtype=float))
            return inv0(self, mat)

        def _get_krige_vecs(self, pos, chunk_slice=(0, None), ext_drift=None, only_mean=False):
            res = vec0(self, pos, chunk_slice, ext_drift, only_mean)
            if Capture.active is not None:
                Capture.active.vecs.append((tuple(chunk_slice), bool(only_mean), np.array(res, dtype=float)))
            return res

        Krige._inv, Krige._get_krige_vecs, Krige._verif_wrapped = _inv, _get_krige_vecs, True

    def __enter__(self):
        Capture.active = self
        return self

    def __exit__(self, *a):
        Capture.active = None


# units of the job: (length exponent, (data exponent, covariance exponent)); cycled over the gen jobs
UNITS = [(0, (0, 0)), (-30, (0, 0)), (0, (-30, -15)), (-40, (0, 0)), (30, (0, 0)), (-30, (-30, -15)), (0, (20, 10)), (0, (0, 0))]


def units(cfg):
    """(length factor, data factor, covariance factor) of a configuration: exact powers of two."""
    ev, ec = cfg.get("vunit", [0, 0])
    return 2.0 ** cfg.get("lunit", 0), 2.0 ** ev, 2.0 ** ec


def unit_one(cfg):
    return cfg.get("lunit", 0) == 0 and list(cfg.get("vunit", [0, 0])) == [0, 0]


def make_model(cfg, flavour=0):
    import gstools as gs

    lu, _vu, cu = units(cfg)
    cls = getattr(gs, cfg["model"])
    kw = dict(var=float(cfg["var"]) * cu, len_scale=float(cfg["len"]) * lu, nugget=float(cfg["nug"]) * cu)
    if cfg["dim"] == 1:
        return cls(dim=1, **kw)
    anis = 1.0 / cfg["stretch"]
    q = cfg.get("quarter", 0)
    if cfg["stretch"] != 1 and flavour % 2 == 0 and q == 0 and not cfg.get("_no_temporal"):
        return cls(temporal=True, spatial_dim=1, anis=anis, **kw)
    return cls(dim=2, anis=anis, angles=q * math.pi / 2, **kw)


_AFFINE = []


def affine_normalizer(k, s):
    """A user-defined normalizer y = k * (x - s) (documented extension point: subclass of Normalizer)."""
    if not _AFFINE:
        from gstools.normalizer import Normalizer

        class Affine(Normalizer):
            default_parameter = {"scale": 1.0, "shift": 0.0}

            def _normalize(self, data):
                return self.scale * (data - self.shift)

            def _denormalize(self, data):
                return data / self.scale + self.shift

        _AFFINE.append(Affine)
    return _AFFINE[0](scale=float(k), shift=float(s))


def _coords(points, dim, lu=1.0):
    a = np.array(points, dtype=float).reshape(-1, dim) * lu
    return [a[:, d].copy() for d in range(dim)]


def _fn(ab, dim, force_callable=False, lu=1.0, vu=1.0):
    """mean / trend a + b x of the spec, in the units of the configuration (x arrives in length units)."""
    a, b = ab
    if b == 0 and not force_callable:
        return float(a) * vu
    if dim == 1:
        return lambda x: (a + b * (np.asarray(x, dtype=float) / lu)) * vu
    return lambda x, y: (a + b * (np.asarray(x, dtype=float) / lu) + 0.0 * np.asarray(y, dtype=float)) * vu


def build(cfg, out, perm=None, inv=("pinv", True), lognormal=False, flavour=0, boxcox=None):
    """Real kriging object for a spec configuration.  perm: order of the conditioning points.
    Returns (object, info) ; raises whatever the constructor raises."""
    import gstools as gs
    from gstools import krige, normalizer

    dim = cfg["dim"]
    n = len(cfg["pos"])
    perm = list(range(n)) if perm is None else perm
    pos = [cfg["pos"][i] for i in perm]
    val = np.array([float(cfg["val"][i]) for i in perm])
    model = make_model(cfg, flavour)
    lu, vu, cu = units(cfg)
    trend_ab, mean_ab = cfg["trend"], cfg["mean"]
    tr_at = np.array([float(lin(trend_ab, p)) for p in pos])
    if lognormal or boxcox is not None:
        assert vu == 1.0, "normalizer wrappers are used in data unit 1 only"
    if lognormal:
        # normalize(cond_val - trend) must be the spec's (val - trend): cond_val = exp(val - trend) + trend
        val = np.exp(val - tr_at) + tr_at
        norm = normalizer.LogNormal()
    elif boxcox is not None:
        norm = normalizer.BoxCox(lmbda=boxcox)
    elif cfg.get("norm", [1, 0]) != [1, 0]:
        norm = affine_normalizer(cfg["norm"][0], cfg["norm"][1] * vu)
    else:
        norm = None
    val = val * vu
    mode = cfg["err"]["mode"]
    if mode == "nugget":
        cond_err = "nugget"
    elif mode == "scalar":
        cond_err = float(cfg["err"]["e"]) * cu if flavour % 2 == 0 else [float(cfg["err"]["e"]) * cu]
    else:
        cond_err = [float(cfg["err"]["pat"][i]) * cu for i in perm]
        if flavour % 2:
            cond_err = np.array(cond_err)
    kw = dict(exact=cfg["exact"], cond_err=cond_err, pseudo_inv=inv[1], pseudo_inv_type=inv[0])
    cpos = _coords(pos, dim, lu)
    cpos_arg = cpos[0] if dim == 1 and flavour % 2 == 0 else cpos
    trend = None if trend_ab == [0, 0] else _fn(trend_ab, dim, force_callable=(flavour % 3 == 1), lu=lu, vu=vu)
    mean = None if mean_ab == [0, 0] else _fn(mean_ab, dim, lu=lu, vu=vu)
    edc = None if cfg["ext"] == "none" else np.array([float(out["edc"][i]) for i in perm])
    drift = None
    if cfg["drift"] == 1:
        drift = ["linear", 1, "callable"][flavour % 3]
        if drift == "callable":
            drift = [lambda x: x] if dim == 1 else [lambda x, y: x, lambda x, y: y]
    cls = cfg["cls"]
    if norm is not None:
        kw["normalizer"] = norm
    if cls == "Simple":
        k = krige.Simple(model, cpos_arg, val, mean=(0.0 if mean is None else mean), trend=trend, **kw)
    elif cls == "Ordinary":
        k = krige.Ordinary(model, cpos_arg, val, trend=trend, **kw)
    elif cls == "Universal":
        k = krige.Universal(model, cpos_arg, val, drift, trend=trend, **kw)
    elif cls == "ExtDrift":
        k = krige.ExtDrift(model, cpos_arg, val, edc, trend=trend, **kw)
    elif cls == "Detrended" and norm is None:
        k = krige.Detrended(model, cpos_arg, val, _fn(trend_ab, dim, force_callable=True, lu=lu, vu=vu), **kw)
    else:
        k = krige.Krige(model, cpos_arg, val, drift_functions=drift, ext_drift=edc, mean=mean, trend=trend,
                        unbiased=cfg["unb"], **kw)
    return k, dict(val=val)


def call(k, cfg, out, idx, mesh="unstructured", chunk=None, only_mean=False, return_var=True):
    """Evaluate at the targets idx (list of indices into cfg.tgt).  Returns (field, var|None) flat."""
    dim = cfg["dim"]
    lu, vu, cu = units(cfg)
    kw = {}
    if cfg["ext"] != "none":
        kw["ext_drift"] = np.array([float(out["edt"][i]) for i in idx])
    if chunk is not None:
        kw["chunk_size"] = chunk
    if mesh == "unstructured":
        tp = _coords([cfg["tgt"][i] for i in idx], dim, lu)
        res = k(tp[0] if dim == 1 else tp, only_mean=only_mean, return_var=return_var, **kw)
    else:
        if dim == 1:
            axes = [np.array([float(cfg["tgt"][i][0]) for i in idx]) * lu]
        else:  # the first four targets are the grid {x0,x1} x {y0,y1} in C order
            assert idx == [0, 1, 2, 3]
            axes = [np.array([float(cfg["tgt"][0][0]), float(cfg["tgt"][2][0])]) * lu,
                    np.array([float(cfg["tgt"][0][1]), float(cfg["tgt"][1][1])]) * lu]
        res = k.structured(axes, only_mean=only_mean, return_var=return_var, **kw)
    # results are handed back in unit 1 (division by a power of two is exact)
    if return_var and not only_mean:
        return np.asarray(res[0], dtype=float).reshape(-1) / vu, np.asarray(res[1], dtype=float).reshape(-1) / cu
    return np.asarray(res, dtype=float).reshape(-1) / vu, None


def get_mean_u(k, cfg):
    gm = k.get_mean()
    return None if gm is None else float(gm) / units(cfg)[1]


def close(a, b, tol=TOL):
    return abs(a - b) <= tol * max(1.0, abs(a), abs(b))


class Expect:
    """Float images of TLC's rationals for one configuration."""

    def __init__(self, cfg, out, lognormal=False):
        self.cfg = cfg
        T = len(cfg["tgt"])
        tr = [Fraction(lin(cfg["trend"], t)) for t in cfg["tgt"]]
        fld = [fr(q) for q in out["field"]]
        mfl = [fr(q) for q in out["meanfield"]]
        if lognormal:
            # documented LogNormal: denormalize = exp, the trend is added after de-normalisation
            self.field = [math.exp(float(fld[k] - tr[k])) + float(tr[k]) for k in range(T)]
            self.meanfield = [math.exp(float(mfl[k] - tr[k])) + float(tr[k]) for k in range(T)]
            self.gmean = None if out["gmean"] == [0, 0] else math.exp(float(fr(out["gmean"])))
        else:
            self.field = [float(x) for x in fld]
            self.meanfield = [float(x) for x in mfl]
            self.gmean = None if out["gmean"] == [0, 0] else float(fr(out["gmean"]))
        self.var = [float(fr(q)) for q in out["var"]]


def cfg_class(cfg):
    m = len(cfg["pos"])
    return "%s/%s%s%s" % (cfg["cls"], "exact" if cfg["exact"] else "err=" + cfg["err"]["mode"],
                          "/dup" if len({tuple(p) for p in cfg["pos"]}) < m else "",
                          "" if unit_one(cfg) else "/units: length 2^%d, data 2^%d, covariance 2^%d"
                          % (cfg["lunit"], cfg["vunit"][0], cfg["vunit"][1]))


class _Collect:
    def __init__(self):
        self.violations = []  # (prop, key, what, replay)
        self.drift = []
        self.calls = 0

    def violation(self, prop, key, what, replay):
        if not any(p == prop and k == key for p, k, _w, _r in self.violations):
            self.violations.append((prop, key, what, replay))

    def drift_msg(self, msg):
        if len(self.drift) < 5:
            self.drift.append(msg)


def _drift_compare(cfg, out, cap, idx, chunk, chunks_tab):
    """Entry-wise comparison of the captured system with the documented layout; list of messages."""
    msgs = []
    dd = float(out["dd"])
    n = len(cfg["pos"])
    lu, _vu, cu = units(cfg)
    nd = (2 if cfg["dim"] == 2 else 1) if cfg["drift"] == 1 else 0
    drows = [n + int(cfg["unb"]) + j for j in range(nd)]        # functional drift rows carry the length unit
    atol = 1e-12 * min(1.0, cu, lu)
    K = np.array(out["kmat"], dtype=float)
    K[:n, :n] *= cu / dd
    for r in drows:
        K[r, :n] *= lu
        K[:n, r] *= lu
    if cap.mats:
        if cap.mats[-1].shape != K.shape or not np.allclose(cap.mats[-1], K, atol=atol, rtol=1e-12):
            msgs.append("kriging matrix handed to the solver differs from the documented layout")
    if cap.vecs and chunks_tab is not None:
        T = len(idx)
        cs = T if chunk is None else chunk
        exp_slices = [tuple(s) for s in chunks_tab.get((T, cs), [])] if T else []
        got = [v[0] for v in cap.vecs]
        if got != exp_slices:
            msgs.append("chunk slices %s differ from Chunks(%d, %d) = %s" % (got, T, cs, exp_slices))
        else:
            R = np.array([out["rhs"][i] for i in idx], dtype=float).T
            if R.size:
                R[:n, :] *= cu / dd
                for r in drows:
                    R[r, :] *= lu
                for (lo, hi), _om, vec in cap.vecs:
                    if vec.shape != R[:, lo:hi].shape or not np.allclose(vec, R[:, lo:hi], atol=atol, rtol=1e-12):
                        msgs.append("right-hand side of chunk (%d, %d) differs from the documented one" % (lo, hi))
                        break
    return msgs


class CodeRaised(Exception):
    """The code under test raised on an admissible (non-singular, documented) configuration."""

    def __init__(self, where, exc):
        super().__init__(where)
        self.where, self.exc = where, exc


def _guard(where, fn, *a, **kw):
    try:
        return fn(*a, **kw)
    except Exception as e:  # noqa: BLE001
        import traceback

        if any("/gstools/" in fr_.filename or "/scipy/" in fr_.filename or "/numpy/" in fr_.filename
               for fr_ in traceback.extract_tb(e.__traceback__)[-3:]):
            raise CodeRaised(where, e) from e
        raise


def replay_config(cfg, out, col, rng, chunks_tab, pid, level):
    """Run one TLC configuration on the real code.  level: 0 = reduced set of calls, 1 = all."""
    try:
        return _replay_config(cfg, out, col, rng, chunks_tab, pid, level)
    except CodeRaised as e:
        if out["status"] == "Rejected":
            raise e.exc
        col.calls += 1
        col.violation("C06" if out["merged"] else "C05", "raises:%s:%s:%s" % (cfg["cls"], e.where, type(e.exc).__name__),
                      "%s [%s]: the kriging system of this configuration has the unique solution computed by TLC, "
                      "but the code raised %r" % (cfg_class(cfg), e.where, e.exc),
                      {"cfg": cfg, "mode": e.where, "expected": {k: out[k] for k in ("status", "field", "var", "meanfield", "gmean")}})


def _replay_config(cfg, out, col, rng, chunks_tab, pid, level):
    cc = cfg_class(cfg)
    base_rp = {"cfg": cfg, "expected": {k: out[k] for k in ("status", "field", "var", "meanfield", "gmean")},
               "kmat_over_dd": out.get("kmat"), "dd": out.get("dd")}
    flavour = rng.randrange(6)
    if out["status"] == "Rejected":
        try:
            build(cfg, out, flavour=flavour)
        except ValueError:
            col.calls += 1
            return
        col.calls += 1
        col.violation("C06", "reject:%s:exact+explicit-cond_err:accepted" % cfg["cls"],
                      "%s: exact=True together with cond_err=%s is documented to be rejected but was accepted"
                      % (cc, cfg["err"]), dict(base_rp, mode="construct"))
        return
    T = len(cfg["tgt"])
    G = _guard
    n = len(cfg["pos"])
    merged = out["merged"]
    allidx = list(range(T))
    exp = Expect(cfg, out)
    sill = float(cfg["var"] + cfg["nug"])
    simple = not cfg["unb"] and cfg["drift"] == 0 and cfg["ext"] == "none"
    dup = len({tuple(p) for p in cfg["pos"]}) < n
    err_eff = [cfg["nug"] if cfg["err"]["mode"] == "nugget" else
               (cfg["err"]["e"] if cfg["err"]["mode"] == "scalar" else cfg["err"]["pat"][i]) for i in range(n)]

    def check(tag, k, idx, fld, var, e=exp, what="field", only_mean=False, tol=TOL, extra=None):
        """Compare outputs with the spec; returns True when they agree."""
        ok = True
        ef = e.meanfield if only_mean else e.field
        for j, t in enumerate(idx):
            bad = None
            if not (np.isfinite(fld[j]) and close(fld[j], ef[t], tol)):
                bad = ("meanfield" if only_mean else "field", fld[j], ef[t])
            elif var is not None and not (np.isfinite(var[j]) and close(var[j], e.var[t], tol)):
                bad = ("var", var[j], e.var[t])
            if bad:
                ok = False
                prop = "C06" if merged else "C05"
                key = "%s:%s:%s%s" % (bad[0], cfg["cls"], tag, ":duplicates-merged" if merged else "")
                rp = dict(base_rp, mode=tag, target=cfg["tgt"][t], observed=bad[1], expected_value=bad[2],
                          flavour=flavour, **(extra or {}))
                col.violation(prop, key, "%s [%s]: %s at target %s is %r, the kriging equations give %r"
                              % (cc, tag, bad[0], cfg["tgt"][t], float(bad[1]), bad[2]), rp)
                break
        if var is not None:
            # C06 relations on the implementation's own outputs
            for j, t in enumerate(idx):
                if not var[j] >= 0.0:
                    col.violation("C06", "var-negative:%s:%s" % (cfg["cls"], tag),
                                  "%s [%s]: kriging variance %r < 0 at %s" % (cc, tag, float(var[j]), cfg["tgt"][t]),
                                  dict(base_rp, mode=tag, target=cfg["tgt"][t], observed=var[j]))
                    ok = False
                if simple and not var[j] <= sill * (1 + 1e-12) + 1e-12:
                    col.violation("C06", "var-gt-sill:%s:%s" % (cfg["cls"], tag),
                                  "%s [%s]: simple kriging variance %r exceeds the sill %r at %s"
                                  % (cc, tag, float(var[j]), sill, cfg["tgt"][t]),
                                  dict(base_rp, mode=tag, target=cfg["tgt"][t], observed=var[j]))
                    ok = False
        if not dup and not only_mean and e is exp:
            for j, t in enumerate(idx):
                for i in range(n):
                    if cfg["pos"][i] == cfg["tgt"][t] and (cfg["exact"] or err_eff[i] == 0):
                        if not close(fld[j], float(cfg["val"][i]), tol):
                            col.violation("C06", "exact-at-data:%s:%s" % (cfg["cls"], tag),
                                          "%s [%s]: zero measurement error but the field at the conditioning point %s is %r, "
                                          "the conditioning value is %r" % (cc, tag, cfg["pos"][i], float(fld[j]), cfg["val"][i]),
                                          dict(base_rp, mode=tag, target=cfg["tgt"][t], observed=fld[j]))
                            ok = False
                        if var is not None and (cfg["exact"] or cfg["nug"] == 0) and not abs(var[j]) <= tol:
                            col.violation("C06", "zero-var-at-data:%s:%s" % (cfg["cls"], tag),
                                          "%s [%s]: zero measurement error but the kriging variance at the conditioning point %s is %r"
                                          % (cc, tag, cfg["pos"][i], float(var[j])),
                                          dict(base_rp, mode=tag, target=cfg["tgt"][t], observed=var[j]))
                            ok = False
        col.calls += 1
        return ok

    invs = [("pinv", True), ("pinvh", True)] + ([] if merged else [("inv", False)])
    drift_msgs = []
    all_ok = True
    # base call with every inversion routine (+ capture of the assembled system)
    for ii, inv in enumerate(invs):
        with Capture() as cap:
            k, _info = G("construct", build, cfg, out, inv=(inv[0] if inv[1] else "pinv", inv[1]), flavour=flavour)
            f, v = G("call", call, k, cfg, out, allidx)
        tag = "unstructured:" + inv[0]
        ok = check(tag, k, allidx, f, v)
        all_ok &= ok
        dm = _drift_compare(cfg, out, cap, allidx, None, chunks_tab)
        if dm and ok:
            drift_msgs += ["%s [%s]: %s" % (cc, tag, m) for m in dm]
        elif dm:
            for p_, k_, _w, r_ in col.violations:
                if r_.get("mode") == tag and r_.get("cfg") is cfg:
                    r_["localisation"] = dm
        if ii == 0:
            k0, f0, v0 = k, f, v
    if not all_ok:
        return
    if not unit_one(cfg):
        # the same configuration in unit 1: the results must not depend on the units (powers of two are exact)
        c1 = dict(cfg, lunit=0, vunit=[0, 0])
        k1, _ = G("construct", build, c1, out, inv=("pinv", True), flavour=flavour)
        f1, v1 = G("call", call, k1, c1, out, allidx)
        col.calls += 1
        # the units of a configuration never enter its kriging matrix unevenly (KrigeSys!MkCfg), so the system
        # is the same up to an exact common power of two
        utol = 1e-12
        d = float(max(np.max(np.abs(f0 - f1) / np.maximum(1.0, np.abs(f1))), np.max(np.abs(v0 - v1))))
        col.unit_stats = max(getattr(col, "unit_stats", 0.0), d / utol)
        if not d <= utol:
            col.violation("C06" if merged else "C05", "unit-dependence:%s:%s" % (cfg["cls"], "exact" if cfg["exact"] else "err=" + cfg["err"]["mode"]),
                          "%s: estimate / variance differ by %r from the same configuration in unit 1 (tolerance %r)"
                          % (cc, d, utol), dict(base_rp, mode="unit-relation", in_units=list(map(float, f0)), unit_one=list(map(float, f1)),
                                                               var_in_units=list(map(float, v0)), var_unit_one=list(map(float, v1))))
    inv_r = invs[rng.randrange(len(invs))]
    kr, _ = G("construct", build, cfg, out, inv=(inv_r[0] if inv_r[1] else "pinv", inv_r[1]), flavour=flavour + 1)
    # get_mean
    gm = G("get_mean", get_mean_u, kr, cfg)
    col.calls += 1
    if (gm is None) != (exp.gmean is None) or (gm is not None and not close(float(gm), exp.gmean)):
        col.violation("C06" if merged else "C05", "get_mean:%s" % cfg["cls"],
                      "%s: get_mean() = %r, the kriging equations give %r" % (cc, gm, exp.gmean),
                      dict(base_rp, mode="get_mean", observed=gm, expected_value=exp.gmean))
    # chunk sizes
    chunk_list = list(range(1, T + 2)) if level else sorted({1, rng.randrange(2, T), T + 1})
    for cs in chunk_list:
        with Capture() as cap:
            f, v = G("call", call, kr, cfg, out, allidx, chunk=cs)
        ok = check("chunk_size", kr, allidx, f, v, extra={"chunk_size": cs})
        dm = _drift_compare(cfg, out, cap, allidx, cs, chunks_tab)
        if dm and ok:
            drift_msgs += ["%s [chunk_size=%d]: %s" % (cc, cs, m) for m in dm]
    # permuted / sub-sampled targets
    p = allidx[:]
    rng.shuffle(p)
    p = p[: rng.randrange(2, T + 1)]
    f, v = G("call", call, kr, cfg, out, p, chunk=rng.choice([None, 2, 3]))
    check("permuted-targets", kr, p, f, v, extra={"targets": p})
    # permuted conditioning points
    cp = list(range(n))
    while n > 1 and cp == list(range(n)):
        rng.shuffle(cp)
    kp, _ = G("construct", build, cfg, out, perm=cp, inv=(inv_r[0] if inv_r[1] else "pinv", inv_r[1]), flavour=flavour + 2)
    f, v = G("call", call, kp, cfg, out, allidx)
    check("permuted-conditions", kp, allidx, f, v, extra={"cond_perm": cp})
    gm = G("get_mean", get_mean_u, kp, cfg)
    if (gm is None) != (exp.gmean is None) or (gm is not None and not close(float(gm), exp.gmean)):
        col.violation("C06" if merged else "C05", "get_mean:%s:permuted-conditions" % cfg["cls"],
                      "%s: get_mean() = %r after permuting the conditioning points, expected %r" % (cc, gm, exp.gmean),
                      dict(base_rp, mode="get_mean", cond_perm=cp, observed=gm, expected_value=exp.gmean))
    # structured
    sidx = allidx if cfg["dim"] == 1 else [0, 1, 2, 3]
    f, v = G("call", call, kr, cfg, out, sidx, mesh="structured", chunk=rng.choice([None, 1, 3]))
    check("structured", kr, sidx, f, v)
    # return_var=False, only_mean
    f, _ = G("call", call, kr, cfg, out, allidx, return_var=False, chunk=rng.choice([None, 2]))
    check("return_var=False", kr, allidx, f, None)
    f, _ = G("call", call, kr, cfg, out, allidx, only_mean=True, chunk=rng.choice([None, 2]))
    check("only_mean", kr, allidx, f, None, only_mean=True)
    if level or rng.random() < 0.3:
        f, _ = G("call", call, kr, cfg, out, sidx, mesh="structured", only_mean=True)
        check("only_mean:structured", kr, sidx, f, None, only_mean=True)
    # long target lists (cycled targets), chunk table up to n = 40, c = 45
    if level or rng.random() < 0.15:
        nn, cs = rng.randrange(T + 1, 41), rng.randrange(1, 46)
        idx = [(i * 5 + 1) % T for i in range(nn)]
        with Capture() as cap:
            f, v = G("call", call, kr, cfg, out, idx, chunk=cs)
        ok = check("long-target-list", kr, idx, f, v, extra={"n": nn, "chunk_size": cs})
        dm = _drift_compare(cfg, out, cap, idx, cs, chunks_tab)
        if dm and ok:
            drift_msgs += ["%s [n=%d chunk_size=%d]: %s" % (cc, nn, cs, m) for m in dm]
    # LogNormal wrapper: the same kriging system in normalised space
    if cfg["cls"] != "Detrended" and units(cfg)[1] == 1.0 and (level or rng.random() < 0.35):
        expl = Expect(cfg, out, lognormal=True)
        kl, _ = G("construct", build, cfg, out, inv=(inv_r[0] if inv_r[1] else "pinv", inv_r[1]), lognormal=True, flavour=flavour)
        f, v = G("call", call, kl, cfg, out, allidx, chunk=rng.choice([None, 2]))
        check("LogNormal", kl, allidx, f, v, e=expl)
        f, _ = G("call", call, kl, cfg, out, allidx, only_mean=True)
        check("LogNormal:only_mean", kl, allidx, f, None, e=expl, only_mean=True)
        gm = G("get_mean", get_mean_u, kl, cfg)
        if (gm is None) != (expl.gmean is None) or (gm is not None and not close(float(gm), expl.gmean)):
            col.violation("C06" if merged else "C05", "get_mean:%s:LogNormal" % cfg["cls"],
                          "%s: get_mean() = %r with a LogNormal normalizer, expected %r" % (cc, gm, expl.gmean),
                          dict(base_rp, mode="get_mean:LogNormal", observed=gm, expected_value=expl.gmean))
    for m in drift_msgs[:2]:
        col.drift_msg(m)


def roundtrip_exactness(cfg, out, col, rng):
    """C06: exactness at the conditioning points through the trend / normalizer / mean round trip
    (LogNormal, BoxCox: numeric, 1e-8).  Relation between implementation outputs only."""
    import gstools as gs

    n = len(cfg["pos"])
    if out["status"] != "ok" or len({tuple(p) for p in cfg["pos"]}) < n or cfg["cls"] == "Detrended" or units(cfg)[1] != 1.0:
        return
    err_eff = [cfg["nug"] if cfg["err"]["mode"] == "nugget" else
               (cfg["err"]["e"] if cfg["err"]["mode"] == "scalar" else cfg["err"]["pat"][i]) for i in range(n)]
    if not (cfg["exact"] or all(e == 0 for e in err_eff)):
        return
    for name, lam in (("LogNormal", None), ("BoxCox", 0.5), ("BoxCox", 2.0)):
        c2 = dict(cfg)
        # positive detrended data: val - trend in 1..5
        base = [3 + v for v in cfg["val"]]
        c2["val"] = [b + lin(cfg["trend"], p) for b, p in zip(base, cfg["pos"])]
        try:
            if name == "LogNormal":
                k, info = build(c2, out, lognormal=False, flavour=rng.randrange(6))
                k.normalizer = gs.normalizer.LogNormal()
                k.set_condition()
            else:
                k, info = build(c2, out, boxcox=lam, flavour=rng.randrange(6))
        except Exception as e:  # noqa: BLE001
            col.violation("C06", "roundtrip:%s:%s:construct" % (cfg["cls"], name),
                          "%s: cannot build with %s normalizer: %r" % (cfg_class(cfg), name, e), {"cfg": c2})
            continue
        dim = cfg["dim"]
        cp = _coords(cfg["pos"], dim, units(cfg)[0])
        kw = {}
        if cfg["ext"] != "none":
            kw["ext_drift"] = np.array([float(x) for x in out["edc"]])
        try:
            f, v = _guard("call", k, cp[0] if dim == 1 else cp, **kw)
            v = v / units(cfg)[2]
        except CodeRaised as e:
            col.violation("C06", "roundtrip:%s:%s:call-raises" % (cfg["cls"], name),
                          "%s: call at the conditioning points with %s normalizer raised %r" % (cfg_class(cfg), name, e.exc),
                          {"cfg": c2, "normalizer": name, "lmbda": lam})
            continue
        col.calls += 1
        for i in range(n):
            if not close(float(f[i]), float(c2["val"][i]), TOL_NORM):
                col.violation("C06", "exact-at-data:%s:%s-roundtrip" % (cfg["cls"], name),
                              "%s: %s(%s) normalizer, zero measurement error, field at conditioning point %s is %r instead of %r"
                              % (cfg_class(cfg), name, lam, cfg["pos"][i], float(f[i]), c2["val"][i]),
                              {"cfg": c2, "normalizer": name, "lmbda": lam, "observed": float(f[i])})
                break
            if (cfg["exact"] or cfg["nug"] == 0) and not abs(float(v[i])) <= TOL_NORM:
                col.violation("C06", "zero-var-at-data:%s:%s-roundtrip" % (cfg["cls"], name),
                              "%s: %s normalizer, kriging variance at conditioning point %s is %r"
                              % (cfg_class(cfg), name, cfg["pos"][i], float(v[i])),
                              {"cfg": c2, "normalizer": name, "lmbda": lam, "observed": float(v[i])})
                break


# ---------------------------------------------------------------------------
# histories on one object (KrigeSysHist.tla)

HIST_DOMAINS_1D = dict(HMeans=[[0, 0], [2, 0]], HTrends=[[0, 0], [1, 1]], HNorms=[[1, 0], [2, 3]],
                       HVars=[1, 2], HNugs=[0, 1], HLens=[2, 4], HStretches=[1], HQuarters=[0])
HIST_DOMAINS_2D = dict(HMeans=[[0, 0], [2, 0]], HTrends=[[0, 0], [1, -1]], HNorms=[[1, 0], [2, 3]],
                       HVars=[1], HNugs=[0, 1], HLens=[3, 5], HStretches=[1, 4], HQuarters=[0, 1])
POS_HIST_1D = [[0], [1], [3]]
POS_HIST_2D = [[0, 0], [3, 0], [0, 1]]


def hist_module(name, fam, variants, possets, valseqs, exacts, targets, domains, depth):
    mod, cfg = mc_module(name, fam, variants, possets, valseqs, ERRS[:1], exacts, targets, False, nugs=(0,),
                         units=(-30, (-30, -15)) if fam[2] == 1 else (30, (0, 0)))
    mod = mod.replace("EXTENDS KrigeSys\n", "EXTENDS KrigeSysHist\n")
    extra = {k: _set(_tla(v) for v in vals) for k, vals in domains.items()}
    extra["HDepth"] = str(depth)
    mod = mod.replace("====\n", "".join("Mc%s == %s\n" % kv for kv in extra.items()) + "====\n")
    consts = cfg.replace("INIT Init\nNEXT Next\n", "".join(" %s <- Mc%s\n" % (k, k) for k in extra))
    graph = consts + "INIT HInit\nNEXT HNext\nINVARIANT HistOK\n" + ("CONSTRAINT DepthBound\n" if depth else "")
    table = _invs(consts + "INIT TInit\nNEXT TNext\n", CHEAP_INVS)
    return mod, graph, table


def plan_hist(pid, tier, rng):
    """One graph job (histories) and one table job (exact solutions) per family; a few TLC starts only."""
    thorough = tier == "thorough"
    depth = 5 if thorough else 4
    only = os.environ.get("VERIF_ONLY")
    jobs = []
    lin = ("hlin", "Linear", 1, 1, [4], [1], 4)
    sph = ("hsph", "Spherical", 2, 4, [5], [1], 2)
    v1 = [VARIANTS_1D[1], VARIANTS_1D[3], VARIANTS_1D[5], VARIANTS_1D[6], VARIANTS_1D[12], VARIANTS_1D[8]]
    v2 = [VARIANTS_2D[0], VARIANTS_2D[1], VARIANTS_2D[3], VARIANTS_2D[7]]
    if not thorough:
        v1, v2 = v1[:5], v2[:3]
    import itertools

    z3 = [z for z in itertools.product(range(-2, 3), repeat=3) if len(set(z)) == 3]
    z2 = [z for z in itertools.product(range(-2, 3), repeat=2) if len(set(z)) == 2]
    for fam, variants, possets, tg, dom in ((lin, v1, [POS_HIST_1D], TGT_1D, HIST_DOMAINS_1D),
                                            (sph, v2, [POS_HIST_2D, POS_HIST_2D[:1] + POS_HIST_2D[2:]], TGT_ST,
                                             HIST_DOMAINS_2D)):
        if only and fam[0] not in only.split(","):
            continue
        valseqs = {3: [list(rng.choice(z3))], 2: [list(rng.choice(z2))]}
        halves = [variants] if not thorough else _split(variants, 2)
        for gi, vs in enumerate(halves):
            tag = "H_%s_%d" % (fam[0], gi)
            mod, graph, table = hist_module("MC_" + tag, fam, vs, possets, valseqs, [False, True], tg, dom, depth)
            jobs.append(dict(tag=tag, kind="hist", mod=mod, cfg=graph, fam=fam[0]))
            jobs.append(dict(tag=tag, kind="table", mod=mod, cfg=table, fam=fam[0]))
    return jobs


_HOPS = {"mean": "SetMean", "trend": "SetTrend", "norm": "SetNorm", "var": "SetVar", "nug": "SetNug",
         "len": "SetLen", "stretch": "SetStretch", "quarter": "SetQuarter"}


def hist_op(a, b):
    """The action that leads from state a to state b (exactly one attribute changes, or Refresh)."""
    ch = [f for f in _HOPS if a["cfg"][f] != b["cfg"][f]]
    if len(ch) == 1:
        return _HOPS[ch[0]], ch[0], b["cfg"][ch[0]]
    if not ch and (a["cfgR"] != b["cfgR"] or a["dirty"] != b["dirty"]):
        return "Refresh", None, None
    raise AssertionError("cannot identify the operation between two spec states: %s" % ch)


def hist_apply(k, st, op, flavour):
    name, field, value = op
    cfg = st["cfg"]
    dim = cfg["dim"]
    lu, vu, cu = units(cfg)
    if name == "Refresh":
        k.set_condition()
    elif name == "SetMean":
        k.mean = None if (value == [0, 0] and flavour % 2) else _fn(value, dim, lu=lu, vu=vu)
    elif name == "SetTrend":
        k.trend = None if (value == [0, 0] and flavour % 2) else _fn(value, dim, force_callable=(flavour % 3 == 1), lu=lu, vu=vu)
    elif name == "SetNorm":
        k.normalizer = None if (value == [1, 0] and flavour % 2) else affine_normalizer(value[0], value[1] * vu)
    elif flavour % 3 == 2:
        k.model = make_model(dict(cfg, _no_temporal=True), 1)     # assign a new model object
    elif name == "SetVar":
        k.model.var = float(value) * cu
    elif name == "SetNug":
        k.model.nugget = float(value) * cu
    elif name == "SetLen":
        k.model.len_scale = float(value) * lu
    elif name == "SetStretch":
        k.model.anis = 1.0 / value
    elif name == "SetQuarter":
        k.model.angles = value * math.pi / 2
    else:
        raise AssertionError(name)


def _key(cfg):
    return hashlib.md5(repr(tlaval.freeze(cfg)).encode()).hexdigest()


def hist_eval(k, st, col, rng, lastop, hist, init):
    """Evaluate the object with and without variance and compare with the spec's admissible results."""
    cfg, dirty = st["cfg"], st["dirty"]
    out, outR = st["table"][_key(cfg)], st["table"][_key(st["cfgR"])]
    T = len(cfg["tgt"])
    idx = list(range(T))
    cs = rng.choice([None, 2, 3])
    order = [True, False] if rng.random() < 0.5 else [False, True]
    res = {}
    for rv in order:
        try:
            res[rv] = _guard("call", call, k, cfg, out, idx, chunk=cs, return_var=rv)
        except CodeRaised as e:
            if dirty:
                return True
            col.violation("C05", "hist:raises:%s:%s" % (cfg["cls"], lastop),
                          "%s: call(return_var=%s) after %s raised %r" % (cfg_class(cfg), rv, lastop, e.exc),
                          {"init": init, "ops": hist, "return_var": rv})
            return False
        col.calls += 1
    if dirty:
        return True      # model changed without set_condition(): unspecified
    refreshed = st["cfgR"] == cfg
    cands = [("current", Expect(cfg, out))] + ([] if refreshed else [("last-refresh", Expect(st["cfgR"], outR))])
    cc = cfg_class(cfg)
    rp = {"init": init, "ops": hist, "cfg": cfg, "cfg_at_last_refresh": st["cfgR"],
          "expected": {k_: out[k_] for k_ in ("field", "var")}, "expected_last_refresh": {k_: outR[k_] for k_ in ("field", "var")}}
    ok = True
    which = {}
    for rv in (True, False):
        f, v = res[rv]
        m = [nm for nm, e in cands if all(np.isfinite(f[j]) and close(f[j], e.field[j]) for j in idx)]
        which[rv] = m
        if not m:
            ok = False
            e0 = cands[0][1]
            j = next(j for j in idx if not (np.isfinite(f[j]) and close(f[j], e0.field[j])))
            col.violation("C05", "hist:field:%s:%s:%s:return_var=%s" % (cfg["cls"], lastop, "refreshed" if refreshed else "unrefreshed", rv),
                          "%s: after %s (%s) the estimate (return_var=%s) at %s is %r; the kriging equations of the current "
                          "configuration give %r%s" % (cc, " -> ".join(o[0] for o in hist[-3:]) or "construction",
                                                       "refreshed by set_condition()" if refreshed else "no set_condition() since the attribute change",
                                                       rv, cfg["tgt"][j], float(f[j]), e0.field[j],
                                                       "" if refreshed else " (those of the last refresh give %r)" % cands[1][1].field[j]),
                          dict(rp, return_var=rv, observed=list(map(float, f))))
        if v is not None and not all(np.isfinite(v[j]) and close(v[j], cands[0][1].var[j]) for j in idx):
            ok = False
            j = next(j for j in idx if not (np.isfinite(v[j]) and close(v[j], cands[0][1].var[j])))
            col.violation("C05", "hist:var:%s:%s:%s" % (cfg["cls"], lastop, "refreshed" if refreshed else "unrefreshed"),
                          "%s: after %s the kriging variance at %s is %r; the kriging equations give %r"
                          % (cc, " -> ".join(o[0] for o in hist[-3:]) or "construction", cfg["tgt"][j], float(v[j]), cands[0][1].var[j]),
                          dict(rp, observed=list(map(float, v))))
    if ok and which[True] != which[False] and not (set(which[True]) & set(which[False])):
        ok = False
        col.violation("C05", "hist:paths-disagree:%s:%s" % (cfg["cls"], lastop),
                      "%s: after %s the estimate returned with the variance follows the %s configuration, without it the %s one"
                      % (cc, lastop, which[True], which[False]), rp)
    if ok and not refreshed and "current" not in which[True]:
        col.drift_msg("%s: %s is not in force before set_condition() (allowed)" % (cc, lastop))
    # C06 relations on the implementation's own outputs
    f, v = res[True]
    n = len(cfg["pos"])
    sill = float(cfg["var"] + cfg["nug"])
    simple = not cfg["unb"] and cfg["drift"] == 0 and cfg["ext"] == "none"
    for j in idx:
        if not v[j] >= 0 or (simple and not v[j] <= sill * (1 + 1e-12) + 1e-12):
            col.violation("C06", "hist:var-bounds:%s:%s" % (cfg["cls"], lastop),
                          "%s: after %s the kriging variance at %s is %r (sill %r)" % (cc, lastop, cfg["tgt"][j], float(v[j]), sill),
                          dict(rp, observed=float(v[j])))
            ok = False
            break
    if cfg["exact"] or cfg["nug"] == 0:       # measurement error = nugget in these histories
        for j in idx:
            for i in range(n):
                if cfg["pos"][i] == cfg["tgt"][j]:
                    for rv in (True, False):
                        if not close(res[rv][0][j], float(cfg["val"][i])):
                            col.violation("C06", "hist:exact-at-data:%s:%s" % (cfg["cls"], lastop),
                                          "%s: after %s (zero measurement error) the field (return_var=%s) at the conditioning point %s "
                                          "is %r, the conditioning value is %r"
                                          % (cc, " -> ".join(o[0] for o in hist[-3:]) or "construction", rv, cfg["pos"][i],
                                             float(res[rv][0][j]), cfg["val"][i]), dict(rp, return_var=rv))
                            ok = False
                    if not abs(v[j]) <= TOL:
                        col.violation("C06", "hist:zero-var-at-data:%s:%s" % (cfg["cls"], lastop),
                                      "%s: after %s (zero measurement error) the kriging variance at the conditioning point %s is %r"
                                      % (cc, lastop, cfg["pos"][i], float(v[j])), rp)
                        ok = False
    return ok


def _replay_hist_job(job):
    try:
        return _replay_hist_inner(job)
    except Exception as e:  # noqa: BLE001
        import traceback

        raise RuntimeError("history replay worker %s failed:\n%s" % (job[0], traceback.format_exc())) from e


def _replay_hist_inner(job):
    from .. import paths as pathmod

    tag, dot, tabdump, rseed, pid, tier, part, nparts = job
    Capture.install()
    rng = random.Random(rseed)
    nodes, edges, inits = tlc.read_dot(dot)
    table = {_key(st["cfg"]): st["out"] for st in tlc.read_state_dump(tabdump)}
    for nd in nodes.values():
        nd["table"] = table
    ps, _left = pathmod.edge_cover(nodes, edges, inits, rng=rng, merge=True)
    ps = ps[part::nparts]          # the same cover in every part (same seed); this worker takes its share
    rng = random.Random(rseed + 1 + part)
    col = _Collect()
    res = {"tag": tag, "configs": 0, "nontrivial": set(), "samples": [], "rejected": 0, "merged": 0, "steps": 0}
    for p in ps:
        sts = [nodes[i] for i in p]
        st0 = sts[0]
        flavour = rng.randrange(6)
        init = st0["cfg"]
        k, _ = build(dict(init, _no_temporal=True), table[_key(init)], flavour=flavour | 1,
                     inv=rng.choice([("pinv", True), ("pinvh", True), ("pinv", False)]))
        hist = []
        ok = hist_eval(k, st0, col, rng, "construction", hist, init)
        for a, b in zip(sts, sts[1:]):
            if not ok:
                break
            op = hist_op(a, b)
            hist.append(list(op))
            try:
                _guard("apply", hist_apply, k, b, op, rng.randrange(6))
            except CodeRaised as e:
                col.violation("C05", "hist:raises:%s:%s" % (init["cls"], op[0]),
                              "%s: %s raised %r" % (cfg_class(b["cfg"]), op[0], e.exc), {"init": init, "ops": hist})
                break
            res["steps"] += 1
            ok = hist_eval(k, b, col, rng, op[0], hist, init)
        res["configs"] += 1
        res["nontrivial"].add(hashlib.md5(repr((tag, tlaval.freeze(init), tlaval.freeze(hist))).encode()).hexdigest())
        if not res["samples"] and len(hist) >= 3:
            res["samples"].append({"history_on_one_object": {"class": init["cls"], "model": init["model"], "pos": init["pos"],
                                                             "val": init["val"], "ops": hist}})
    res["calls"] = col.calls
    res["violations"] = col.violations
    res["drift"] = col.drift
    return res


# ---------------------------------------------------------------------------
# relations between implementation outputs where no exact oracle exists (C06)


def _lattice_points(nprng, n, size):
    cells = nprng.choice(size * size, n, replace=False)
    return np.vstack([cells // size, cells % size]).astype(float)


def _variant_objects(gs, name, model, pos, val, ext, **kw):
    """Constructor of a kriging variant on 2-D data; returns (object, call kwargs factory)."""
    tr = lambda x, y: 0.05 * x + 0.02 * y  # noqa: E731
    if name == "Simple":
        return gs.krige.Simple(model, pos, val, mean=0.4, trend=tr, **kw)
    if name == "Ordinary":
        return gs.krige.Ordinary(model, pos, val, trend=tr, **kw)
    if name == "Universal":
        return gs.krige.Universal(model, pos, val, "linear", trend=tr, **kw)
    if name == "ExtDrift":
        return gs.krige.ExtDrift(model, pos, val, ext, trend=tr, **kw)
    return gs.krige.Krige(model, pos, val, drift_functions=[lambda x, y: x], unbiased=False, mean=0.4, trend=tr, **kw)


def fitted_normalizer_relation(col, rng, count):
    """C06: exactness at the conditioning points through a FITTED normalizer; the object built with
    fit_normalizer=True must equal the one built with (a copy of) the fitted normalizer."""
    import copy

    import gstools as gs

    Capture.install()
    nprng = np.random.default_rng(rng.randrange(2**31))
    stats = {"cases": 0, "inconclusive": 0, "fit_excludes_data": 0, "max_error_at_data": 0.0, "max_difference_to_prefitted": 0.0}
    norms = ["BoxCox", "YeoJohnson", "BoxCoxShift", "Modulus", "Manly"]
    variants = ["Simple", "Ordinary", "Universal", "ExtDrift", "Krige"]
    for it in range(count):
        n = rng.randrange(9, 16)
        pos = _lattice_points(nprng, n, 7) * 3.0
        tgt = nprng.uniform(0, 18, (2, 6))
        val = np.exp(nprng.normal(0.3, 0.6, n)) + 0.05 * pos[0] + 0.02 * pos[1]
        ext, ext_t = nprng.normal(size=n), nprng.normal(size=6)
        exact = rng.random() < 0.4
        model = getattr(gs, rng.choice(["Exponential", "Spherical", "Stable"]))(
            dim=2, var=rng.choice([0.5, 1.5]), len_scale=rng.choice([2.0, 5.0]), nugget=0.3 if exact else 0.0)
        vname, nname = variants[it % len(variants)], norms[(it // len(variants)) % len(norms)]
        via_refit = rng.random() < 0.3
        tag = "%s/%s%s" % (vname, nname, "/set_condition(fit_normalizer=True)" if via_refit else "")
        rp = {"variant": vname, "normalizer": nname, "pos": pos, "val": val, "model": repr(model), "exact": exact,
              "via_set_condition": via_refit, "ext_drift": ext}
        try:
            with Capture() as cap:
                if via_refit:
                    k = _guard("construct", _variant_objects, gs, vname, model, pos, val, ext, exact=exact,
                               normalizer=getattr(gs.normalizer, nname)())
                    _guard("refit", k.set_condition, fit_normalizer=True)
                else:
                    k = _guard("construct", _variant_objects, gs, vname, model, pos, val, ext, exact=exact,
                               normalizer=getattr(gs.normalizer, nname)(), fit_normalizer=True)
            tr_c = 0.05 * pos[0] + 0.02 * pos[1]
            if not cap.mats or np.linalg.cond(cap.mats[-1]) > 1e6:
                stats["inconclusive"] += 1
                continue
            with np.errstate(all="ignore"):
                y = np.asarray(k.normalizer.normalize(val - tr_c), dtype=float)
                dy = 1e-9 * np.maximum(1.0, np.abs(y))
                back = [np.asarray(k.normalizer.denormalize(y + sg * dy), dtype=float) for sg in (-1.0, 1.0)]
            if not (np.all(np.isfinite(y)) and all(np.all(np.isfinite(b_)) for b_ in back)
                    and max(float(np.max(np.abs(b_ - (val - tr_c)))) for b_ in back) < 1e-6):
                # the fitted parameters do not admit the data themselves, or the round trip of the fitted normalizer
                # is ill-conditioned at the data (a question of Normalizer.fit, not of kriging): not judged
                stats["fit_excludes_data"] = stats.get("fit_excludes_data", 0) + 1
                continue
            kw = {"ext_drift": ext} if vname == "ExtDrift" else {}
            f, v = _guard("call", k, pos, **kw)
            fitted = copy.deepcopy(k.normalizer)
            k2 = _guard("construct", _variant_objects, gs, vname, model, pos, val, ext, exact=exact, normalizer=fitted)
            kwt = {"ext_drift": ext_t} if vname == "ExtDrift" else {}
            ft, vt = _guard("call", k, tgt, **kwt)
            ft2, vt2 = _guard("call", k2, tgt, **kwt)
        except CodeRaised as e:
            col.violation("C06", "fitted-normalizer:%s:%s:raises" % (vname, nname),
                          "%s: %s raised %r" % (tag, e.where, e.exc), rp)
            continue
        col.calls += 3
        stats["cases"] += 1
        scale = max(1.0, float(np.max(np.abs(val))))
        err = float(np.max(np.abs(f - val))) if np.all(np.isfinite(f)) else float("inf")
        stats["max_error_at_data"] = max(stats["max_error_at_data"], err if np.isfinite(err) else 1e300)
        if not err <= TOL_NORM * scale:
            col.violation("C06", "exact-at-data:%s:fitted-%s" % (vname, nname),
                          "%s (fitted %r): zero measurement error but the field at the conditioning points deviates from the "
                          "conditioning values by %r" % (tag, k.normalizer, err), dict(rp, observed=f))
        if not float(np.max(np.abs(v))) <= TOL_NORM * model.sill:
            col.violation("C06", "zero-var-at-data:%s:fitted-%s" % (vname, nname),
                          "%s: kriging variance at the conditioning points is %r" % (tag, float(np.max(np.abs(v)))), dict(rp, observed=v))
        both = np.isfinite(ft) & np.isfinite(ft2)
        d = float(max(np.max(np.abs(ft[both] - ft2[both]) / np.maximum(1.0, np.abs(ft2[both])), initial=0.0),
                      np.max(np.abs(vt - vt2))))
        stats["max_difference_to_prefitted"] = max(stats["max_difference_to_prefitted"], d)
        if d > TOL_NORM or np.any(np.isfinite(ft) != np.isfinite(ft2)):
            col.violation("C06", "fitted-vs-prefitted:%s:%s" % (vname, nname),
                          "%s: the object built with fit_normalizer=True differs from the one built with a copy of its fitted "
                          "normalizer %r by %r" % (tag, fitted, d), dict(rp, targets=tgt, fitted=ft, prefitted=ft2))
    return stats


def _variant_nd(gs, name, model, pos, val, ext, **kw):
    dim = model.dim
    if name == "Simple":
        return gs.krige.Simple(model, pos, val, mean=float(np.mean(val)), **kw)
    if name == "Ordinary":
        return gs.krige.Ordinary(model, pos, val, **kw)
    if name == "Universal":
        return gs.krige.Universal(model, pos, val, "linear", **kw)
    if name == "ExtDrift":
        return gs.krige.ExtDrift(model, pos, val, ext, **kw)
    return gs.krige.Krige(model, pos, val, drift_functions=[(lambda *x: x[0])], unbiased=False, mean=float(np.mean(val)), **kw)


def fitted_variogram_relation(col, rng, count):
    """C05 / C06: Krige(start model, fit_variogram=True) -- at construction or through
    set_condition(fit_variogram=True) on an existing object -- must (a) reproduce the data with zero variance
    when the measurement error is zero (exact=True) and (b) equal the object built with a copy of the fitted
    model.  The fitted parameters are real numbers: relations between implementation outputs; fits that do
    not converge or give an ill-conditioned system are inconclusive."""
    import copy

    import gstools as gs

    Capture.install()
    nprng = np.random.default_rng(rng.randrange(2**31))
    stats = {"cases": 0, "inconclusive": 0, "fit_failed": 0, "fit_changed_anis": 0, "max_scaled_error_at_data": 0.0,
             "max_difference_to_prefitted": 0.0}
    variants = ["Ordinary", "Simple", "Universal", "ExtDrift", "Krige"]
    for it in range(count):
        dim = 2 if it % 3 else 3
        n = rng.randrange(90, 150) if dim == 2 else rng.randrange(140, 190)
        mcls = rng.choice(["Exponential", "Spherical", "Stable", "Matern"])
        t_anis = [rng.choice([0.25, 0.5])] * (dim - 1)
        t_ang = [rng.uniform(0.0, 3.0)] + [0.0] * (2 if dim == 3 else 0)
        truth = getattr(gs, mcls)(dim=dim, var=2.0, len_scale=12.0, anis=t_anis, angles=t_ang if dim == 3 else t_ang[0])
        pos = nprng.uniform(0.0, 50.0, (dim, n))
        val = gs.SRF(truth, seed=rng.randrange(1, 10**6))(pos) + 0.0
        ext, ext_t = nprng.normal(size=n), nprng.normal(size=8)
        tgt = nprng.uniform(0.0, 50.0, (dim, 8))
        iso = it % 5 == 4                       # control: isotropic start model (the fit keeps anis = 1)
        s_anis = [1.0] * (dim - 1) if iso else [rng.choice([0.8, 0.6, 1.5])] * (dim - 1)
        def start():
            return getattr(gs, mcls)(dim=dim, var=1.0, len_scale=5.0, anis=s_anis, angles=t_ang if dim == 3 else t_ang[0])

        vname = variants[it % len(variants)]
        exact = it % 4 != 3
        via_set = rng.random() < 0.4
        tag = "%s/%s/dim=%d%s%s" % (vname, mcls, dim, "/exact" if exact else "",
                                    "/set_condition(fit_variogram=True)" if via_set else "/fit_variogram=True")
        rp = {"variant": vname, "model_class": mcls, "dim": dim, "start_anis": s_anis, "angles": t_ang, "exact": exact,
              "via_set_condition": via_set, "pos": pos, "val": val, "ext_drift": ext}
        kw = {"ext_drift": ext} if vname == "ExtDrift" else {}
        kwt = {"ext_drift": ext_t} if vname == "ExtDrift" else {}
        try:
            with Capture() as cap:
                if via_set:
                    k = _variant_nd(gs, vname, start(), pos, val, ext, exact=exact)
                    k(tgt, **kwt)         # use the object before it is refitted
                    k.set_condition(fit_variogram=True)
                else:
                    k = _variant_nd(gs, vname, start(), pos, val, ext, exact=exact, fit_variogram=True)
        except Exception:  # noqa: BLE001  a fit that does not converge / violates its bounds: not judged
            stats["fit_failed"] += 1
            continue
        cond = float(np.linalg.cond(cap.mats[-1])) if cap.mats else float("inf")
        if not (cond < 1e8 and np.all(np.isfinite(cap.mats[-1]))):
            stats["inconclusive"] += 1
            continue
        fitted = copy.deepcopy(k.model)
        stats["fit_changed_anis"] += int(not np.allclose(np.atleast_1d(fitted.anis), s_anis))
        try:
            f, v = _guard("call", k, pos, **kw)
            ft, vt = _guard("call", k, tgt, **kwt)
            k2 = _guard("construct", _variant_nd, gs, vname, fitted, pos, val, ext, exact=exact)
            f2, v2 = _guard("call", k2, pos, **kw)
            ft2, vt2 = _guard("call", k2, tgt, **kwt)
        except CodeRaised as e:
            col.violation("C05", "fitted-variogram:%s:raises" % vname, "%s: %s raised %r" % (tag, e.where, e.exc), rp)
            continue
        col.calls += 4
        stats["cases"] += 1
        scale = max(1.0, float(np.max(np.abs(val))))
        tol = max(1e-8, 1e-13 * cond)
        rp["fitted_model"] = repr(fitted)
        d = float(max(np.max(np.abs(f - f2)), np.max(np.abs(ft - ft2))) / scale + max(np.max(np.abs(v - v2)), np.max(np.abs(vt - vt2))) / fitted.sill)
        stats["max_difference_to_prefitted"] = max(stats["max_difference_to_prefitted"], d / tol)
        if not d <= tol:
            col.violation("C05", "fitted-variogram-vs-prefitted:%s:%s" % (vname, "set_condition" if via_set else "construction"),
                          "%s: the object with the fitted variogram differs from the one built with a copy of its fitted model %r "
                          "by %r (tolerance %r, condition number %.3g)" % (tag, fitted, d, tol, cond), rp)
        if exact or fitted.nugget == 0.0:
            err = float(np.max(np.abs(f - val))) / scale
            ev = float(np.max(np.abs(v))) / fitted.sill
            stats["max_scaled_error_at_data"] = max(stats["max_scaled_error_at_data"], max(err, ev) / tol)
            if not err <= tol:
                col.violation("C06", "exact-at-data:%s:fitted-variogram" % vname,
                              "%s (fitted %r): zero measurement error but the field at the conditioning points deviates from the "
                              "conditioning values by %r (tolerance %r)" % (tag, fitted, err * scale, tol * scale), rp)
            if not ev <= tol:
                col.violation("C06", "zero-var-at-data:%s:fitted-variogram" % vname,
                              "%s (fitted %r): zero measurement error but the kriging variance at the conditioning points is %r"
                              % (tag, fitted, ev * fitted.sill), rp)
    return stats


def duplicates_large_relation(col, rng, count):
    """C06: k coincident copies == one point carrying their mean value, for 40-80 point layouts
    (relation between two implementation outputs; DuplicatesMerge is the exact small-scale theorem)."""
    import gstools as gs

    Capture.install()
    nprng = np.random.default_rng(rng.randrange(2**31))
    stats = {"cases": 0, "inconclusive": 0, "max_scaled_difference": 0.0}
    variants = ["Simple", "Ordinary", "Universal", "ExtDrift"]
    for it in range(count):
        n = rng.randrange(40, 81)
        pos = _lattice_points(nprng, n, 12) * 2.0
        val = nprng.normal(1.0, 1.0, n) + 0.05 * pos[0] + 0.02 * pos[1]
        ext = nprng.normal(size=n)
        groups = rng.sample(range(n), rng.randrange(2, 5))
        dpos, dval, dext = [pos], [val], [ext]
        mval = val.copy()
        for g in groups:
            copies = rng.randrange(1, 3)
            extra = val[g] + nprng.normal(size=copies)
            dpos.append(np.repeat(pos[:, g:g + 1], copies, axis=1))
            dval.append(extra)
            dext.append(np.repeat(ext[g], copies))
            mval[g] = (val[g] + extra.sum()) / (copies + 1)
        dpos, dval, dext = np.hstack(dpos), np.concatenate(dval), np.concatenate(dext)
        perm = nprng.permutation(len(dval))
        dpos, dval, dext = dpos[:, perm], dval[perm], dext[perm]
        model = getattr(gs, rng.choice(["Exponential", "Spherical", "Stable", "Matern"]))(
            dim=2, var=rng.choice([0.5, 2.0]), len_scale=rng.choice([3.0, 6.0]))
        vname = variants[it % len(variants)]
        tgt = np.hstack([pos[:, :15], nprng.uniform(0, 24, (2, 10))])
        ext_t = np.concatenate([ext[:15], nprng.normal(size=10)])
        kwt = {"ext_drift": ext_t} if vname == "ExtDrift" else {}
        rp = {"variant": vname, "model": repr(model), "n": n, "duplicate_groups": groups, "pos": dpos, "val": dval, "ext_drift": dext}
        try:
            with Capture() as cap:
                km = _guard("construct", _variant_objects, gs, vname, model, pos, mval, ext)
            cond = float(np.linalg.cond(cap.mats[-1])) if cap.mats else float("inf")
            if not cond < 1e7:
                stats["inconclusive"] += 1
                continue
            fm, vm = _guard("call", km, tgt, **kwt)
            tol = max(1e-8, 1e-13 * cond)
            for ptype in ("pinv", "pinvh"):
                kd = _guard("construct", _variant_objects, gs, vname, model, dpos, dval, dext, pseudo_inv_type=ptype)
                fd, vd = _guard("call", kd, tgt, **kwt)
                col.calls += 1
                d = float(max(np.max(np.abs(fd - fm) / np.maximum(1.0, np.abs(fm))), np.max(np.abs(vd - vm)) / model.sill))
                stats["max_scaled_difference"] = max(stats["max_scaled_difference"], d / tol)
                if not d <= tol:
                    col.violation("C06", "duplicates-large:%s:%s" % (vname, ptype),
                                  "%s, %d points + coincident copies at %d locations, pseudo_inv_type=%s: kriging differs from the "
                                  "merged set carrying the mean values by %r (tolerance %r, condition number of the merged system %.3g)"
                                  % (vname, n, len(groups), ptype, d, tol, cond), dict(rp, pseudo_inv_type=ptype))
        except CodeRaised as e:
            col.violation("C06", "duplicates-large:%s:raises" % vname, "%s: %s raised %r" % (vname, e.where, e.exc), rp)
            continue
        stats["cases"] += 1
    return stats


_STATE_SPLIT = re.compile(r"(?m)^State \d+:\n")


def _replay_job(job):
    try:
        return _replay_job_inner(job)
    except Exception as e:  # noqa: BLE001  (keep the worker's traceback: machinery failure)
        import traceback

        raise RuntimeError("replay worker %s failed:\n%s" % (job[0], traceback.format_exc())) from e


def _replay_job_inner(job):
    tag, dump, rseed, chunks_tab, pid, tier, kind = job
    Capture.install()
    rng = random.Random(rseed)
    with open(dump) as fh:
        text = fh.read()
    col = _Collect()
    res = {"tag": tag, "configs": 0, "nontrivial": set(), "samples": [], "rejected": 0, "merged": 0}
    blocks = [b for b in _STATE_SPLIT.split(text) if b.strip()]
    for b in blocks:
        st = tlaval.parse_state(b)
        cfg, out = st["cfg"], st["out"]
        level = 1 if (tier == "thorough" and rng.random() < 0.25) else 0
        replay_config(cfg, out, col, rng, chunks_tab, pid, level)
        if pid == "C06" and (tier == "thorough" or rng.random() < 0.25):
            roundtrip_exactness(cfg, out, col, rng)
        res["configs"] += 1
        ukey = "length 2^%d, data 2^%d, covariance 2^%d" % (cfg["lunit"], cfg["vunit"][0], cfg["vunit"][1])
        res.setdefault("units", {})[ukey] = res.setdefault("units", {}).get(ukey, 0) + 1
        res["rejected"] += out["status"] == "Rejected"
        res["merged"] += bool(out["merged"])
        if out["status"] == "ok":
            res["nontrivial"].add(hashlib.md5(repr(tlaval.freeze(cfg)).encode()).hexdigest())  # hash(-1) == hash(-2)
        if len(res["samples"]) < 1 and out["status"] == "ok" and (rng.random() < 0.05 or b is blocks[-1]):
            res["samples"].append({"cfg": cfg, "tlc_expected": {k: out[k] for k in ("field", "var", "meanfield", "gmean", "det", "dd")}})
    res["calls"] = col.calls
    res["violations"] = col.violations
    res["drift"] = col.drift
    res["unit_stats"] = getattr(col, "unit_stats", 0.0)
    return res


def _work(item):
    kind, job = item
    if kind == "gen":
        return _replay_job(job)
    if kind == "hist":
        return _replay_hist_job(job)
    col = _Collect()
    rng = random.Random(job[0])
    try:
        if kind == "fit":
            stats, name = fitted_normalizer_relation(col, rng, job[1]), "fitted_normalizer"
        elif kind == "vfit":
            stats, name = fitted_variogram_relation(col, rng, job[1]), "fitted_variogram"
        else:
            stats, name = duplicates_large_relation(col, rng, job[1]), "duplicates_large"
    except Exception as e:  # noqa: BLE001
        import traceback

        raise RuntimeError("relation worker %s failed:\n%s" % (kind, traceback.format_exc())) from e
    return {"tag": kind, "configs": stats["cases"], "nontrivial": {"%s:%d:%d" % (kind, job[0], i) for i in range(stats["cases"])},
            "samples": [], "rejected": 0, "merged": 0, "calls": col.calls, "violations": col.violations, "drift": col.drift,
            "relation": name, "stats": stats}


# ---------------------------------------------------------------------------
# auxiliary numeric cross-check (never deciding)


def aux_numeric(rng, count):
    import gstools as gs
    from scipy.spatial.distance import cdist

    nprng = np.random.default_rng(rng.randrange(2**31))
    worst, bad, done = 0.0, 0, 0
    specs = [("Gaussian", {}), ("Exponential", {}), ("Matern", {"nu": 1.5}), ("Stable", {"alpha": 1.5}),
             ("Spherical", {}), ("Cubic", {}), ("Rational", {"alpha": 2.0})]
    for _ in range(count):
        name, kw = specs[rng.randrange(len(specs))]
        mode = rng.choice(["iso", "anis", "latlon"])
        n = rng.randrange(4, 9)
        if mode == "latlon":
            model = getattr(gs, name)(latlon=True, var=rng.choice([0.5, 2.0]), len_scale=rng.choice([10.0, 30.0]),
                                      nugget=rng.choice([0.0, 0.1]), **kw)
            pos = np.vstack([nprng.uniform(-60, 60, n), nprng.uniform(-170, 170, n)])
            tgt = np.vstack([nprng.uniform(-60, 60, 5), nprng.uniform(-170, 170, 5)])
            dim = 2
        else:
            dim = rng.randrange(1, 4)
            akw = {}
            if mode == "anis" and dim > 1:
                akw = dict(anis=[rng.choice([0.5, 0.25])] * (dim - 1), angles=[rng.uniform(0, 3)] * (1 if dim == 2 else 3))
            model = getattr(gs, name)(dim=dim, var=rng.choice([0.5, 2.0]), len_scale=rng.choice([1.0, 3.0]),
                                      nugget=rng.choice([0.0, 0.1]), **akw, **kw)
            pos = nprng.uniform(0, 5, (dim, n))
            tgt = nprng.uniform(0, 5, (dim, 5))
        val = nprng.normal(size=n)
        unb = rng.random() < 0.5
        exact = rng.random() < 0.5
        k = gs.krige.Krige(model, pos, val, unbiased=unb, exact=exact, mean=None if unb else 0.3)
        f, v = k(tgt)
        ip, it = model.isometrize(pos), model.isometrize(tgt)
        C = model.covariance(cdist(ip.T, ip.T)) + model.nugget * np.eye(n)
        d = cdist(ip.T, it.T)
        kk = model.cov_nugget(d) if exact else model.covariance(d)
        if unb:
            K = np.zeros((n + 1, n + 1))
            K[:n, :n], K[n, :n], K[:n, n] = C, 1, 1
            R = np.vstack([kk, np.ones((1, 5))])
            z = np.append(val, 0.0)
            mean = 0.0
        else:
            K, R, z, mean = C, kk, val - 0.3, 0.3
        if np.linalg.cond(K) > 1e6:
            continue
        X = np.linalg.solve(K, R)
        fe = z @ X + mean
        ve = np.maximum(model.sill - np.sum(X * R, axis=0), 0)
        dmax = float(max(np.max(np.abs(fe - f) / np.maximum(1.0, np.abs(fe))), np.max(np.abs(ve - v))))
        worst = max(worst, dmax)
        bad += dmax > 1e-7
        done += 1
    return {"label": "aux_numeric (numpy.linalg.solve on the documented layout with the implementation's own covariance; "
                     "never decides a verdict)", "cases": done, "condition_number_below": 1e6, "max_relative_difference": worst, "above_1e-7": int(bad)}


# ---------------------------------------------------------------------------


def _do_replay_file(path):
    rp = json.load(open(path))["replay"]
    cfg = rp["cfg"]
    print("configuration:", json.dumps(cfg))
    print("expected (TLC):", json.dumps(rp.get("expected")))
    ex = rp.get("expected") or {}
    for key in ("field", "var", "meanfield"):
        if ex.get(key):
            print("expected %s as floats: %s" % (key, [float(fr(q)) for q in ex[key]]))
    print("failing mode:", rp.get("mode"), "| observed:", rp.get("observed"), "| expected:", rp.get("expected_value"),
          "| localisation:", rp.get("localisation"))
    Capture.install()
    out = dict(rp.get("expected") or {})
    out.setdefault("edc", [])
    out.setdefault("edt", [])
    # external drift values are a function of the position (ExtVal in the spec)
    ext = {"bowl": lambda p: min((p[0] - 2) ** 2, 9), "alt": lambda p: p[0] % 2}.get(cfg.get("ext"))
    if ext:
        out["edc"], out["edt"] = [ext(p) for p in cfg["pos"]], [ext(p) for p in cfg["tgt"]]
    try:
        k, _ = build(cfg, out, perm=rp.get("cond_perm"), flavour=rp.get("flavour", 0),
                     lognormal=str(rp.get("mode", "")).startswith("LogNormal"))
    except Exception as e:  # noqa: BLE001
        print("construction raised", repr(e))
        return 0
    idx = rp.get("targets") or list(range(len(cfg["tgt"])))
    f, v = call(k, cfg, out, idx, chunk=rp.get("chunk_size"))
    print("targets:", [cfg["tgt"][i] for i in idx])
    print("field   :", list(map(float, f)))
    print("variance:", list(map(float, v)))
    print("get_mean:", k.get_mean())
    return 0


def run(pid, tier, seed, replay=None):
    if replay:
        return _do_replay_file(replay)
    rep = Report(pid, tier, seed)
    rng = random.Random(seed)
    thorough = tier == "thorough"
    rep.assumptions += [
        "lattice: integer positions (1-D; 2-D on 3-4-5 layouts; space+time with anis 1/4), Linear/Spherical/Cubic models with "
        "integer length scale so that every occurring correlation is a rational computed by TLC; values in -2..2; "
        "variance in {1,2}, nugget in {0,1}; measurement errors <= nugget (documented precondition)",
        "units: every gen job runs in one unit combination (length 2^{0,-30,-40,30} on positions, targets and len_scale; data "
        "2^{0,-30,20} on values/mean/trend; covariance 2^{0,-15,10} on variance/nugget/errors); TLC's rationals are unit independent "
        "(theorems LengthUnitInvariant / ValueUnitScaling), results are divided by the exact power of two before comparison and "
        "additionally compared with the unit-1 run of the implementation at 1e-12; a unit stays 1 where it would enter the kriging "
        "matrix unevenly (functional drift rows / covariance block against constraint rows: numerically singular, excluded by the property)",
        "identity normalizer in the exact part; LogNormal is bound through exp() of TLC's rational (C05) and through the "
        "exactness relation at 1e-8 (C06, also BoxCox)",
        "singular systems are excluded except coincident points with zero error (expected result = merged system); "
        "exact=True with coincident points and a nugget is left open",
    ]
    with tlc.Scratch() as sc:
        jobs = plan(pid, tier, rng) + plan_hist(pid, tier, rng)
        tjobs = []
        for j in jobs:
            if j["kind"] != "table":
                sc.write("MC_%s.tla" % j["tag"], j["mod"])
            kw = dict(workers=1, timeout=3000 if thorough else 600, heap="2g")
            if j["kind"] == "gen":
                kw["dump"] = ("states", sc.path(j["tag"]))
            elif j["kind"] == "hist":
                kw["dump"] = ("dot", sc.path(j["tag"] + ".dot"))
            elif j["kind"] == "table":
                kw["dump"] = ("states", sc.path(j["tag"] + "_tab"))
            tjobs.append((j["tag"] + ("#tab" if j["kind"] == "table" else ""), sc, "MC_" + j["tag"], j["cfg"], kw))
        sc.write("MC_KrigeChunks.tla", CHUNK_MOD)
        tjobs.append(("chunks", sc, "MC_KrigeChunks", CHUNK_CFG,
                      dict(workers=1, timeout=600, heap="1g", dump=("states", sc.path("chunks")))))
        t0 = time.time()
        par = int(os.environ.get("VERIF_PAR", "14"))
        results = tlc.run_many(tjobs, parallel=par)
        print("TLC: %d jobs in %.1fs" % (len(tjobs), time.time() - t0))
        for tag, r in sorted(results.items()):
            tlc.must_pass(r, tag)
            rep.add_tlc("KrigeSys[%s]" % tag, r)
            if r.error:
                rep.violation("design:%s" % r.error[1],
                              "the kriging equations on the exact family violate theorem %s (%s)" % (r.error[1], tag),
                              {"trace": tlc.error_trace(r)})
        # chunk table
        chunks_tab = {}
        for st in tlc.read_state_dump(sc.path("chunks.dump")):
            chunks_tab[(st["n"], st["cs"])] = [tuple(s) for s in st["slices"]]
        rep.extra["chunk_table_entries"] = len(chunks_tab)
        work = [("gen", (j["tag"], sc.path(j["tag"] + ".dump"), rng.randrange(2**31), chunks_tab, pid, tier, j["kind"]))
                for j in jobs if j["kind"] == "gen"]
        for j in jobs:
            if j["kind"] == "hist":
                hseed = rng.randrange(2**31)
                work += [("hist", (j["tag"], sc.path(j["tag"] + ".dot"), sc.path(j["tag"] + "_tab.dump"), hseed, pid, tier, i, 3))
                         for i in range(3)]
        if pid == "C06" and not os.environ.get("VERIF_ONLY"):
            nrel = 6 if thorough else 2
            work += [("fit", (rng.randrange(2**31), 50 if thorough else 20)) for _ in range(nrel)]
            work += [("dup", (rng.randrange(2**31), 40 if thorough else 12)) for _ in range(nrel)]
        if not os.environ.get("VERIF_ONLY"):
            work += [("vfit", (rng.randrange(2**31), 30 if thorough else 10)) for _ in range(6 if thorough else 3)]
        work.sort(key=lambda w: {"hist": 0, "gen": 1}.get(w[0], 2))
        import multiprocessing as mp

        t0 = time.time()
        nconf = nrej = nmerged = 0
        other = set()
        with mp.get_context("fork").Pool(min(par, len(work))) as pool:
            for res in pool.imap_unordered(_work, work):
                if res.get("relation"):
                    rel = rep.extra.setdefault("relation_" + res["relation"], {})
                    for k_, v_ in res["stats"].items():
                        rel[k_] = max(rel.get(k_, 0.0), v_) if k_.startswith("max_") else rel.get(k_, 0) + v_
                if res.get("steps"):
                    rep.extra["history_steps_on_real_objects"] = rep.extra.get("history_steps_on_real_objects", 0) + res["steps"]
                    rep.extra["histories_replayed"] = rep.extra.get("histories_replayed", 0) + res["configs"]
                for k_, v_ in res.get("units", {}).items():
                    uu = rep.extra.setdefault("configurations_per_unit", {})
                    uu[k_] = uu.get(k_, 0) + v_
                rep.extra["unit_relation_max_difference_over_1e-12"] = max(
                    rep.extra.get("unit_relation_max_difference_over_1e-12", 0.0), res.get("unit_stats", 0.0))
                nconf += res["configs"]
                nrej += res["rejected"]
                nmerged += res["merged"]
                rep.traces += res["configs"]
                rep.evaluations += res["calls"]
                rep.nontrivial |= res["nontrivial"]
                for smp in res["samples"]:
                    rep.sample(smp, cap=6)
                for prop, key, what, rp in res["violations"]:
                    if prop == pid:
                        rep.violation(key, what, rp)
                    elif key not in other:
                        other.add(key)
                        if len(other) <= 5:
                            rep.note("(belongs to %s, decided there) %s: %s" % (prop, key, what))
                for m in res["drift"]:
                    rep.drift_msg(m)
        print("replay: %d configurations / histories in %.1fs" % (nconf, time.time() - t0))
        for k_ in ("relation_fitted_normalizer", "relation_duplicates_large", "relation_fitted_variogram"):
            if rep.extra.get(k_, {}).get("inconclusive"):
                rep.note("%s: %d cases inconclusive (ill-conditioned system), not judged" % (k_, rep.extra[k_]["inconclusive"]))
        rep.extra["configurations_replayed"] = nconf
        rep.extra["rejected_configurations"] = nrej
        rep.extra["merged_duplicate_configurations"] = nmerged
        rep.extra["violations_of_the_sibling_property_seen"] = len(other)
        if pid == "C05":
            rep.extra["aux_numeric"] = aux_numeric(rng, 300 if thorough else 80)
            if rep.extra["aux_numeric"]["above_1e-7"]:
                rep.note("aux_numeric: %d auxiliary numpy cross-checks differ by more than 1e-7 (informational)"
                         % rep.extra["aux_numeric"]["above_1e-7"])
    return rep.finish(
        level="model_checking",
        rule="configurations = TLC-enumerated (variant x model family x conditioning layout x values x nugget x exact x "
             "measurement error) with TLC-computed rational results; each is built as the real kriging object and called in "
             "several modes (inversion routines, chunk sizes, permuted targets/conditions, structured, return_var, only_mean, "
             "get_mean, LogNormal); histories = edge cover of TLC's state graph of KrigeSysHist (attribute re-assignments, in-place "
             "model changes, set_condition() refresh; the object is evaluated with and without variance in every state); "
             "C06 additionally: relations on random lattice layouts (fitted normalizers, 40-80 points with coincident copies); "
             "evaluations = compared real calls; distinct non-trivial = distinct non-rejected "
             "configurations (md5 of the configuration record) + distinct histories + relation cases",
        exhaustive=False)
