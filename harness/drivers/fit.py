"""C10: Fit.tla / TraceFit.tla bound to CovModel.fit_variogram.

1. design check + generation: TLC explores the joint machine of Fit.tla (documented
   semantics, code-shaped transcription of covmodel/fit.py, optimiser = adversary) for every
   configuration (selection x sill mode x anis mode x bounds x isotropic/directional/lat-lon)
   and checks the invariants of the documented semantics (IdealSound, IdealPreLegal) and
   LastEvalDecides.  The end states carry the set of admissible outcomes (`iends`), the outcome
   of the transcription (`cend`) and their difference (`disc`).
2. adversary on the real code: every dumped behaviour (evaluation vectors, returned optimum)
   is executed through the real `model.fit_variogram` with `gstools.covmodel.fit.curve_fit`
   replaced by an optimiser that evaluates the closure at exactly these vectors and returns
   exactly this optimum.  The real outcome must be one of TLC's admissible outcomes
   (VIOLATION otherwise); a difference to the transcription is DRIFT.
3. real optimiser: every configuration TLC enumerated is run once through the real scipy
   optimiser on exact synthetic data of the same model family (init_guess x weights x method x
   loss cycled); the clauses of the property are checked with TLC's preprocessing outcome, and
   the recorded curve_fit traffic is validated by TraceFit.tla on fixed-point images of the
   floats.  r2 / parameter errors are auxiliary numbers.

Violation signatures: <observable>:<std|TPL>[:<sill|nosill>:<var-fitted|var-not-fitted>]
(observable = sill-identity | untouched:<arg> | fitted:<arg> | dict:<arg> | bounds:<arg> |
error:spurious[:<arg>-bounds] | error:missing | error:in-box | accepted:out-of-bounds).
`./check C10 --replay <file>` re-executes a recorded case and prints the real outcome.
VERIF_ONLY=<job,...> restricts the jobs (development aid).
"""
PROPERTIES = ("C10",)

import copy
import json
import os
import random
import re
import time
import warnings
from fractions import Fraction

import numpy as np

from .. import tlc, tlaval
from ..report import Report

U = 64
INF = 1000000
ARGS = ("var", "len", "nug", "opt")

# ---------------------------------------------------------------------------
# the lattice (units of 1/64) and the jobs TLC explores

PRE = dict(var=72, len=32, nug=8, opt=80)
FIXV = dict(var=88, len=256, nug=24, opt=112)
PRE_ANIS = {1: [], 2: [40], 3: [40, 24], 4: [40, 24, 48]}
FIX_ANIS = {1: [], 2: [56], 3: [56, 88], 4: [56, 88, 72]}
CAND = dict(var=[48, 80, 120], len=[64, 128], nug=[0, 16, 48], opt=[64, 96], anis=[32, 80])
CANDEV = dict(var=[48, 120], len=[128], nug=[16], opt=[96], anis=[80])
CANDEV2 = dict(var=[48, 80, 120], len=[64, 128], nug=[16, 48], opt=[64, 96], anis=[32, 80])

REAL = {"Plain": ("Exponential", "Gaussian"), "Opt": ("Stable",), "TPL": ("TPLGaussian",), "TPLH": ("TPLGaussian",)}
OPTNAME = {"Opt": "alpha", "TPL": "len_low", "TPLH": "hurst"}
# the optional argument of the TPL classes that is NOT the spec's `opt`: always deselected, must stay untouched
TPL_OTHER = {"TPL": ("hurst", 0.5), "TPLH": ("len_low", 0.0)}
OPT_DEFAULT_B = {"Plain": (0, 128, False, True), "Opt": (0, 128, False, True), "TPL": (0, INF, True, True),
                 "TPLH": (0, 64, False, False)}
# class TPLH (opt = hurst in {1/4, 1/2}, len_low = 0, rescale = 1): var_factor = len^(2h)/(2h) is exact for
# len in {1/4, 1, 4}; variances / nuggets are multiples of 1/4 so that every dragged variance stays on the lattice
LATTICE_TPLH = dict(
    pre=dict(var=80, len=16, nug=16, opt=32), fix=dict(var=96, len=256, nug=32, opt=16),
    cand=dict(var=[48, 64, 112], len=[64, 256], nug=[0, 16, 48], opt=[16, 32], anis=[32, 80]),
    candev=dict(var=[48, 112], len=[256], nug=[16], opt=[16], anis=[80]),
    candev2=dict(var=[48, 64, 112], len=[64, 256], nug=[16, 48], opt=[16, 32], anis=[32, 80]),
    sills=[("none", 0), ("false", 0), ("val", 128), ("val", 96), ("val", 64)])


def is_tpl(c):
    return c["cls"].startswith("TPL")


def tpl_factor(cls, l, o):
    """var_factor in units of 1/64 (mirror of IntFactor in the MC modules; drift level only)"""
    if cls == "TPL" or o == 32:
        return l
    return {16: 64, 64: 128, 256: 256}[l]

BVAR = ("var", (32, 112, True, True))
BNUG = ("nug", (4, 48, True, True))
BLEN = ("len", (16, 320, True, True))
BOPT = ("opt", (72, 120, True, True))
BANIS = ("anis", (24, 96, True, True))
# TPL models: keep the optimiser away from len_scale -> 0 / len_low -> inf where var_factor degenerates
BTPL = (("len", (16, 512, True, True)), ("opt", (0, 512, True, True)))

ALL_SILL = [("none", 0), ("true", 0), ("false", 0), ("val", 128), ("val", 88), ("val", 64), ("val", 16), ("val", -64)]


def jobs_for(tier):
    """(name, dict) list.  dict: cls, real, dim, dirs, latlon, sills, anis kinds, bounds variants
    (each a tuple of (argument, bounds) that differ from the defaults), errors."""
    thorough = tier == "thorough"
    some = [("none", 0), ("false", 0), ("val", 128), ("val", 64)]
    js = []
    js.append(("Plain1", dict(cls="Plain", real="Gaussian", dim=1, dirs=[False], latlon=False, sills=ALL_SILL,
                              anis=["fit", "off"], bnds=[(), (BVAR,), (BNUG,), (BLEN,)], errors=True)))
    js.append(("Plain2", dict(cls="Plain", real="Exponential", dim=2, dirs=[False, True], latlon=False,
                              sills=ALL_SILL, anis=["fit", "off", "fix"],
                              bnds=[(), (BVAR,), (BNUG,)] + ([(BANIS,), (BLEN,), (BVAR, BNUG)] if thorough else []))))
    js.append(("Plain3", dict(cls="Plain", real="Gaussian" if thorough else "Exponential", dim=3, dirs=[True],
                              latlon=False, sills=ALL_SILL if thorough else [("none", 0), ("false", 0), ("val", 128)],
                              anis=["fit", "off", "fix"], bnds=[(), (BANIS,)] if thorough else [()])))
    js.append(("PlainLL", dict(cls="Plain", real="Exponential", dim=3, dirs=[False, True], latlon=True,
                               sills=ALL_SILL, anis=["fit", "off"], bnds=[(), (BVAR,)])))
    js.append(("Opt2", dict(cls="Opt", real="Stable", dim=2, dirs=[False, True], latlon=False,
                            sills=ALL_SILL if thorough else some,
                            anis=["fit", "off", "fix"] if thorough else ["fit", "off"],
                            bnds=[(), (BOPT,)] + ([(BVAR,), (BNUG,)] if thorough else []))))
    js.append(("TPL2", dict(cls="TPL", real="TPLGaussian", dim=2, dirs=[False, True] if thorough else [False],
                            latlon=False, sills=ALL_SILL if thorough else some,
                            anis=["fit", "off"],
                            bnds=[BTPL, BTPL + (BNUG,), BTPL + (BVAR,)])))
    js.append(("TPLH2", dict(cls="TPLH", real="TPLGaussian", dim=2, dirs=[False, True] if thorough else [False],
                             latlon=False, sills=LATTICE_TPLH["sills"], anis=["fit", "off"],
                             bnds=[(("len", (16, 512, True, True)),)], lattice=LATTICE_TPLH)))
    # metric spatio-temporal models: dim = spatial_dim + 1, all dim - 1 ratios are fitted / fixed / kept
    js.append(("PlainT3", dict(cls="Plain", real="Exponential", dim=3, dirs=[True, False] if thorough else [True],
                               latlon=False, temporal=True,
                               sills=ALL_SILL if thorough else [("none", 0), ("false", 0), ("val", 128)],
                               anis=["fit", "off", "fix"], bnds=[()])))
    # spellings of the arguments (dtype / container) as an input class; well-posed selections only
    xs_all, ys_all, ws_all = ["f64", "i64", "list", "f32"], ["f64", "list", "f32"], ["none", "arr", "list"]
    sel_sp = dict(var=[0, 1], len=[0], nug=[0, 2], opt=[0])     # indices into the selection sets
    def spells(xs):
        full = [(x, y, w) for x in xs for y in ys_all for w in ws_all]
        if thorough:
            return full
        # quick: every spelling of one argument with the others plain, plus a few mixtures
        star = [(x, "f64", "none") for x in xs] + [("f64", y, "none") for y in ys_all] + \
               [("f64", "f64", w) for w in ws_all] + [(xs[1], "list", "arr"), ("list", "f32", "list"),
                                                      ("f32", "list", "arr"), (xs[1], "f32", "none")]
        return [sp for sp in full if sp in star]

    js.append(("Spell2", dict(cls="Plain", real="Exponential", dim=2, dirs=[False, True], latlon=False,
                              sills=[("none", 0), ("val", 128)], anis=["fit", "off"], bnds=[()], sel_idx=sel_sp,
                              spells=spells(xs_all))))
    js.append(("SpellLL", dict(cls="Plain", real="Gaussian", dim=3, dirs=[False], latlon=True,
                               sills=[("none", 0), ("val", 128)], anis=["fit"], bnds=[()], sel_idx=sel_sp,
                               spells=spells(["f64", "list", "f32"]))))
    if thorough:
        js.append(("Spell3T", dict(cls="Plain", real="Gaussian", dim=3, dirs=[True], latlon=False, temporal=True,
                                   sills=[("none", 0), ("val", 128)], anis=["fit", "off"], bnds=[()], sel_idx=sel_sp,
                                   spells=[(x, y, w) for x in xs_all for y in ys_all for w in ["none", "arr"]])))
        js.append(("PlainT4", dict(cls="Plain", real="Gaussian", dim=4, dirs=[True], latlon=False, temporal=True,
                                   sills=[("none", 0), ("val", 128)], anis=["fit", "off", "fix"], bnds=[()])))
        js.append(("Opt3", dict(cls="Opt", real="Stable", dim=3, dirs=[True], latlon=False,
                                sills=[("none", 0), ("false", 0), ("val", 128)], anis=["fit", "off", "fix"],
                                bnds=[()])))
    return js


def _b(t):
    return "B(%d, %d, %s, %s)" % (t[0], t[1], "TRUE" if t[2] else "FALSE", "TRUE" if t[3] else "FALSE")


def _rec(d):
    return "[" + ", ".join("%s |-> %s" % (k, v) for k, v in d.items()) + "]"


def _set(xs):
    return "{" + ", ".join(xs) + "}"


def _seq(xs):
    return "<<" + ", ".join(str(x) for x in xs) + ">>"


INT_OPS = r'''U == 64
INF == 1000000
IntPlus(a, b) == a + b
IntMinus(a, b) == a - b
IntLe(a, b) == a <= b
IntSame(a, b) == a = b
IntFactor(k, l, o) ==   \* var_factor of the TPL classes in units of 1/64
  IF k = "TPL" \/ o = 32 THEN l
  ELSE IF o = 16 /\ l \in {16, 64, 256} THEN (CASE l = 16 -> 64 [] l = 64 -> 128 [] l = 256 -> 256)
  ELSE Assert(FALSE, <<"var_factor not on the lattice", k, l, o>>)
IntVarOfRaw(k, r, l, o) == LET f == IntFactor(k, l, o) IN
  IF (r * f) % U = 0 THEN (r * f) \div U ELSE Assert(FALSE, <<"inexact product", r, f>>)
IntRawOfVar(k, v, l, o) == LET f == IntFactor(k, l, o) IN
  IF (v * U) % f = 0 THEN (v * U) \div f ELSE Assert(FALSE, <<"inexact quotient", v, f>>)
B(lo, hi, lc, hc) == [lo |-> lo, hi |-> hi, lc |-> lc, hc |-> hc]
S(k, v) == [k |-> k, v |-> v]
'''
INT_CFG = ("CONSTANTS\n Plus <- IntPlus\n Minus <- IntMinus\n Le <- IntLe\n Same <- IntSame\n"
           " VarOfRaw <- IntVarOfRaw\n RawOfVar <- IntRawOfVar\n Cfgs <- McCfgs\n Cand <- McCand\n"
           " CandEv <- McCandEv\n")


def mc_module(name, job, maxev=1, candev=None):
    cls, dim = job["cls"], job["dim"]
    lat = job.get("lattice", {})
    PRE_, FIX_ = lat.get("pre", PRE), lat.get("fix", FIXV)
    defb = dict(var=(0, INF, False, False), len=(0, INF, False, False), nug=(0, INF, True, False),
                opt=OPT_DEFAULT_B[cls], anis=(0, INF, False, False))
    bsets = []
    for bv in job["bnds"]:
        d = dict(defb)
        for arg, bb in bv:
            d[arg] = bb
        bsets.append(_rec({k: _b(v) for k, v in d.items()}))
    sel = {
        "var": ['S("fit", 0)', 'S("off", 0)', 'S("fix", %d)' % FIX_["var"], 'S("fix", 0)'],
        "len": ['S("fit", 0)', 'S("off", 0)', 'S("fix", %d)' % FIX_["len"]],
        "nug": ['S("fit", 0)', 'S("off", 0)', 'S("fix", %d)' % FIX_["nug"]],
        "opt": ['S("fit", 0)', 'S("off", 0)', 'S("fix", %d)' % FIX_["opt"]] if cls != "Plain" else ['S("off", 0)'],
    }
    for a, idx in job.get("sel_idx", {}).items():
        sel[a] = [sel[a][i] for i in idx if i < len(sel[a])]
    spells = [_rec({"x": '"%s"' % x, "y": '"%s"' % y, "w": '"%s"' % w})
              for x, y, w in job.get("spells", [("f64", "f64", "-")])]
    anis = []
    for k in job["anis"]:
        anis.append(_rec({"k": '"%s"' % k, "v": _seq(FIX_ANIS[dim]) if k == "fix" else "<<>>"}))
    pre = _rec({"var": PRE_["var"], "len": PRE_["len"], "nug": PRE_["nug"], "opt": PRE_["opt"],
                "anis": _seq([U, U] if job["latlon"] else PRE_ANIS[dim])})
    base = ('[cls |-> "%s", dim |-> %d, dir |-> d, latlon |-> %s, temporal |-> %s, pre |-> %s, bnd |-> b, '
            'sel |-> [var |-> sv, len |-> sl, nug |-> sn, opt |-> so], sill |-> si, anis |-> an, '
            'spell |-> sp, unknown |-> un, methodok |-> mo]' % (cls, dim, "TRUE" if job["latlon"] else "FALSE",
                                                   "TRUE" if job.get("temporal") else "FALSE", pre))
    main = ("{%s : d \\in %s, sv \\in %s, sl \\in %s, sn \\in %s, so \\in %s, si \\in %s, an \\in %s, b \\in %s, "
            "sp \\in %s, un \\in {FALSE}, mo \\in {TRUE}}" % (
                base, _set("TRUE" if x else "FALSE" for x in job["dirs"]), _set(sel["var"]), _set(sel["len"]),
                _set(sel["nug"]), _set(sel["opt"]), _set('S("%s", %d)' % s for s in job["sills"]), _set(anis),
                _set(bsets), _set(spells)))
    sets = [main]
    if job.get("errors"):
        sets.append("{%s : d \\in {FALSE}, sv \\in %s, sl \\in {S(\"fit\", 0)}, sn \\in %s, so \\in %s, "
                    "si \\in {S(\"none\", 0), S(\"val\", 128)}, an \\in %s, b \\in {%s}, "
                    "sp \\in {[x |-> \"f64\", y |-> \"f64\", w |-> \"-\"]}, un \\in BOOLEAN, mo \\in BOOLEAN}" % (
                        base, _set(sel["var"][:3]), _set(sel["nug"][:2]), _set(sel["opt"][:1]), _set(anis[:1]),
                        bsets[0]))
    ce = candev or lat.get("candev", CANDEV)
    txt = "---- MODULE %s ----\nEXTENDS Fit\n%s" % (name, INT_OPS)
    txt += "McAll == " + " \\cup\n  ".join(sets) + "\n"
    # weights given as a list together with directional data raise AttributeError on the current tree
    # ('list' object has no attribute 'size' in _set_weights): outside C10, excluded from the input class
    txt += "McCfgs == {c \\in McAll : PreLegal(c) /\\ ~(c.dir /\\ c.spell.w = \"list\")}\n"
    txt += "McCand == " + _rec({k: _set(str(x) for x in v) for k, v in lat.get("cand", CAND).items()}) + "\n"
    txt += "McCandEv == " + _rec({k: _set(str(x) for x in v) for k, v in ce.items()}) + "\n====\n"
    cfg = INT_CFG + " MaxEv = %d\n InfTail = TRUE\nINIT Init\nNEXT Next\n" % maxev
    cfg += "INVARIANT IdealSound\nINVARIANT IdealPreLegal\nINVARIANT LastEvalDecides\nINVARIANT ImplConforms\n"
    cfg += "INVARIANT SpellingIrrelevant\n"
    return txt, cfg


# ---------------------------------------------------------------------------
# reading TLC's dump quickly (states are large; configurations repeat)

_VAR_SPLIT = re.compile(r"(?m)^/\\ (\w+) = ")


def split_state(block):
    """state block -> {variable: text}"""
    parts = _VAR_SPLIT.split(block)
    out = {}
    for i in range(1, len(parts) - 1, 2):
        out[parts[i]] = parts[i + 1].strip()
    return out


class _Cache(dict):
    def get_parsed(self, text):
        v = self.get(text)
        if v is None:
            v = self[text] = tlaval.parse(text)
        return v


def parse_pre(block):
    """state right after PrePara -> (configuration, ideal alternatives)"""
    sv = split_state(block)
    return tlaval.parse(sv["cfg"]), [dict(a) for a in _thaw(tlaval.parse(sv["ialts"]))]


def read_dump(path):
    with open(path) as fh:
        txt = fh.read()
    return [b for b in re.split(r"(?m)^State \d+:\n", txt) if b.strip()]


# ---------------------------------------------------------------------------
# abstraction function: spec configuration -> real model and real call


def q2f(q):
    return np.inf if q >= INF else q / U


_TEMPLATES = {}


def _template(real, c):
    """a real model in the pre-fit state of configuration c (default bounds); cached"""
    import gstools as gs

    pre = c["pre"]
    key = (real, c["cls"], c["dim"], c["latlon"], c.get("temporal", False), tlaval.freeze(pre))
    if key not in _TEMPLATES:
        dim = c["dim"]
        kw = dict(var=q2f(pre["var"]), len_scale=q2f(pre["len"]), nugget=q2f(pre["nug"]))
        if c["latlon"]:
            kw.update(latlon=True)
        else:
            if c.get("temporal"):
                kw.update(temporal=True, spatial_dim=dim - 1)
                sdim = dim - 1
            else:
                kw.update(dim=dim)
                sdim = dim
            if dim > 1:
                kw.update(anis=[q2f(a) for a in pre["anis"]])
            if sdim > 1:
                kw.update(angles=[0.25] + [0.0] * (sdim * (sdim - 1) // 2 - 1))
        if c["cls"] == "Opt":
            kw["alpha"] = q2f(pre["opt"])
        if c["cls"] == "TPL":
            kw.update(hurst=0.5, len_low=q2f(pre["opt"]), rescale=1.0)
        if c["cls"] == "TPLH":
            kw.update(hurst=q2f(pre["opt"]), len_low=0.0, rescale=1.0)
        with warnings.catch_warnings():
            warnings.simplefilter("ignore")
            _TEMPLATES[key] = getattr(gs, real)(**kw)
    return _TEMPLATES[key]


def real_bounds(b):
    return [q2f(b["lo"]), q2f(b["hi"]), ("c" if b["lc"] else "o") + ("c" if b["hc"] else "o")]


def default_bounds(c):
    d = dict(var=(0, INF, False, False), len=(0, INF, False, False), nug=(0, INF, True, False),
             opt=OPT_DEFAULT_B[c["cls"]], anis=(0, INF, False, False))
    return {k: dict(lo=v[0], hi=v[1], lc=v[2], hc=v[3]) for k, v in d.items()}


def build_model(c, real):
    """A fresh real model in the pre-fit state of configuration c."""
    m = copy.deepcopy(_template(real, c))
    names = {"var": "var", "len": "len_scale", "nug": "nugget", "opt": OPTNAME.get(c["cls"]), "anis": "anis"}
    custom = {}
    for a, b in c["bnd"].items():
        if dict(b) != default_bounds(c)[a] and names[a]:
            custom[names[a]] = real_bounds(b)
    if custom:
        m.set_arg_bounds(check_args=False, **custom)
    return m


def _num(v, alt):
    """surface form of a value: float, or int when integral and `alt`"""
    f = q2f(v)
    return int(f) if alt and f == int(f) else float(f)


def build_kwargs(c, alt=0):
    """keyword arguments of fit_variogram for the bookkeeping part of configuration c."""
    kw = {}
    names = {"var": "var", "len": "len_scale", "nug": "nugget", "opt": OPTNAME.get(c["cls"])}
    for i, a in enumerate(ARGS):
        s = c["sel"][a]
        if names[a] is None:
            continue
        if s["k"] == "fit":
            if (alt + i) % 2:
                kw[names[a]] = True
        elif s["k"] == "off":
            kw[names[a]] = False
        else:
            kw[names[a]] = _num(s["v"], alt % 2)
    if is_tpl(c):
        kw[TPL_OTHER[c["cls"]][0]] = False
    k = c["sill"]["k"]
    if k == "none":
        if alt % 2:
            kw["sill"] = None
    elif k == "true":
        kw["sill"] = True
    elif k == "false":
        kw["sill"] = False
    else:
        kw["sill"] = _num(c["sill"]["v"], alt % 2)
    k = c["anis"]["k"]
    if k == "fit":
        if alt % 3 == 0:
            kw["anis"] = True
    elif k == "off":
        kw["anis"] = False
    else:
        v = [q2f(a) for a in c["anis"]["v"]]
        kw["anis"] = v[0] if (len(v) == 1 and alt % 2) else (np.array(v) if alt % 3 == 1 else v)
    if c["unknown"]:
        kw["angles" if alt % 2 else "len_scal"] = False
    if not c["methodok"]:
        kw["method"] = "lm"
    return kw


def vec_names(para, fanis, dim):
    out = [a for a in ARGS if para[a]]
    return out + (["anis"] * (dim - 1) if fanis else [])


def vec_of(x, para, fanis, dim):
    """spec vector record -> argument list of the closure (floats)"""
    out = [q2f(x[a]) for a in ARGS if para[a]]
    if fanis:
        out += [q2f(a) for a in x["anis"]]
    return out


def project(m, c):
    """public state of a real model"""
    out = dict(var=float(m.var), len=float(m.len_scale), nug=float(m.nugget),
               anis=[float(a) for a in np.atleast_1d(m.anis)][: m.dim - 1],
               angles=[float(a) for a in np.atleast_1d(m.angles)], rescale=float(m.rescale), dim=m.dim)
    out["opt"] = float(getattr(m, OPTNAME[c["cls"]])) if c["cls"] in OPTNAME else q2f(c["pre"]["opt"])
    if is_tpl(c):
        out["tpl_other"] = float(getattr(m, TPL_OTHER[c["cls"]][0]))
    return out


def project_ret(ret, c):
    out = dict(var=float(ret["var"]), len=float(ret["len_scale"]), nug=float(ret["nugget"]))
    out["opt"] = float(ret[OPTNAME[c["cls"]]]) if c["cls"] in OPTNAME else q2f(c["pre"]["opt"])
    out["anis"] = [float(a) for a in np.atleast_1d(ret["anis"])] if "anis" in ret else None
    out["keys"] = sorted(ret)
    if is_tpl(c):
        out["tpl_other"] = float(ret[TPL_OTHER[c["cls"]][0]])
    return out


def expected_keys(c):
    ks = ["var", "len_scale", "nugget"]
    if c["cls"] == "Opt":
        ks.append("alpha")
    if is_tpl(c):
        ks += ["hurst", "len_low"]
    if c["dir"]:
        ks.append("anis")
    return sorted(ks)


def close(a, b, tol=1e-12):
    if a is None or b is None:
        return a is b
    if isinstance(a, (list, tuple)):
        return len(a) == len(b) and all(close(x, y, tol) for x, y in zip(a, b))
    if np.isinf(a) or np.isinf(b):
        return a == b
    return abs(a - b) <= tol * max(1.0, abs(a), abs(b))


# synthetic data ------------------------------------------------------------

TRUTHS = [dict(var=1.5, len=2.0, nug=0.5, opt=1.5, hurst=0.5, anis={1: [], 2: [0.5], 3: [0.5, 0.25], 4: [0.5, 0.25, 0.75]}),
          dict(var=1.875, len=1.0, nug=0.125, opt=1.0, hurst=0.25, anis={1: [], 2: [0.75], 3: [0.75, 0.5], 4: [0.75, 0.5, 0.25]})]
_DATA = {}


def data_for(c, real, which=0):
    """exact variogram values of a model of the same family (x, y, truth)"""
    import gstools as gs

    spelled = is_spelled(c)
    key = (real, c["cls"], c["dim"], c["latlon"], c.get("temporal", False), c["dir"], which, spelled)
    if key in _DATA:
        return _DATA[key]
    t = TRUTHS[which]
    kw = dict(var=t["var"], len_scale=t["len"], nugget=t["nug"])
    if c["cls"] == "Opt":
        kw["alpha"] = t["opt"]
    if c["cls"] == "TPL":
        kw.update(hurst=0.5, len_low=t["opt"], rescale=1.0)
    if c["cls"] == "TPLH":
        kw.update(hurst=t["hurst"], len_low=0.0, rescale=1.0)
    dimkw = dict(temporal=True, spatial_dim=c["dim"] - 1) if c.get("temporal") else dict(dim=c["dim"])
    with warnings.catch_warnings():
        warnings.simplefilter("ignore")
        if c["latlon"]:
            tm = getattr(gs, real)(latlon=True, **kw)
            x = np.arange(1, 13) * 0.125
            y = tm.vario_yadrenko(x)
            if c["dir"]:
                y = np.concatenate([y, y, y])
        elif c["dir"]:
            tm = getattr(gs, real)(anis=t["anis"][c["dim"]], **dimkw, **kw)
            x = np.arange(1, 9) * (1.0 if spelled else 0.5)
            y = np.concatenate([tm.vario_axis(x, axis=i) for i in range(c["dim"])])
        else:
            tm = getattr(gs, real)(**dimkw, **kw)
            x = np.arange(1, 13) * (1.0 if spelled else 0.5)
            y = tm.variogram(x)
    if spelled:
        # numbers that every spelling represents exactly: integer (lat-lon: dyadic) bin centers,
        # variogram values rounded to float32
        y = y.astype(np.float32).astype(np.float64)
    _DATA[key] = (x, y, t)
    return _DATA[key]


BASE_SPELL = {"x": "f64", "y": "f64", "w": "-"}


def is_spelled(c):
    return c.get("spell", BASE_SPELL)["w"] != "-"


def spell_args(c, x, y, spell=None):
    """the same numbers in the spelling of the configuration: (x, y, weights or None)"""
    sp = spell or c["spell"]
    intx = bool(np.all(x == np.round(x)))
    xs = {"f64": x, "i64": x.astype(np.int64) if intx else x,
          "list": [int(v) if intx else float(v) for v in x], "f32": x.astype(np.float32)}[sp["x"]]
    ys = {"f64": y, "list": [float(v) for v in y], "f32": y.astype(np.float32)}[sp["y"]]
    wb = 1.0 / (1.0 + np.arange(len(x)))
    ws = {"-": None, "none": None, "arr": wb, "list": [float(v) for v in wb]}[sp["w"]]
    return xs, ys, ws


def spell_level(c):
    """'exact': the implementation sees bit-identical float64 numbers, the result must be identical;
    'near': float32 numbers enter float32 arithmetic before the fit (mean of x times rescale and mean of y for
    the start vector, mean of y for SS_tot, great-circle -> chordal conversion of lat-lon bin centers):
    r2 agrees to 1e-3 and with its definition to 1e-6"""
    sp = c["spell"]
    return "near" if "f32" in (sp["x"], sp["y"]) else "exact"


def r2_definition(m, c, x, y):
    """1 - SS_res / SS_tot of model m on the float64 numbers (x, y), from the model's public variogram
    functions and plain Python sums (no array assembly of the code under test)"""
    import math

    x = np.asarray(x, dtype=np.float64)
    y = [float(v) for v in np.asarray(y, dtype=np.float64)]
    if c["latlon"]:
        v = [float(a) for a in m.vario_yadrenko(x)]
    elif c["dir"]:
        v = [float(a) for i in range(m.dim) for a in m.vario_axis(x, axis=i)]
    else:
        v = [float(a) for a in m.variogram(x)]
    if len(v) != len(y):
        return None
    mean = math.fsum(y) / len(y)
    ss_res = math.fsum((a - b) ** 2 for a, b in zip(y, v))
    ss_tot = math.fsum((a - mean) ** 2 for a in y)
    return 1.0 - ss_res / ss_tot


# ---------------------------------------------------------------------------
# executing one call with a substituted / recording optimiser


class _Skip(Exception):
    pass


class Call:
    """One execution of model.fit_variogram with gstools.covmodel.fit.curve_fit replaced."""

    def __init__(self, c, real, kwargs, data_which=0, spell=None):
        self.c, self.real = c, real
        self.kwargs = {k: (copy.deepcopy(v) if isinstance(v, dict) else v) for k, v in kwargs.items()}
        self.m = build_model(c, real)
        self.x64, self.y64, self.truth = data_for(c, real, data_which)
        self.x, self.y = self.x64, self.y64
        if is_spelled(c):
            self.x, self.y, w = spell_args(c, self.x64, self.y64, spell)
            self.kwargs.pop("weights", None)
            if w is not None:
                self.kwargs["weights"] = w
        self.pcov = None
        self.called = False
        self.lo = self.hi = self.p0 = None
        self.ready = None
        self.evals = []  # (args, raised, inf, after)
        self.popt = None
        self.exc = None
        self.exc_from = None
        self.final = self.ret = None
        self.r2 = None
        self.other_before = None

    def run(self, optimiser):
        """optimiser(call, f, xdata, ydata, p0, bounds, kw) -> (popt, pcov)"""
        import gstools.covmodel.fit as F

        call = self
        orig = F.curve_fit

        def patched(f, xdata, ydata, p0, bounds, **kw):
            call.called = True
            call.lo, call.hi = [float(v) for v in bounds[0]], [float(v) for v in bounds[1]]
            call.p0 = [float(v) for v in p0]
            call.ready = project(call.m, call.c)
            call.cf_kwargs = {k: (v if isinstance(v, (str, bool, int, float, type(None))) else type(v).__name__)
                              for k, v in kw.items()}

            def g(xx, *args):
                try:
                    out = f(xx, *args)
                except ValueError:
                    call.evals.append(([float(a) for a in args], True, False, None))
                    call.exc_from = "curve"
                    raise
                call.evals.append(([float(a) for a in args], False, bool(not np.all(np.isfinite(out))),
                                   project(call.m, call.c)))
                return out

            popt, pcov = optimiser(call, g, xdata, ydata, p0, bounds, kw, orig)
            call.popt = [float(v) for v in popt]
            return popt, pcov

        before = project(self.m, self.c)
        self.other_before = {k: before[k] for k in ("angles", "rescale", "dim") if k in before}
        F.curve_fit = patched
        try:
            with warnings.catch_warnings():
                warnings.simplefilter("ignore")
                out = self.m.fit_variogram(self.x, self.y, **self.kwargs)
            self.ret = project_ret(out[0], self.c)
            self.pcov = np.array(out[1], dtype=float)
            if len(out) > 2:
                self.r2 = float(out[2])
            self.final = project(self.m, self.c)
            self.st = "ok"
        except _Skip:
            self.st = "skip"
        except ValueError as e:
            self.st, self.exc = "error", repr(e)
            if self.exc_from is None:
                self.exc_from = "optimiser" if (self.called and self.popt is None) else (
                    "post" if self.called else "pre")
        except Exception as e:  # noqa: BLE001
            self.st, self.exc = "other", repr(e)
            if self.exc_from is None:
                self.exc_from = "optimiser" if (self.called and self.popt is None) else (
                    "post" if self.called else "pre")
        finally:
            F.curve_fit = orig
        return self


def adversary(evs, popt):
    def opt(call, g, xdata, ydata, p0, bounds, kw, orig):
        n = len(p0)
        if not evs and not popt:
            # the spec expected the call to end before the optimiser: behave like a trivial optimiser
            if n:
                g(xdata, *p0)
            return np.array(p0, dtype=float), np.zeros((n, n))
        for v in list(evs) + [popt]:
            if len(v) != n:
                raise _Skip("arity")
            if not all(lo <= a <= hi for a, lo, hi in zip(v, bounds[0], bounds[1])):
                raise _Skip("outside the box of the real code")
        for v in evs:
            g(xdata, *v)
        return np.array(popt, dtype=float), np.zeros((n, n))

    return opt


def trivial_optimiser(call, g, xdata, ydata, p0, bounds, kw, orig):
    """evaluates the start vector and returns it"""
    n = len(p0)
    if n:
        g(xdata, *p0)
    return np.array(p0, dtype=float), np.zeros((n, n))


def scipy_optimiser(call, g, xdata, ydata, p0, bounds, kw, orig):
    return orig(g, xdata, ydata, p0=p0, bounds=bounds, **kw)


# ---------------------------------------------------------------------------
# verdicts


def eff_fit(c, a):
    """is argument a handed to the optimiser (after the sill preprocessing)?"""
    cs = c["sill"]["k"] in ("false", "val")
    if a == "anis":
        return c["dir"] and c["anis"]["k"] == "fit"
    if a not in c["sel"] or c["sel"][a]["k"] != "fit":
        return False
    if a == "var":
        return not (cs and c["sel"]["nug"]["k"] != "fit")
    if a == "nug":
        return not cs
    return True


def cfg_class(c, cp=None):
    """coarse configuration class used in violation signatures"""
    fam = "TPL" if is_tpl(c) else "std"
    sill = "nosill" if c["sill"]["k"] in ("none", "true") else "sill"
    return "%s:%s:%s" % (fam, sill, "var-fitted" if eff_fit(c, "var") else "var-not-fitted")


def match_ideal(c, e, call, tol=1e-12):
    """None when the real outcome is the ideal end e, else (checks passed, first differing observable)."""
    if e["st"] == "any":
        return None
    if e["st"] == "error":
        return None if call.st == "error" else (0, "error:missing")
    if call.st != "ok":
        return (0, "error:spurious")
    if e["st"] == "success":
        return None
    exp = dict(var=q2f(e["m"]["var"]), len=q2f(e["m"]["len"]), nug=q2f(e["m"]["nug"]), opt=q2f(e["m"]["opt"]),
               anis=[q2f(a) for a in e["m"]["anis"]])
    n = 1
    for a in ("len", "opt", "anis", "var", "nug"):
        if c["cls"] == "Plain" and a == "opt":
            continue
        if not close(exp[a], call.final[a], tol):
            return (n, "model:" + a)
        n += 1
    for a in ("len", "opt", "var", "nug"):
        if c["cls"] == "Plain" and a == "opt":
            continue
        if not close(exp[a], call.ret[a], tol):
            return (n, "dict:" + a)
        n += 1
    if c["dir"] and not close(exp["anis"], call.ret["anis"], tol):
        return (n, "dict:anis")
    if call.ret["keys"] != expected_keys(c):
        return (n + 1, "dict:keys")
    for k, v in call.other_before.items():
        if call.final[k] != v:
            return (n + 2, "model:" + k)
    if is_tpl(c) and not (call.final["tpl_other"] == call.ret["tpl_other"] == TPL_OTHER[c["cls"]][1]):
        return (n + 3, "model:" + TPL_OTHER[c["cls"]][0])
    return None


def observable_name(tag, c):
    """property-level name of a differing observable"""
    if tag.startswith("error") or tag.startswith("accepted") or tag.startswith("bounds"):
        return tag
    kind, a = tag.split(":")
    cs = c["sill"]["k"] in ("false", "val")
    if kind == "model":
        if a == "nug" and cs and eff_fit(c, "var"):
            return "sill-identity"      # the nugget is the one derived from the sill
        return ("fitted:" if eff_fit(c, a) else "untouched:") + a
    return "dict:" + a


def violation_key(obs, c, call=None):
    """signature of a violation: observable, model family, configuration class.  Exceptions are
    classified by the family and the argument the model complained about."""
    fam = "TPL" if is_tpl(c) else "std"
    if obs.startswith("error") or obs.startswith("accepted"):
        m = re.search(r"ValueError\(['\"](\w+) needs to be", (call.exc or "") if call is not None else "")
        return "%s:%s%s" % (obs, fam, (":%s-bounds" % m.group(1)) if m and obs == "error:spurious" else "")
    return "%s:%s" % (obs, cfg_class(c))


def check_against_ideal(rep, c, iends, call, origin, replay):
    """VIOLATION unless the real outcome is one of the admissible outcomes."""
    if not iends:
        tag = "error:in-box" if call.st != "ok" else "accepted:out-of-bounds"
    else:
        tags = [match_ideal(c, e, call) for e in iends]
        if any(t is None for t in tags):
            return None
        tag = max(tags)[1]      # the alternative that explains most of the outcome
    obs = observable_name(tag, c)
    key = violation_key(obs, c, call)
    what = "%s: %s; admissible outcomes %s, real outcome %s" % (
        origin, _describe(obs), [_short_end(e) for e in iends] or "none (optimum outside the parameter bounds)",
        _short_call(call))
    rep.violation(key, what, replay)
    return key


def _describe(obs):
    if obs == "sill-identity":
        return "prescribed sill not met: var + nugget differs from the sill for this optimiser behaviour"
    if obs.startswith("untouched"):
        return "a deselected / fixed parameter was altered (%s)" % obs.split(":")[1]
    if obs.startswith("fitted"):
        return "fitted parameter differs from the returned optimum (%s)" % obs.split(":")[1]
    if obs.startswith("dict"):
        return "returned dictionary differs from the model state (%s)" % obs.split(":")[1]
    if obs.startswith("bounds"):
        return "value outside the parameter bounds after the fit (%s)" % obs.split(":")[1]
    if obs == "accepted:out-of-bounds":
        return "an optimum outside the parameter bounds was accepted"
    if obs == "error:in-box":
        return "ValueError although the optimiser stayed inside the box it was given (box exceeds the parameter bounds)"
    if obs == "error:spurious":
        return "exception in a configuration the documentation admits"
    if obs == "error:missing":
        return "documented ValueError not raised"
    return obs


def _short_end(e):
    if e["st"] != "ok":
        return e["st"]
    return {k: (q2f(v) if not isinstance(v, list) else [q2f(a) for a in v]) for k, v in e["m"].items()}


def _short_call(call):
    if call.st != "ok":
        return "%s %s" % (call.st, call.exc)
    return {"model": {k: call.final[k] for k in ("var", "len", "nug", "opt", "anis")},
            "dict": {k: call.ret[k] for k in ("var", "len", "nug", "opt", "anis")}}


def impl_diff(c, cend, call):
    """difference between the real outcome and the code-shaped transcription (drift level)"""
    if cend["st"] == "nofit":
        return None
    if cend["st"] != "ok":
        return None if call.st in ("error", "other") else "status"
    if call.st != "ok":
        return "status"
    m = cend["m"]
    var = m["raw"] * tpl_factor(c["cls"], m["len"], m["opt"]) / U if is_tpl(c) else m["raw"]
    exp = dict(var=var / U, len=q2f(m["len"]), nug=q2f(m["nug"]), opt=q2f(m["opt"]), anis=[q2f(a) for a in m["anis"]])
    for a in exp:
        if not close(exp[a], call.final[a]):
            return "model:" + a
    r = cend["ret"]
    for a in ("var", "len", "nug", "opt"):
        if not close(q2f(r[a]), call.ret[a]):
            return "dict:" + a
    return None


# ---------------------------------------------------------------------------
# worker: adversarial replay of dumped end states

_W = {}


class _Collect:
    def __init__(self):
        self.violations, self.drift = [], []

    def violation(self, key, what, replay):
        if not any(k == key for k, _w, _r in self.violations):
            self.violations.append((key, what, replay))

    def drift_msg(self, msg):
        if len(self.drift) < 5:
            self.drift.append(msg)


def _adv_chunk(task):
    jname, lo, hi = task
    job = dict(_W["jobs"])[jname]
    blocks = _W["blocks"][jname][lo:hi]
    cache = _Cache()
    col = _Collect()
    out = dict(n=0, skipped=0, nontrivial=set(), samples=[], disc={}, viol_keys={}, drift=0)
    for blk in blocks:
        sv = split_state(blk)
        c = cache.get_parsed(sv["cfg"])
        cp = cache.get_parsed(sv["cp"])
        evs, popt = cache.get_parsed(sv["evs"]), cache.get_parsed(sv["popt"])
        iends = [dict(e) for e in _thaw(cache.get_parsed(sv["iends"]))]
        cend = cache.get_parsed(sv["cend"])
        disc = sorted(cache.get_parsed(sv["disc"]))
        para, fanis = cp["para"], cp["fanis"]
        alt = (lo + out["n"]) % 6
        kwargs = build_kwargs(c, alt)
        rp = {"mode": "adversary", "job": jname, "real": job["real"], "cfg": c, "kwargs": _kw_json(kwargs),
              "evals": [vec_of(x, para, fanis, c["dim"]) for x in evs] if cp["st"] == "ready" else [],
              "popt": vec_of(popt, para, fanis, c["dim"]) if cp["st"] == "ready" else [],
              "admissible": iends, "transcription": cend}
        call = Call(c, job["real"], kwargs).run(adversary(rp["evals"], rp["popt"]))
        out["n"] += 1
        if call.st == "skip":
            # the real code hands a different vector layout / box to the optimiser than the transcription:
            # drive it with a trivial optimiser and check the clauses of the property directly
            out["skipped"] += 1
            col.drift_msg("adversary vector does not fit the box / arity of the real code (transcription stale?): "
                          "%s fit_variogram(%s)" % (job["real"], _kw_str(kwargs)))
            call = Call(c, job["real"], kwargs).run(trivial_optimiser)
            ialts = [dict(a) for a in _thaw(cache.get_parsed(sv["ialts"]))]
            tag, _edge = check_scipy_run(c, ialts, call)
            if tag:
                obs = observable_name(tag, c)
                key = violation_key(obs, c, call)
                col.violation(key, "%s %s, fit_variogram(%s), optimiser returns its start vector: %s; real outcome %s"
                              % (job["real"], _cfg_str(c), _kw_str(kwargs), _describe(obs), _short_call(call)),
                              dict(rp, mode="trivial"))
                out["viol_keys"][key] = out["viol_keys"].get(key, 0) + 1
            continue
        if cp["st"] == "ready" and evs:
            out["nontrivial"].add(hash((jname, tlaval.freeze(c), tlaval.freeze(evs), tlaval.freeze(popt))))
        origin = "%s %s, fit_variogram(%s), optimiser evaluates %s and returns %s" % (
            job["real"], _cfg_str(c), _kw_str(kwargs), rp["evals"], rp["popt"])
        key = check_against_ideal(col, c, iends, call, origin, rp)
        if key:
            out["viol_keys"][key] = out["viol_keys"].get(key, 0) + 1
        d = impl_diff(c, cend, call)
        if d:
            out["drift"] += 1
            col.drift_msg("real outcome differs from the code-shaped transcription in %s: %s" % (d, origin))
        if disc:
            out["disc"][",".join(disc)] = out["disc"].get(",".join(disc), 0) + 1
        if len(out["samples"]) < 2 and cp["st"] == "ready" and evs and c["sill"]["k"] != "none":
            out["samples"].append({"mode": "adversary", "class": job["real"], "call": _kw_str(kwargs),
                                   "evaluations": rp["evals"], "returned_optimum": rp["popt"],
                                   "admissible_outcomes": [_short_end(e) for e in iends],
                                   "real": _short_call(call)})
    out["violations"], out["drift_msgs"] = col.violations, col.drift
    return out


def _thaw(v):
    """frozenset of frozen records (tuples of pairs) -> list of dicts"""
    out = []
    for e in v:
        out.append(_unfreeze(e))
    return sorted(out, key=repr)


def _unfreeze(e):
    if isinstance(e, tuple) and e and all(isinstance(p, tuple) and len(p) == 2 and isinstance(p[0], str) for p in e):
        return {k: _unfreeze(v) for k, v in e}
    if isinstance(e, tuple):
        return [_unfreeze(x) for x in e]
    return e


def _kw_json(kw):
    return {k: (v.tolist() if isinstance(v, np.ndarray) else v) for k, v in kw.items()}


def _kw_str(kw):
    return ", ".join("%s=%r" % (k, v.tolist() if isinstance(v, np.ndarray) else v) for k, v in kw.items()
                     if not callable(v))


def _cfg_str(c):
    b = {a: real_bounds(v) for a, v in c["bnd"].items() if dict(v) != default_bounds(c)[a]}
    return "%s%s%s" % ("latlon" if c["latlon"] else (
        "temporal spatial_dim=%d" % (c["dim"] - 1) if c.get("temporal") else "dim=%d" % c["dim"]),
        " directional" if c["dir"] else "",
                       (" bounds %s" % b) if b else "")


# ---------------------------------------------------------------------------
# worker: the real optimiser on exact synthetic data, recorded

INIT_MODES = ["default", "current", "dict-current", "dict-values"]
WEIGHTS = [None, "inv", "callable", "array"]
METHODS = ["trf", "dogbox"]
LOSSES = ["soft_l1", "linear"]


def numeric_options(i, c, x):
    """cycle through init_guess x weights x method x loss (deterministic in the case index)"""
    from gstools.covmodel.fit import logistic_weights

    opts = {}
    im = INIT_MODES[i % 4]
    wm = WEIGHTS[(i // 4) % 4]
    opts["method"] = METHODS[(i // 16) % 2]
    opts["loss"] = LOSSES[(i // 32) % 2]
    which = (i // 64) % 2
    if im == "default":
        if i % 8 < 4:
            opts["init_guess"] = "default"
    elif im == "current":
        opts["init_guess"] = "current"
    elif im == "dict-current":
        opts["init_guess"] = {"default": "current", "len_scale": 1.5}
    else:
        opts["init_guess"] = {"var": 1.25, "len_scale": 1.5, "nugget": 0.25}
    if wm == "inv":
        opts["weights"] = "inv"
    elif wm == "callable":
        opts["weights"] = logistic_weights()
    elif wm == "array":
        opts["weights"] = 1.0 / (1.0 + np.arange(len(x)))
    return opts, dict(init=im, weights=wm, method=opts["method"], loss=opts["loss"], truth=which), which


def _spell_str(a):
    if isinstance(a, list):
        return "list of %s" % type(a[0]).__name__
    return "ndarray %s" % a.dtype


def spelling_diff(c, call, base):
    """None when the spelled run equals the float64 run (bit-identical parameters, pcov and r2 for 'exact'
    spellings; r2 to 1e-3 for 'near' ones), else the first differing part of the result"""
    level = spell_level(c)
    if call.st != base.st:
        # with float32 arithmetic before the fit the optimiser may take another path into an undocumented edge
        return "status" if level == "exact" or "ok" not in (call.st, base.st) or call.exc_from == "pre" else None
    if call.st != "ok":
        return None
    if level == "exact":
        for a in ("var", "len", "nug", "opt", "anis"):
            if call.ret[a] != base.ret[a] or call.final[a] != base.final[a]:
                return "parameters"
        if not np.array_equal(call.pcov, base.pcov, equal_nan=True):
            return "pcov"
        if call.r2 != base.r2 and not (call.r2 != call.r2 and base.r2 != base.r2):
            return "r2"
        return None
    # the start vector / the chordal distances differ at float32 level, so on flat (ill-posed) cost surfaces the
    # optimiser may stop at different parameters: only the goodness of fit is compared, coarsely
    if not abs(call.r2 - base.r2) <= 1e-3:
        return "r2"
    return None


def _inb(b, v):
    lo, hi = q2f(b["lo"]), q2f(b["hi"])
    return (lo <= v if b["lc"] else lo < v) and (v <= hi if b["hc"] else v < hi)


def check_scipy_run(c, ialts, call):
    """The clauses of C10 on one run of the real optimiser, with TLC's preprocessing outcome.
    Returns (tag or None, edge or None)."""
    errs = [a for a in ialts if a["st"] == "error"]
    readys = [a for a in ialts if a["st"] == "ready"]
    if any(a["st"] == "nofit" for a in ialts):
        return None, "nothing-to-fit"
    if call.st == "error" and call.exc_from == "pre":
        return (None, None) if errs else ("error:spurious", None)
    if call.st == "other" and not call.called:
        return "error:spurious", None
    if not readys:
        return "error:missing", None
    if call.st != "ok":
        # an exception left curve_fit
        if call.exc_from == "curve":
            args = call.evals[-1][0]
            names = vec_names(readys[0]["para"], readys[0]["fanis"], c["dim"])
            bad = [(n, v) for n, v in zip(names, args) if not _inb(c["bnd"][n], v)]
            if bad and all(v in (q2f(c["bnd"][n]["lo"]), q2f(c["bnd"][n]["hi"])) for n, v in bad):
                return None, "optimiser-on-open-bound"
            if not bad:
                # the model complains about an excess at rounding level (TPL: var = var_raw * var_factor is
                # read back after another argument moved): boundary rounding, not described by the documentation
                m = re.search(r"needs to be [<>=]+ ([-+.\deinf]+), got: ([-+.\deinf]+)", call.exc or "")
                if m:
                    bound, got = float(m.group(1)), float(m.group(2))
                    if abs(got - bound) <= 1e-9 * max(1.0, abs(bound)):
                        return None, "bound exceeded at rounding level"
            return ("error:in-box" if bad else "error:spurious"), None
        if call.exc_from == "optimiser":
            if not all(lo <= p <= hi for p, lo, hi in zip(call.p0, call.lo, call.hi)):
                return "error:spurious", None
            return None, "optimiser-failed"
        return "error:spurious", None
    # success: one of the ready alternatives must explain the end state
    tags = [_check_ready(c, a, call) for a in readys]
    if any(t is None for t in tags):
        return None, None
    return max(tags)[1], None      # the alternative that explains most of the outcome


def _check_ready(c, a, call):
    """clauses of C10 for one ready alternative a: None, or (checks passed, first failing observable)"""
    f, r = call.final, call.ret
    para, pm = a["para"], a["m"]
    tol = 1e-12
    n = 0
    for nme in ARGS:
        if c["cls"] == "Plain" and nme == "opt":
            continue
        derived = nme == "nug" and a["cs"] and para["var"]
        if para[nme]:
            if not _inb(c["bnd"][nme], f[nme]):
                return (n, "bounds:" + nme)
        elif not derived:
            exact = q2f(pm[nme])
            if not (f[nme] == exact or (is_tpl(c) and nme == "var" and close(f[nme], exact, tol))):
                return (n, "model:" + nme)
        n += 1
    if a["fanis"]:
        if not all(_inb(c["bnd"]["anis"], v) for v in f["anis"]):
            return (n, "bounds:anis")
    elif f["anis"] != [q2f(v) for v in pm["anis"]]:
        return (n, "model:anis")
    n += 1
    if a["cs"]:
        s = q2f(a["sill"])
        if not abs(f["var"] + f["nug"] - s) <= tol * abs(s):
            return (n, "model:nug" if para["var"] else "model:var")
        if not _inb(c["bnd"]["nug"], f["nug"]) or not _inb(c["bnd"]["var"], f["var"]):
            return (n, "bounds:sill")
    n += 1
    for nme in ARGS:
        if c["cls"] == "Plain" and nme == "opt":
            continue
        if not close(f[nme], r[nme], tol):
            return (n, "dict:" + nme)
        n += 1
    if c["dir"] and not close(f["anis"], r["anis"], tol):
        return (n, "dict:anis")
    if r["keys"] != expected_keys(c):
        return (n + 1, "dict:keys")
    for k, v in call.other_before.items():
        if f[k] != v:
            return (n + 2, "model:" + k)
    if is_tpl(c) and not (f["tpl_other"] == r["tpl_other"] == TPL_OTHER[c["cls"]][1]):
        return (n + 3, "model:" + TPL_OTHER[c["cls"]][0])
    # the recorded optimum must be what the model holds for the fitted arguments
    names = vec_names(para, a["fanis"], c["dim"])
    if len(names) == len(call.popt):
        i_anis = 0
        for nme, v in zip(names, call.popt):
            got = f["anis"][i_anis] if nme == "anis" else f[nme]
            if nme == "anis":
                i_anis += 1
            if not close(got, v, tol):
                return (n + 4, "model:" + nme)
    return None


def fx(v):
    """float -> fixed point pair <<h, l>> (exact integer arithmetic on the float's value)"""
    if v == float("inf"):
        return [1 << 29, 0]
    n = Fraction(v) * (1 << 44)
    n = int(n + Fraction(1, 2)) if n >= 0 else -int(-n + Fraction(1, 2))
    h, l = divmod(n, 1 << 28)
    return [h, l]


def _fxq(q):
    return fx(q2f(q))


def cfg_fx(c):
    """spec configuration with every value replaced by its fixed-point image"""
    def val(v):
        return [_fxq(a) for a in v] if isinstance(v, list) else _fxq(v)

    return {"cls": c["cls"], "dim": c["dim"], "dir": c["dir"], "latlon": c["latlon"],
            "temporal": c.get("temporal", False),
            "pre": {k: val(v) for k, v in c["pre"].items()},
            "bnd": {a: {"lo": _fxq(b["lo"]), "hi": _fxq(b["hi"]), "lc": b["lc"], "hc": b["hc"]}
                    for a, b in c["bnd"].items()},
            "sel": {a: {"k": s["k"], "v": _fxq(s["v"])} for a, s in c["sel"].items()},
            "sill": {"k": c["sill"]["k"], "v": _fxq(c["sill"]["v"])},
            "spell": dict(c.get("spell", BASE_SPELL)),
            "anis": {"k": c["anis"]["k"], "v": [_fxq(a) for a in c["anis"]["v"]]},
            "unknown": c["unknown"], "methodok": c["methodok"]}


def _pub_fx(p, c):
    return {"var": fx(p["var"]), "len": fx(p["len"]), "nug": fx(p["nug"]), "opt": fx(p["opt"]),
            "anis": [fx(a) for a in p["anis"]]}


def _floats_of(c, call, evs):
    vals = set()
    for a, b in c["bnd"].items():
        vals.update(q2f(b[k]) for k in ("lo", "hi"))
    vals.update(q2f(v) for v in c["pre"].values() if not isinstance(v, list))
    vals.update(q2f(v) for v in c["pre"]["anis"])
    vals.update(q2f(s["v"]) for s in c["sel"].values())
    vals.update(q2f(v) for v in c["anis"]["v"])
    sills = {q2f(c["sill"]["v"])}
    for v in (c["pre"]["var"], c["sel"]["var"]["v"]):
        for n in (c["pre"]["nug"], c["sel"]["nug"]["v"]):
            sills.add(q2f(v) + q2f(n))
    vals |= sills
    for s in sills:   # thresholds of the derived nugget / variance
        vals.update(s - q2f(c["bnd"]["nug"][k]) for k in ("lo", "hi"))
    for seq in (call.lo, call.hi, call.p0, call.popt):
        vals.update(seq or [])
    for p in [call.ready, call.final, call.ret] + [e[3] for e in evs]:
        if p:
            vals.update(p[k] for k in ("var", "len", "nug", "opt"))
            vals.update(p["anis"] or [])
    for e in evs:
        vals.update(e[0])
    return {v for v in vals if v == v and abs(v) != float("inf")}


def trace_record(c, call, tail=4):
    """recorded run -> record for TraceFit (fixed point); None when the floats of the run are not
    represented faithfully (range, or two distinct floats with the same image)"""
    evs0 = call.evals
    j0 = max(0, len(evs0) - tail)
    while j0 > 0 and (evs0[j0][1] or evs0[j0][2]):
        j0 -= 1
    vals = _floats_of(c, call, evs0[j0:])
    if any(abs(v) >= 4096 for v in vals) or len({tuple(fx(v)) for v in vals}) != len(vals):
        return None
    r = {"cfg": cfg_fx(c), "called": call.called, "st": call.st}
    dummy = _pub_fx({"var": 0.0, "len": 0.0, "nug": 0.0, "opt": 0.0, "anis": [0.0] * (c["dim"] - 1)}, c)
    r["lo"] = [fx(v) for v in (call.lo or [])]
    r["hi"] = [fx(v) for v in (call.hi or [])]
    r["p0"] = [fx(v) for v in (call.p0 or [])]
    r["ready"] = _pub_fx(call.ready, c) if call.ready else dummy
    evs = call.evals
    j = max(0, len(evs) - tail)
    while j > 0 and (evs[j][1] or evs[j][2]):
        j -= 1
    r["evals"] = [{"x": [fx(a) for a in args], "raised": raised, "inf": inf,
                   "after": _pub_fx(after, c) if after else dummy} for args, raised, inf, after in evs[j:]]
    r["popt"] = [fx(v) for v in (call.popt or [])]
    r["final"] = _pub_fx(call.final, c) if call.final else dummy
    if call.ret:
        rr = dict(call.ret)
        if rr["anis"] is None:
            rr["anis"] = call.final["anis"]
        r["ret"] = _pub_fx(rr, c)
    else:
        r["ret"] = dummy
    return r


def _scipy_chunk(task, progress=None):
    jname, idxs = task
    job = dict(_W["jobs"])[jname]
    pres = _W["pre"][jname]
    col = _Collect()
    out = dict(n=0, nontrivial=set(), samples=[], edges={}, viol_keys={}, aux=[], traces=[], nfev=0)
    for i in idxs:
        if progress:
            progress(i)
        c, ialts = parse_pre(pres[i])
        x, _y, _t = data_for(c, job["real"], 0)
        opts, desc, which = numeric_options(i, c, x)
        kwargs = dict(opts)
        kwargs.update(build_kwargs(c, i % 6))
        kwargs["return_r2"] = True
        if is_spelled(c):
            kwargs.pop("weights", None)     # the weights come with the spelling
        kwstr, kwjson = _kw_str(kwargs), _kw_json({k: v for k, v in build_kwargs(c, i % 6).items()})
        call = Call(c, job["real"], kwargs, which).run(scipy_optimiser)
        out["n"] += 1
        out["nfev"] += len(call.evals)
        tag, edge = check_scipy_run(c, ialts, call)
        if edge:
            out["edges"][edge] = out["edges"].get(edge, 0) + 1
        rp = {"mode": "scipy", "job": jname, "real": job["real"], "cfg": c, "index": i, "truth": which,
              "kwargs": kwjson, "options": desc}
        if tag:
            obs = observable_name(tag, c)
            key = violation_key(obs, c, call)
            col.violation(key, "%s %s, fit_variogram(%s) on exact %s data with the scipy optimiser: %s; "
                          "real outcome %s" % (job["real"], _cfg_str(c), kwstr, job["real"],
                                               _describe(obs), _short_call(call)), rp)
            out["viol_keys"][key] = out["viol_keys"].get(key, 0) + 1
        if is_spelled(c):
            desc = dict(desc, weights=c["spell"]["w"], spelling="x=%(x)s y=%(y)s w=%(w)s" % c["spell"])
        fam = "TPL" if is_tpl(c) else "std"
        if call.st == "ok" and call.r2 is not None:
            # the reported r2 is, by definition, 1 - SS_res / SS_tot of the returned model on the data handed in
            rd = r2_definition(call.m, c, call.x64, call.y64)
            tol = 1e-6 if (is_spelled(c) and spell_level(c) == "near") else 1e-9
            if rd is not None and np.isfinite(rd) and not abs(call.r2 - rd) <= tol * max(1.0, abs(rd)):
                key = "r2:definition:%s" % fam
                col.violation(key, "%s %s, fit_variogram(%s; x %s, y %s): returned r2 = %r but 1 - SS_res/SS_tot of "
                              "the returned model on the data handed in = %r" % (
                                  job["real"], _cfg_str(c), kwstr, _spell_str(call.x), _spell_str(call.y),
                                  call.r2, rd), rp)
                out["viol_keys"][key] = out["viol_keys"].get(key, 0) + 1
        if is_spelled(c) and (c["spell"]["x"], c["spell"]["y"]) != ("f64", "f64") or (
                is_spelled(c) and c["spell"]["w"] == "list"):
            # the same numbers in the float64 / ndarray spelling must give the same result
            base_sp = {"x": "f64", "y": "f64", "w": "arr" if c["spell"]["w"] in ("arr", "list") else "none"}
            base = Call(c, job["real"], kwargs, which, spell=base_sp).run(scipy_optimiser)
            out["nfev"] += len(base.evals)
            what = spelling_diff(c, call, base)
            if what:
                key = "spelling:%s:%s" % (what, fam)
                col.violation(key, "%s %s, fit_variogram(%s): the result for x %s, y %s, weights %s differs from the "
                              "result for the float64 spelling of the same numbers in %s: %s / r2 %r  vs  %s / r2 %r"
                              % (job["real"], _cfg_str(c), kwstr, _spell_str(call.x), _spell_str(call.y),
                                 c["spell"]["w"], what, _short_call(call), call.r2, _short_call(base), base.r2), rp)
                out["viol_keys"][key] = out["viol_keys"].get(key, 0) + 1
        if call.called and call.st == "ok":
            out["nontrivial"].add(hash((jname, tlaval.freeze(c), tuple(sorted(desc.items())))))
            t = call.truth
            fitted_all = all(c["sel"][a]["k"] == "fit" for a in ("var", "len", "nug")) and c["sill"]["k"] in ("none", "true")
            out["aux"].append((call.r2, fitted_all,
                               max(abs(call.final["var"] - t["var"]), abs(call.final["len"] - t["len"]),
                                   abs(call.final["nug"] - t["nug"])) if fitted_all else None))
        if not is_tpl(c):
            tr = trace_record(c, call)
            if tr is None:
                out["edges"]["(trace not representable in fixed point)"] = out["edges"].get(
                    "(trace not representable in fixed point)", 0) + 1
            else:
                out["traces"].append((jname, i, tr))
        if len(out["samples"]) < 1 and call.called and call.st == "ok" and c["sill"]["k"] == "val":
            out["samples"].append({"mode": "scipy", "class": job["real"], "call": kwstr,
                                   "curve_evaluations": len(call.evals), "optimum": call.popt,
                                   "model_after": {k: call.final[k] for k in ("var", "len", "nug", "opt", "anis")},
                                   "r2": call.r2})
    out["violations"] = col.violations
    return out



# ---------------------------------------------------------------------------
# the scipy runs are executed by worker processes that can be killed: with non-finite
# Jacobians LAPACK (dbdsqr below numpy.linalg.lstsq, used by 'dogbox') may never return


def _sc_worker(wid, conn, hb):
    while True:
        task = conn.recv()
        if task is None:
            return
        jname, idxs = task

        def progress(i):
            hb[2 * wid + 1], hb[2 * wid] = i, time.time()

        res = _scipy_chunk((jname, idxs), progress)
        hb[2 * wid] = 0.0
        conn.send(res)


def robust_scipy_map(chunks, nproc, limit):
    """Generator over the results of _scipy_chunk for every chunk.  Every worker is fed through
    its own pipe (no shared queue that a killed process could leave locked).  A fit that does not
    return within `limit` seconds is abandoned: its worker is killed and the rest of its chunk is
    run again without that configuration.  Abandoned items end up in robust_scipy_map.hung."""
    import multiprocessing as mp
    from collections import deque
    from multiprocessing.connection import wait

    ctx = mp.get_context("fork")
    hb = ctx.Array("d", 2 * nproc, lock=False)
    todo = deque((jname, list(idxs)) for jname, idxs in chunks)
    procs, conns, busy = [None] * nproc, [None] * nproc, {}
    hung = []

    def spawn(w):
        parent, child = ctx.Pipe()
        hb[2 * w] = 0.0
        p = ctx.Process(target=_sc_worker, args=(w, child, hb), daemon=True)
        p.start()
        child.close()
        procs[w], conns[w] = p, parent

    def abandon(w):
        jname, idxs = busy.pop(w)
        i = int(hb[2 * w + 1])
        procs[w].terminate()
        procs[w].join(5)
        conns[w].close()
        hung.append((jname, i))
        rest = [k for k in idxs if k != i] if i in idxs else []
        if rest:
            todo.appendleft((jname, rest))
        spawn(w)

    for w in range(nproc):
        spawn(w)
    try:
        while todo or busy:
            for w in range(nproc):
                if w not in busy and todo:
                    busy[w] = todo.popleft()
                    hb[2 * w + 1], hb[2 * w] = busy[w][1][0], time.time()
                    conns[w].send(busy[w])
            ready = wait([conns[w] for w in busy], timeout=0.5)
            for conn in ready:
                w = conns.index(conn)
                try:
                    res = conn.recv()
                except (EOFError, OSError):
                    abandon(w)      # the worker died
                    continue
                del busy[w]
                yield res
            now = time.time()
            for w in list(busy):
                t = hb[2 * w]
                if (t and now - t > limit) or not procs[w].is_alive():
                    abandon(w)
    finally:
        for w in range(nproc):
            try:
                if w not in busy:
                    conns[w].send(None)
            except (OSError, ValueError):
                pass
        for p in procs:
            p.join(1)
            if p.is_alive():
                p.terminate()
        robust_scipy_map.hung = hung


# ---------------------------------------------------------------------------
# TraceFit


def _tla(v):
    if isinstance(v, bool):
        return "TRUE" if v else "FALSE"
    if isinstance(v, int):
        return str(v)
    if isinstance(v, str):
        return '"%s"' % v
    if isinstance(v, list):
        return "<<" + ",".join(_tla(x) for x in v) + ">>"
    if isinstance(v, dict):
        return "[" + ",".join("%s|->%s" % (k, _tla(x)) for k, x in v.items()) + "]"
    raise TypeError(v)


TRACE_CFG = ("CONSTANTS\n Plus <- FxPlus\n Minus <- FxMinus\n Le <- FxLe\n Same <- FxSame\n"
             " VarOfRaw <- FxNoTPL\n RawOfVar <- FxNoTPL\n Cfgs = {}\n Cand = 0\n CandEv = 0\n MaxEv = 0\n InfTail = FALSE\n"
             " Runs <- McRuns\nINIT TInit\nNEXT TNext\n")


def trace_module(name, records):
    txt = "---- MODULE %s ----\nEXTENDS TraceFit\nMcRuns == <<\n" % name
    txt += ",\n".join(_tla(r) for r in records)
    txt += "\n>>\n====\n"
    return txt


def read_trace_verdicts(path):
    out = {}
    for blk in read_dump(path):
        if 'phase = "done"' not in blk:
            continue
        sv = split_state(blk)
        out[int(sv["rid"])] = tlaval.parse(sv["tv"])
    return out


# ---------------------------------------------------------------------------


def run(pid, tier, seed, replay=None):
    import multiprocessing as mp

    rep = Report(pid, tier, seed)
    rng = random.Random(seed)
    rep.assumptions += [
        "abstraction: real parameters are the float images of the spec's 1/64 lattice; spec classes Plain/Opt/TPL = "
        "Exponential|Gaussian / Stable(alpha) / TPLGaussian(opt = len_low; hurst=0.5 deselected, rescale=1: var = var_raw * len_scale) / "
        "TPLH = TPLGaussian(opt = hurst in {1/4, 1/2}; len_low=0 deselected, rescale=1, len_scale in {1/4, 1, 4}: "
        "var = var_raw * len_scale^(2 hurst) / (2 hurst) exactly); temporal jobs use temporal=True with dim = spatial_dim + 1",
        "adversary class: the optimiser evaluates the closure at finitely many vectors of the closed box it was handed, "
        "starts at a vector of finite cost and returns a vector of finite cost of that box; candidate values avoid open ends of bounds",
        "a call that leaves nothing to fit, an optimiser that stops on an open bound or fails to converge are outside the documented semantics (counted, never a violation)",
        "r2 and parameter errors of the scipy runs are auxiliary numbers and never decide",
    ]
    if replay:
        return _replay(replay)
    import gstools  # noqa: F401  (before forking the workers)

    thorough = tier == "thorough"
    jobs = jobs_for(tier)
    if os.environ.get("VERIF_ONLY"):   # development aid: restrict the jobs
        jobs = [j for j in jobs if j[0] in os.environ["VERIF_ONLY"].split(",")]
    nproc = 14
    with tlc.Scratch() as sc:
        t0 = time.time()
        tjobs = []
        for name, job in jobs:
            mod, cfg = mc_module("MC_" + name, job, maxev=1)
            sc.write("MC_%s.tla" % name, mod)
            tjobs.append((("mc", name), sc, "MC_" + name, cfg,
                          dict(workers=2, dump=("states", sc.path("D_" + name)), timeout=2400, heap="4g",
                               extra=("-continue",))))
        # any finite sequence of evaluations: two evaluations with the full candidate sets, no dump
        for name, job in jobs:
            if name not in (("Plain2", "TPL2", "Opt2") if thorough else ("Plain2", "TPL2")):
                continue
            if os.environ.get("VERIF_ONLY"):
                continue
            j2 = dict(job)
            j2["dirs"] = job["dirs"][:1]
            j2["anis"] = job["anis"][:1]
            if thorough:
                j2["bnds"] = job["bnds"][:3]
            mod, cfg = mc_module("EV2_" + name, j2, maxev=2, candev=job.get("lattice", {}).get("candev2", CANDEV2) if thorough else None)
            sc.write("EV2_%s.tla" % name, mod)
            tjobs.append((("ev2", name), sc, "EV2_" + name, cfg,
                          dict(workers=2, timeout=2400, heap="4g", extra=("-continue",))))
        stale_transcription = []
        results = tlc.run_many(tjobs, parallel=7)
        print("TLC: %d jobs in %.1fs" % (len(tjobs), time.time() - t0))
        for (kind, name), r in sorted(results.items()):
            tlc.must_pass(r, "%s %s" % (kind, name))
            rep.add_tlc("Fit.%s[%s]" % (kind, name), r)
            if r.error and r.error[1] == "ImplConforms":
                # the code-shaped part is not admissible w.r.t. the documented part beyond the recorded
                # deviation: a defect (then the replay on the real code below raises the VIOLATION) or a
                # stale transcription (then the replay reports DRIFT)
                stale_transcription.append(name)
                rep.drift_msg("TLC: invariant ImplConforms of Fit.tla fails for %s: the transcription of fit.py is "
                              "not admissible w.r.t. the documented semantics beyond the known deviation" % name)
            elif r.error:
                rep.violation("design:%s" % r.error[1], "the documented semantics of Fit.tla violates its own %s %s (%s)"
                              % (r.error[0], r.error[1], name), {"trace": tlc.error_trace(r)})
        # ---- read the dumps
        t0 = time.time()
        ends, pres = {}, {}
        for name, _job in jobs:
            # TLC writes states in a worker dependent order: sort for reproducibility
            blocks = sorted(read_dump(sc.path("D_" + name) + ".dump"))
            ends[name] = [b for b in blocks if 'phase = "done"' in b]
            pres[name] = [b for b in blocks if "evs = <<>>" in b and 'phase = "start"' not in b]
        n_end = sum(len(v) for v in ends.values())
        n_cfg = sum(len(v) for v in pres.values())
        print("dump: %d end states, %d configurations (%.1fs)" % (n_end, n_cfg, time.time() - t0))
        rep.extra["configurations_enumerated_by_TLC"] = n_cfg
        rep.extra["end_states_dumped"] = n_end
        # ---- adversarial replay + scipy runs
        _W.update(blocks=ends, jobs=jobs, tier=tier, pre=pres)
        adv_tasks = []
        for name, _job in jobs:
            n = len(ends[name])
            step = max(50, n // (nproc * 4) + 1)
            adv_tasks += [(name, i, min(n, i + step)) for i in range(0, n, step)]
        sc_tasks = []
        for name, _job in jobs:
            idx = list(range(len(pres[name])))
            step = 60
            sc_tasks += [(name, idx[i:i + step]) for i in range(0, len(idx), step)]
        t0 = time.time()
        disc_total, edges, aux, traces = {}, {}, [], []
        adv_n = adv_skipped = sc_n = nfev = 0
        viol_counts = {}
        with mp.get_context("fork").Pool(nproc) as pool:
            for res in pool.imap_unordered(_adv_chunk, adv_tasks):
                adv_n += res["n"]
                adv_skipped += res["skipped"]
                rep.nontrivial |= res["nontrivial"]
                for s in res["samples"]:
                    rep.sample(s, cap=3)
                for k, v in res["disc"].items():
                    disc_total[k] = disc_total.get(k, 0) + v
                for k, v in res["viol_keys"].items():
                    viol_counts[k] = viol_counts.get(k, 0) + v
                for key, what, rp in res["violations"]:
                    rep.violation(key, what, rp)
                for msg in res["drift_msgs"]:
                    rep.drift_msg(msg)
            print("adversary: %d behaviours replayed on the real code (%.1fs)" % (adv_n, time.time() - t0))
        t0 = time.time()
        for res in robust_scipy_map(sc_tasks, nproc, limit=90.0 if thorough else 45.0):
            sc_n += res["n"]
            nfev += res["nfev"]
            rep.nontrivial |= res["nontrivial"]
            for s in res["samples"]:
                rep.sample(s, cap=5)
            for k, v in res["edges"].items():
                edges[k] = edges.get(k, 0) + v
            for k, v in res["viol_keys"].items():
                viol_counts[k] = viol_counts.get(k, 0) + v
            for key, what, rp in res["violations"]:
                rep.violation(key, what, rp)
            aux += res["aux"]
            traces += res["traces"]
        hung = getattr(robust_scipy_map, "hung", [])
        if hung:
            edges["(optimiser did not return: LAPACK on a non-finite Jacobian)"] = len(hung)
            rep.note("scipy did not return within the time limit for %d configurations (abandoned): %s"
                     % (len(hung), hung[:5]))
        print("scipy: %d configurations fitted with the real optimiser, %d curve evaluations (%.1fs)"
              % (sc_n, nfev, time.time() - t0))
        rep.traces += adv_n - adv_skipped + sc_n
        rep.evaluations += adv_n + sc_n
        # ---- trace validation
        t0 = time.time()
        traces.sort(key=lambda t: (t[0], t[1]))
        cap = 8100 if thorough else 1350
        n_recorded = len(traces)
        if len(traces) > cap:
            keep = sorted(rng.sample(range(len(traces)), cap))
            traces = [traces[i] for i in keep]
        nmod = max(1, (len(traces) + 449) // 450)
        tj = []
        for m in range(nmod):
            part = traces[m::nmod]
            if not part:
                continue
            sc.write("TR_%d.tla" % m, trace_module("TR_%d" % m, [t[2] for t in part]))
            tj.append((("trace", m), sc, "TR_%d" % m, TRACE_CFG,
                       dict(workers=2, dump=("states", sc.path("TD_%d" % m)), timeout=2400, heap="6g")))
        tres = tlc.run_many(tj, parallel=6)
        tv_ideal, tv_impl, tv_edge, validated = {}, {}, {}, 0
        for (kind, m), r in sorted(tres.items()):
            tlc.must_pass(r, "TraceFit %d" % m)
            rep.add_tlc("TraceFit[%d]" % m, r)
            part = traces[m::nmod]
            verdicts = read_trace_verdicts(sc.path("TD_%d" % m) + ".dump")
            if len(verdicts) != len(part):
                raise tlc.MachineryError("TraceFit: %d verdicts for %d runs" % (len(verdicts), len(part)))
            for rid, tv in verdicts.items():
                validated += 1
                jname, i, _rec_ = part[rid - 1]
                c = parse_pre(pres[jname][i])[0]
                for t in tv["edge"]:
                    tv_edge[t] = tv_edge.get(t, 0) + 1
                for t in tv["impl"]:
                    tv_impl[t] = tv_impl.get(t, 0) + 1
                if tv["impl"]:
                    rep.drift_msg("recorded run differs from the code-shaped transcription in %s (%s %s)"
                                  % (sorted(tv["impl"]), jname, _cfg_str(c)))
                if tv["ideal"]:
                    tag = sorted(tv["ideal"], key=lambda t: (not t.startswith("error"), not t.startswith("model"), t))[0]
                    tv_ideal[tag] = tv_ideal.get(tag, 0) + 1
                    obs = observable_name(tag, c)
                    real = dict(jobs)[jname]["real"]
                    opts, desc, which = numeric_options(i, c, data_for(c, real, 0)[0])
                    kwargs = build_kwargs(c, i % 6)
                    rep.violation(violation_key(obs, c),
                                  "TraceFit: the recorded run of %s %s fit_variogram(%s; %s) is not a behaviour of the "
                                  "documented semantics: %s (tags %s)" % (real, _cfg_str(c), _kw_str(kwargs), desc,
                                                                          _describe(obs), sorted(tv["ideal"])),
                                  {"mode": "scipy", "job": jname, "real": real, "cfg": c, "index": i, "truth": which,
                                   "kwargs": _kw_json(kwargs), "options": desc})
        print("TraceFit: %d recorded runs validated (%.1fs)" % (validated, time.time() - t0))
        rep.extra["recorded_runs_validated_by_TraceFit"] = validated
        rep.extra["recorded_runs_representable"] = n_recorded
        rep.extra["tracefit_tags"] = {"ideal": tv_ideal, "transcription": tv_impl, "undocumented_edges": tv_edge}
    # ---- summary
    rep.extra["transcription_vs_documentation (TLC, disc of end states)"] = disc_total
    rep.extra["violation_signature_counts"] = viol_counts
    rep.extra["undocumented_edges_in_scipy_runs"] = edges
    rep.extra["adversary_behaviours_replayed"] = adv_n
    rep.extra["adversary_behaviours_skipped"] = adv_skipped
    rep.extra["scipy_runs"] = sc_n
    rep.extra["scipy_curve_evaluations"] = nfev
    rep.extra["ImplConforms_fails_for"] = stale_transcription
    if disc_total:
        rep.note("TLC: end states in which the transcription of fit.py is not an admissible outcome: %s "
                 "(error:spurious on TPL jobs = KnownDeviation of Fit.tla, finding error:spurious:TPL:var-bounds)"
                 % disc_total)
    r2s = [a[0] for a in aux if a[0] is not None and a[1]]
    perr = [a[2] for a in aux if a[2] is not None]
    if r2s:
        rep.extra["auxiliary_numbers (never decide)"] = {
            "free_fits": len(r2s), "r2_min": float(np.min(r2s)), "r2_median": float(np.median(r2s)),
            "share_r2_above_0.999": float(np.mean(np.array(r2s) > 0.999)),
            "max_abs_parameter_error_median": float(np.median(perr)) if perr else None}
    failed = edges.get("optimiser-failed", 0)
    if sc_n and failed > 0.1 * sc_n:
        rep.violation("error:spurious:optimiser-failure-rate",
                      "%d of %d fits with the real optimiser ended in an optimiser failure" % (failed, sc_n),
                      {"edges": edges})
    return rep.finish(
        level="model_checking",
        rule="TLC enumerates every configuration (selection x sill x anis x bounds x data kind) of each job and, per configuration, "
             "every (evaluation vector, returned optimum) over the candidate lattice; every dumped behaviour is executed on the real "
             "code with a substituted optimiser and every configuration once with the real scipy optimiser (numeric options cycled); "
             "distinct = distinct (job, configuration, evaluations, optimum) resp. (job, configuration, options); non-trivial = the "
             "optimiser was actually reached (adversary: at least one curve evaluation; scipy: fit completed)",
        exhaustive=False)


def _replay(path):
    rp = json.load(open(path))["replay"]
    c = rp["cfg"]
    kwargs = dict(rp["kwargs"])
    print("replaying", rp["mode"], rp["real"], _cfg_str(c), "fit_variogram(%s)" % _kw_str(kwargs))
    if rp["mode"] == "trivial":
        call = Call(c, rp["real"], kwargs).run(trivial_optimiser)
        print("  optimiser returns its start vector", call.p0)
    elif rp["mode"] == "adversary":
        call = Call(c, rp["real"], kwargs).run(adversary(rp["evals"], rp["popt"]))
        print("  optimiser evaluates", rp["evals"], "returns", rp["popt"])
        print("  admissible:", [_short_end(e) for e in rp["admissible"]])
    else:
        x, _y, _t = data_for(c, rp["real"], 0)
        opts, desc, which = numeric_options(rp["index"], c, x)
        kwargs = dict(opts, **kwargs)
        kwargs["return_r2"] = True
        if is_spelled(c):
            kwargs.pop("weights", None)
        call = Call(c, rp["real"], kwargs, which).run(scipy_optimiser)
        if call.st == "ok":
            print("  x %s, y %s; returned r2 %r, 1 - SS_res/SS_tot of the returned model %r" % (
                _spell_str(call.x), _spell_str(call.y), call.r2, r2_definition(call.m, c, call.x64, call.y64)))
        if is_spelled(c):
            base_sp = {"x": "f64", "y": "f64", "w": "arr" if c["spell"]["w"] in ("arr", "list") else "none"}
            base = Call(c, rp["real"], kwargs, which, spell=base_sp).run(scipy_optimiser)
            print("  float64 spelling:", _short_call(base), "r2", base.r2, "-> differs in", spelling_diff(c, call, base))
        print("  options", desc, "curve evaluations", len(call.evals), "optimum", call.popt)
    print("  real outcome:", _short_call(call))
    if call.st == "ok":
        print("  var + nugget =", call.final["var"] + call.final["nug"])
    return 0
