"""C14 (and the state clauses of C13/C03): Params.tla bound to gstools.CovModel.

1. design check: TLC explores the complete reachable state space of the ideal
   parameter machine per (spec class, lat-lon, temporal) and checks its invariants;
   ParamsImpl (code-shaped) is checked to refine it.
2. spec -> code: an edge cover of the dumped state graph plus random simulated
   behaviours are replayed on real models of every shipped class mapped to the
   spec class; after each step the projection of the real model is compared with
   the spec state and with a model constructed directly from that state.
3. code -> spec: assignments recorded while the repository's own tests run are
   validated by TraceParams.tla.
"""
PROPERTIES = ("C14",)

import itertools
import os
import random
import warnings

import numpy as np

from .. import tlc, tlaval, paths
from ..report import Report

U = 64
INF = 1000000
ANG = {0: 0.0, 1: 0.3, 2: 1.1}

# spec class -> real classes: (name, optname, kwargs fixed at construction, opt value map)
CLASSES = {
    "Plain": [("Exponential", None, {}), ("Gaussian", None, {}), ("Cubic", None, {}),
              ("Spherical", None, {}), ("HyperSpherical", None, {}), ("Linear", None, {}),
              ("Circular", None, {})],
    "OptFixed": [("Stable", "alpha", {}), ("Integral", "nu", {}), ("Rational", "alpha", {}),
                 ("Matern", "nu", {})],
    "OptDim": [("JBessel", "nu", {}), ("SuperSpherical", "nu", {}), ("TPLSimple", "nu", {})],
    "TPL": [("TPLGaussian", "len_low", {"hurst": 0.5}), ("TPLExponential", "len_low", {"hurst": 0.5}),
            ("TPLStable", "len_low", {"hurst": 0.5, "alpha": 1.0})],
    # the same classes driven through their Hurst coefficient (variance factor depends on the optional argument)
    "TPLH": [("TPLGaussian:H", "hurst", {"len_low": 0.0}), ("TPLExponential:H", "hurst", {"len_low": 0.0}),
             ("TPLStable:H", "hurst", {"len_low": 0.0, "alpha": 1.0})],
    # Hurst coefficient as optional argument AND a positive lower truncation (variance factor = full documented formula)
    "TPLHL": [("TPLGaussian:HL", "hurst", {"len_low": 0.25}), ("TPLExponential:HL", "hurst", {"len_low": 0.25})],
}
# default optional-argument bounds in spec units, per real class
OPTB = {
    "Stable": dict(lo=0, hi=2 * U, lc=False, hc=True, vals={32, 64, 128, 0, 256}),
    "Integral": dict(lo=0, hi=50 * U, lc=False, hc=True, vals={32, 64, 128, 0, 50 * U, 51 * U}),
    "Rational": dict(lo=32, hi=50 * U, lc=True, hc=True, vals={32, 64, 128, 16, 51 * U}),
    # Matern: nu in [0.2, 30]; spec units scaled by 0.2 (edges mapped to the literal bounds)
    "Matern": dict(lo=64, hi=150 * U, lc=True, hc=True, vals={64, 128, 256, 32, 151 * U}, scale=0.2,
                   lo_real=0.2, hi_real=30.0),
    "JBessel": dict(off=-2, vals={-32, 0, 32, 64, 128}),
    "SuperSpherical": dict(off=-1, vals={-32, 0, 32, 64, 128}),
    "TPLSimple": dict(off=1, vals={32, 64, 96, 128, 160}),
    "TPLGaussian": dict(lo=0, hi=INF, lc=True, hc=False, vals={0, 64, 128, -64}),
    "TPLExponential": dict(lo=0, hi=INF, lc=True, hc=False, vals={0, 64, 128, -64}),
    "TPLStable": dict(lo=0, hi=INF, lc=True, hc=False, vals={0, 64, 128, -64}),
    # hurst in (0.1, 1): spec units 6 ~ 0.1 (edge mapped to the literal bound), values 1/4 and 1/2
    "TPLGaussian:H": dict(lo=6, hi=64, lc=False, hc=False, vals={16, 32, 64, 6}, scale=1.0, lo_real=0.1, hi_real=1.0),
    "TPLExponential:H": dict(lo=6, hi=64, lc=False, hc=False, vals={16, 32, 64, 6}, scale=1.0, lo_real=0.1, hi_real=1.0),
    "TPLStable:H": dict(lo=6, hi=64, lc=False, hc=False, vals={16, 32, 64, 6}, scale=1.0, lo_real=0.1, hi_real=1.0),
    "TPLGaussian:HL": dict(lo=6, hi=64, lc=False, hc=False, vals={16, 32, 64, 6}, scale=1.0, lo_real=0.1, hi_real=1.0),
    "TPLExponential:HL": dict(lo=6, hi=64, lc=False, hc=False, vals={16, 32, 64, 6}, scale=1.0, lo_real=0.1, hi_real=1.0),
}
INTSCALE_OK = {"Exponential", "Gaussian"}


def _set(vals):
    return "{" + ", ".join(str(v) for v in sorted(vals)) + "}"


def _b(lo, hi, lc, hc):
    return "B(%d, %d, %s, %s)" % (lo, hi, "TRUE" if lc else "FALSE", "TRUE" if hc else "FALSE")


def mc_module(name, spec_cls, real, latlon, temporal, size, base="Params"):
    """Text of the MC wrapper module + cfg for one configuration.  size: 'gen' | 'quick' | 'thorough'."""
    ob = OPTB.get(real, {})
    small = size in ("gen", "micro")
    micro = size == "micro"
    dims = [1, 2, 3] + ([4] if temporal and size == "thorough" else [])
    if temporal:
        dims = [d for d in dims if d >= 2]
    lenv = {32, 128} if small else {32, 64, 128}
    anisv = {32, 128} if small else {32, 64, 128}
    varv = {128} if small else {64, 128}
    nugv = {0, 64, -64}
    resv = {64, 128} if real not in () else {64}
    angv = {0, 1} if size != "thorough" else {0, 1, 2}
    intv = ({128, 0} if small else {64, 128, 0}) if real in INTSCALE_OK else set()
    bad = {0} if small else {0, -64}
    optv = ob.get("vals", {0})
    if small and len(optv) > 4:
        optv = set(sorted(optv)[:4])
    custom = {
        "var": [_b(32, 224, True, True)],
        "len_scale": [_b(64, 192, True, True)],
        "nugget": [_b(0, 128, True, True)] if small else [_b(0, 128, True, True), _b(64, INF, True, False)],
        "anis": [_b(32, 96, True, True)],
    }
    # besides an ordinary custom interval: the DEFAULT limits with another interval type (still a custom bound)
    if spec_cls != "Plain":
        if spec_cls == "OptDim":
            custom["opt"] = [_b(0, 256, True, True), _b(32 * (2 + ob["off"]), 50 * U, False, True)]
        elif spec_cls == "TPL":
            custom["opt"] = [_b(0, 128, True, True), _b(ob["lo"], ob["hi"], not ob["lc"], ob["hc"])]
        else:
            custom["opt"] = [_b(ob["lo"] + 32, ob["lo"] + 160, True, True), _b(ob["lo"], ob["hi"], ob["lc"], not ob["hc"])]
    if spec_cls == "TPLHL":
        lenv, resv = {128}, {64}            # 1/4 + 2 has a rational square root; no second value has dyadic ratios to it
        custom["len_scale"] = [_b(64, 192, True, True)]
        custom["opt"] = [_b(8, 48, True, True)]
        custom["var"] = [_b(64, 1472, True, True)]   # midpoint 12 is divisible by every variance factor of the lattice
        varv = {192, 384}
    if spec_cls == "TPLH":
        lenv, resv = {16, 64, 256}, {64}
        if small:
            lenv = {16, 256}
        custom["len_scale"] = [_b(32, 480, True, True)]
        custom["opt"] = [_b(8, 48, True, True)]   # keeps every Hurst value other than 1/4, 1/2 out of bounds
        custom["var"] = [_b(32, 96, True, True)]   # tight: a change of the Hurst coefficient alone leaves it
    if micro:
        lenv, anisv, varv, nugv, resv, angv, bad = ({128} if spec_cls != "TPLH" else {256}), {32}, {128}, {64}, ({128} if spec_cls not in ("TPLH", "TPLHL") else {64}), {1}, {0}
        if spec_cls == "TPLHL":
            lenv, varv = {128}, {384}
        intv = {128} if real in INTSCALE_OK else set()
        optv = ({16, 32} if spec_cls in ("TPLH", "TPLHL") else set(sorted(optv)[-2:])) if len(optv) > 2 else optv
        custom = {"var": custom["var"], "len_scale": custom["len_scale"]}
    cb = "[" + ", ".join("%s |-> {%s}" % (k, ", ".join(v)) for k, v in custom.items()) + "]"
    defs = {
        "McCls": '"%s"' % spec_cls, "McLatLon": "TRUE" if latlon else "FALSE",
        "McTemporal": "TRUE" if temporal else "FALSE", "McDims": _set(dims),
        "McLenVals": _set(lenv), "McAnisVals": _set(anisv), "McVarVals": _set(varv),
        "McNugVals": _set(nugv), "McRescaleVals": _set(resv), "McOptVals": _set(optv),
        "McIntVals": _set(intv), "McBadVals": _set(bad), "McAngVals": _set(angv),
        "McOptLo0": str(ob.get("lo", 0)), "McOptHi": str(ob.get("hi", INF)),
        "McOptLc": "TRUE" if ob.get("lc", True) else "FALSE", "McOptHc": "TRUE" if ob.get("hc", True) else "FALSE",
        "McOptOff": str(ob.get("off", 0)), "McCustomB": cb, "McInitLen": "128" if spec_cls == "TPLHL" else "64",
        "McMaxCustom": "1" if size != "thorough" else "2",
    }
    mod = "---- MODULE %s ----\nEXTENDS %s\n" % (name, base)
    mod += "".join("%s == %s\n" % kv for kv in defs.items()) + "====\n"
    cfg = "CONSTANTS\n" + "".join(" %s <- %s\n" % (k[2:], k) for k in defs)
    return mod, cfg


INVS = ["TypeOK", "LatLonIsotropic", "TimeNotRotated", "InBounds", "DerivedConsistent"]


def cfg_mc(cfg):
    return cfg + "INIT Init\nNEXT Next\nVIEW View\n" + "".join("INVARIANT %s\n" % i for i in INVS) + \
        "PROPERTY OnlyDocumentedCoupling\n"


def cfg_gen(cfg):
    return cfg + "INIT Init\nNEXT Next\n"


# ---------------------------------------------------------------------------
# interpretation of spec operations on real models


def q2f(q):
    return np.inf if q >= INF else (-np.inf if q <= -INF else q / U)


_DEFRES = {}


class RealModel:
    """A real gstools model driven by spec operations (the abstraction function lives here)."""

    def __init__(self, real, optname, fixed, latlon, temporal, st):
        import gstools as gs

        self.gs, self.real, self.optname, self.fixed = gs, real, optname, dict(fixed)
        self.latlon, self.temporal = latlon, temporal
        self.cls = getattr(gs, real.split(":")[0])
        self.ob = OPTB.get(real, {})
        self.toggle = 0
        self.is_tpl = real.startswith("TPL") and not real.startswith("TPLSimple")
        if real not in _DEFRES:
            with warnings.catch_warnings():
                warnings.simplefilter("ignore")
                _DEFRES[real] = self.cls(dim=3, **self.fixed).default_rescale()
        self._defres = _DEFRES[real]
        self.m = self.build(st, with_bounds=False)

    def optval(self, q):
        ob = self.ob
        if "scale" in ob:
            if q == ob["lo"]:
                return ob["lo_real"]
            if q == ob["hi"]:
                return ob["hi_real"]
            return q / U * ob["scale"]
        return q2f(q)

    def optq(self, x):
        ob = self.ob
        if "scale" in ob:
            return x / ob["scale"] * U
        return x * U

    def bounds_real(self, arg, b):
        lo, hi = b["lo"], b["hi"]
        if arg == "opt":
            lo, hi = (self.optval(lo) if abs(lo) < INF else q2f(lo)), (self.optval(hi) if abs(hi) < INF else q2f(hi))
        else:
            lo, hi = q2f(lo), q2f(hi)
        return [lo, hi, ("c" if b["lc"] else "o") + ("c" if b["hc"] else "o")]

    def rescale_real(self, q):
        return q / U * self._defres

    def build(self, st, with_bounds=True):
        """Construct a model directly from a spec state.  Custom bounds of var / len_scale / nugget / anis are
        narrower than the defaults, so the values go straight into the constructor and the bounds are installed
        afterwards; only an optional argument with (possibly wider) custom bounds is assigned after its bounds."""
        custom = set(st["custom"]) if with_bounds else set()
        kw = dict(self.fixed)
        if self.optname and "opt" not in custom:
            kw[self.optname] = self.optval(st["opt"])
        with warnings.catch_warnings():
            warnings.simplefilter("ignore")
            args = dict(nugget=st["nugget"] / U, len_scale=st["len"] / U, anis=[a / U for a in st["anis"]] or 1.0,
                        angles=[ANG[a] for a in st["angles"]] or 0.0,
                        rescale=self.rescale_real(st["rescale"]), latlon=self.latlon, temporal=self.temporal)
            if self.latlon:
                args["spatial_dim"] = 2
            else:
                args["dim"] = st["dim"]
            if self.is_tpl:
                m = self.cls(var_raw=st["varRaw"] / U, **args, **kw)
            else:
                m = self.cls(var=st["varRaw"] / U, **args, **kw)
            if custom:
                bk = {}
                for a in sorted(custom):
                    bk[self.optname if a == "opt" else a] = self.bounds_real(a, st["bnd"][a])
                m.set_arg_bounds(check_args=False, **bk)
                if "opt" in custom:
                    setattr(m, self.optname, self.optval(st["opt"]))
        return m

    def apply(self, op):
        """Execute one spec operation; returns None or the exception raised."""
        m, n = self.m, op["name"]
        self.toggle += 1
        try:
            with warnings.catch_warnings():
                warnings.simplefilter("ignore")
                if n == "SetVar":
                    m.var = op["v"] / U
                elif n == "SetVarRaw":
                    m.var_raw = op["v"] / U
                elif n == "SetNugget":
                    m.nugget = op["v"] / U
                elif n == "SetLenScalar":
                    m.len_scale = op["v"] / U
                elif n == "SetLenList":
                    v = [x / U for x in op["s"]]
                    m.len_scale = v if self.toggle % 2 else np.array(v)
                elif n == "SetAnis":
                    v = [x / U for x in op["s"]]
                    m.anis = v[0] if len(v) == 1 and self.toggle % 2 else v
                elif n == "SetAngles":
                    v = [ANG[x] for x in op["s"]]
                    m.angles = v[0] if len(v) == 1 and self.toggle % 2 else v
                elif n == "SetDim":
                    m.dim = op["v"]
                elif n == "SetOpt":
                    setattr(m, self.optname, self.optval(op["v"]))
                elif n == "SetRescale":
                    m.rescale = self.rescale_real(op["v"])
                elif n == "SetIntScale":
                    v = [x / U for x in op["s"]]
                    m.integral_scale = v[0] if len(v) == 1 else v
                elif n == "SetBounds":
                    a = self.optname if op["arg"] == "opt" else op["arg"]
                    b = self.bounds_real(op["arg"], op["b"])
                    if self.toggle % 2 and b[2] == "cc":
                        b = b[:2]
                    m.set_arg_bounds(check_args=op["check"], **{a: b})
                elif n == "SetBounds2":
                    # keyword order: var first (the documentation promises that the variance is reset last anyway)
                    m.set_arg_bounds(check_args=True, var=self.bounds_real("var", op["bv"]),
                                     len_scale=self.bounds_real("len_scale", op["bl"]))
                else:
                    raise AssertionError("unknown spec operation " + n)
        except ValueError as e:
            return e
        return None

    # -- projection ---------------------------------------------------------
    def expected(self, st):
        """Public attributes implied by a spec state (floats)."""
        dim = st["dim"]
        len_ = st["len"] / U
        anis = [a / U for a in st["anis"]]
        res = st["rescale"] / U
        var = st["varRaw"] / U
        if self.is_tpl:
            h = self.optval(st["opt"]) if self.optname == "hurst" else 0.5
            ll = self.fixed.get("len_low", 0.0) if self.optname == "hurst" else 0.0
            var = var * (((ll + len_) / res) ** (2 * h) - (ll / res) ** (2 * h)) / (2 * h)
        exp = {
            "dim": dim, "var": var, "var_raw": st["varRaw"] / U, "len_scale": len_, "anis": anis,
            "angles": [ANG[a] for a in st["angles"]], "nugget": st["nugget"] / U,
            "rescale": res * self._defres, "sill": var + st["nugget"] / U,
            "len_scale_vec": [len_] + [len_ * a for a in anis],
            "field_dim": (2 + int(self.temporal)) if self.latlon else dim,
            "spatial_dim": 2 if self.latlon else dim - int(self.temporal),
            "latlon": self.latlon, "temporal": self.temporal,
        }
        if self.optname:
            exp["opt"] = self.optval(st["opt"])
        for a in ("var", "len_scale", "nugget", "anis") + (("opt",) if self.optname else ()):
            exp["bounds." + a] = self.bounds_real(a, st["bnd"][a])
        return exp

    def observed(self, m=None):
        m = self.m if m is None else m
        obs = {
            "dim": m.dim, "var": m.var, "var_raw": m.var_raw, "len_scale": m.len_scale,
            "anis": list(np.atleast_1d(m.anis)), "angles": list(np.atleast_1d(m.angles)),
            "nugget": m.nugget, "rescale": m.rescale, "sill": m.sill,
            "len_scale_vec": list(m.len_scale_vec), "field_dim": m.field_dim,
            "spatial_dim": m.spatial_dim, "latlon": m.latlon, "temporal": m.temporal,
        }
        if self.optname:
            obs["opt"] = getattr(m, self.optname)
        ab = m.arg_bounds
        for a in ("var", "len_scale", "nugget", "anis") + (("opt",) if self.optname else ()):
            b = list(ab[self.optname if a == "opt" else a])
            if len(b) == 2:
                b.append("cc")
            obs["bounds." + a] = [float(b[0]), float(b[1]), b[2]]
        return obs


def _close(a, b, tol=1e-12):
    if isinstance(a, (list, tuple)) or isinstance(b, (list, tuple)):
        a, b = list(a), list(b)
        return len(a) == len(b) and all(_close(x, y, tol) for x, y in zip(a, b))
    if isinstance(a, str) or isinstance(b, str) or isinstance(a, bool) or isinstance(b, bool):
        return a == b
    a, b = float(a), float(b)
    if np.isinf(a) or np.isinf(b):
        return a == b
    return abs(a - b) <= tol * max(1.0, abs(a), abs(b))


def diff(exp, obs):
    return [k for k in exp if not _close(exp[k], obs.get(k))]


def cfgname(latlon, temporal):
    return ("latlon" if latlon else "plain") + ("+temporal" if temporal else "")


def replay_behaviour(rep, spec_cls, real, optname, fixed, latlon, temporal, beh, origin, direct_all=False):
    """beh: list of spec states (dicts incl. 'op'); the first is the initial state."""
    st0 = beh[0]
    ctx = "%s/%s" % (real, cfgname(latlon, temporal))
    try:
        rm = RealModel(real, optname, fixed, latlon, temporal, st0)
    except Exception as e:  # noqa: BLE001
        rep.violation("Init:%s:%s:construct" % (spec_cls, cfgname(latlon, temporal)),
                      "%s: cannot construct initial model: %r" % (ctx, e), {"state": st0})
        return 0
    steps = 0
    hist = []
    for st in [st0] + beh[1:]:
        op = st["op"]
        if op["name"] != "Init":
            hist.append(op)
            err = rm.apply(op)
            steps += 1
            sig = "%s:%s:%s" % (op["name"], spec_cls, cfgname(latlon, temporal))
            rp = {"class": real, "latlon": latlon, "temporal": temporal, "init": st0, "ops": list(hist),
                  "origin": origin}
            if st["status"] == "Rejected":
                if err is None:
                    rp["observed"] = rm.observed()
                    rep.violation(sig + ":not-rejected", "%s: out-of-bounds assignment %s was accepted"
                                  % (ctx, tlaval.to_tla(op)), rp)
                return steps  # rejection is terminal
            if err is not None:
                rep.violation(sig + ":spurious-rejection", "%s: valid assignment %s raised %r"
                              % (ctx, tlaval.to_tla(op), err), rp)
                return steps
        exp, obs = rm.expected(st), rm.observed()
        bad = diff(exp, obs)
        if bad:
            rp = {"class": real, "latlon": latlon, "temporal": temporal, "init": st0, "ops": list(hist),
                  "origin": origin, "expected": {k: exp[k] for k in bad}, "observed": {k: obs[k] for k in bad}}
            rep.violation("%s:%s:%s:%s" % (op["name"], spec_cls, cfgname(latlon, temporal), bad[0].split(".")[0] if not bad[0].startswith("bounds") else "bounds"),
                          "%s: after %s public state differs from the documented result in %s: expected %s, observed %s"
                          % (ctx, tlaval.to_tla(op), bad, {k: exp[k] for k in bad}, {k: obs[k] for k in bad}), rp)
            return steps
        # the model must equal one constructed directly with the resulting values
        if op["name"] != "Init" and (st is beh[-1] or direct_all):
            try:
                direct = rm.build(st)
            except Exception as e:  # noqa: BLE001
                rep.violation("%s:%s:%s:direct-construction-fails" % (op["name"], spec_cls, cfgname(latlon, temporal)),
                              "%s: state reached after %s cannot be constructed directly: %r" % (ctx, tlaval.to_tla(op), e),
                              {"class": real, "latlon": latlon, "temporal": temporal, "init": st0, "ops": list(hist)})
                return steps
            dobs = rm.observed(direct)
            bad = diff(dobs, obs)
            if bad or not (direct == rm.m):
                rep.violation("%s:%s:%s:differs-from-direct" % (op["name"], spec_cls, cfgname(latlon, temporal)),
                              "%s: model after %s differs from the directly constructed one in %s" % (ctx, tlaval.to_tla(op), bad or "__eq__"),
                              {"class": real, "latlon": latlon, "temporal": temporal, "init": st0, "ops": list(hist),
                               "direct": {k: dobs[k] for k in bad}, "observed": {k: obs[k] for k in bad}})
                return steps
    return steps


REPRESENTATIVE = ("Exponential", "Gaussian", "Stable", "JBessel", "TPLGaussian", "TPLGaussian:H", "TPLGaussian:HL")
COMBOS = [(False, False), (False, True), (True, False), (True, True)]


class _Collect:
    """Stand-in for Report inside worker processes."""

    def __init__(self):
        self.violations = []

    def violation(self, key, what, replay):
        if not any(k == key for k, _w, _r in self.violations):
            self.violations.append((key, what, replay))


def _replay_tag(job):
    tag, (spec_cls, real, optname, fixed, latlon, temporal), scdir, cap2, rseed, tier, seed, gtag = job
    rng = random.Random(rseed)
    col = _Collect()
    behs = []
    for kind in ("G1", "G2"):
        dot = os.path.join(scdir, "%s_%s.dot" % (kind, gtag))
        nodes, edges, inits = tlc.read_dot(dot)
        ps, _left = paths.edge_cover(nodes, edges, inits, rng=rng, merge=(kind == "G2"))
        if kind == "G2" and cap2 and len(ps) > cap2:
            ps = rng.sample(ps, cap2)
        behs += [("state-graph edge cover (%s)" % kind, [nodes[i] for i in p]) for p in ps]
    for beh in tlc.read_sim_traces(os.path.join(scdir, "sim"), "SIM_" + gtag):
        behs.append(("simulate", [s for _a, s in beh]))
    out = {"traces": 0, "nontrivial": set(), "samples": [], "steps": 0}
    for origin, sts in behs:
        steps = replay_behaviour(col, spec_cls, real, optname, fixed, latlon, temporal, sts, origin,
                                 direct_all=(tier == "thorough"))
        out["traces"] += 1
        out["steps"] += steps
        if steps:
            out["nontrivial"].add(hash((tag, tlaval.freeze([s["op"] for s in sts]))))
        if origin == "simulate" and not out["samples"]:
            out["samples"].append({"class": real, "config": cfgname(latlon, temporal),
                                   "ops": [tlaval.to_tla(s["op"]) for s in sts][1:]})
    out["violations"] = col.violations
    return out


def plan(tier):
    out = []
    for spec_cls, reals in CLASSES.items():
        for (real, optname, fixed) in reals:
            for latlon, temporal in COMBOS:
                if tier == "quick" and real not in REPRESENTATIVE and (latlon, temporal) not in ((False, False), (True, True)):
                    continue
                if os.environ.get("VERIF_ONLY") and real not in os.environ["VERIF_ONLY"].split(","):
                    continue
                out.append((spec_cls, real, optname, fixed, latlon, temporal))
    return out


def with_depth(mod, depth):
    return mod.replace("====", 'DepthBound == TLCGet("level") <= %d\n====' % depth)


# ---------------------------------------------------------------------------
# code -> spec: random executions of the real code validated by TraceParams.tla

TRACE_CLASSES = [("Plain", "Exponential"), ("Plain", "Gaussian"), ("OptFixed", "Stable"), ("OptDim", "JBessel"),
                 ("OptDim", "SuperSpherical"), ("TPL", "TPLGaussian"), ("TPLH", "TPLGaussian:H"), ("TPLHL", "TPLGaussian:HL")]
_UNANG = {v: k for k, v in ANG.items()}


def _units(x):
    if np.isinf(x):
        return INF if x > 0 else -INF
    q = x * U
    if abs(q - round(q)) > 1e-7:
        raise OffLattice(x)
    return int(round(q))


class OffLattice(Exception):
    pass


def project(rm):
    """Projection of the real model onto the spec state (units of 1/64, angle tokens)."""
    m = rm.m
    ab = m.arg_bounds
    bnd = {}
    for a in ("var", "len_scale", "nugget", "anis", "opt"):
        if a == "opt" and not rm.optname:
            bnd[a] = {"lo": 0, "hi": INF, "lc": True, "hc": True}
            continue
        b = list(ab[rm.optname if a == "opt" else a])
        if len(b) == 2:
            b.append("cc")
        conv = (lambda x: int(round(rm.optq(x))) if not np.isinf(x) else (INF if x > 0 else -INF)) if a == "opt" else _units
        lo, hi = conv(float(b[0])), conv(float(b[1]))
        if a == "opt" and "lo_real" in rm.ob:
            lo = rm.ob["lo"] if float(b[0]) == rm.ob["lo_real"] else lo
            hi = rm.ob["hi"] if float(b[1]) == rm.ob["hi_real"] else hi
        bnd[a] = {"lo": lo, "hi": hi, "lc": b[2][0] == "c", "hc": b[2][1] == "c"}
    optq = 0
    if rm.optname:
        x = getattr(m, rm.optname)
        optq = int(round(rm.optq(x)))
        if "lo_real" in rm.ob and x == rm.ob["lo_real"]:
            optq = rm.ob["lo"]
        if "hi_real" in rm.ob and x == rm.ob["hi_real"]:
            optq = rm.ob["hi"]
    return {"dim": int(m.dim), "len": _units(float(m.len_scale)), "anis": [_units(float(a)) for a in np.atleast_1d(m.anis)],
            "angles": [_UNANG[round(float(a), 6)] for a in np.atleast_1d(m.angles)],
            "varRaw": _units(float(m.var_raw)), "nugget": _units(float(m.nugget)),
            "rescale": _units(float(m.rescale) / rm._defres), "opt": optq, "bnd": bnd, "custom": sorted(rm.custom)}


def random_executions(spec_cls, real, optname, fixed, latlon, temporal, rng, n_exec, n_ops):
    """Random assignments on real models (no TLC involved); returns the list of logged events."""
    ob = OPTB.get(real, {})
    tplh = spec_cls in ("TPLH", "TPLHL")
    lens = ([128] if spec_cls == "TPLHL" else [16, 64, 256]) if tplh else [16, 32, 64, 128, 256]
    ress = [64] if tplh else [64, 128, 256]
    varv = [32, 64, 128, 256]
    custom_b = {"var": (32, 96) if tplh else (32, 224), "len_scale": (32, 480) if tplh else (64, 192), "nugget": (0, 128), "anis": (32, 96)}
    if spec_cls == "TPLHL":
        custom_b.update({"var": (64, 1472), "len_scale": (64, 192)})
        varv = [192, 384]
    if spec_cls == "OptDim":
        custom_b["opt"] = (0, 256)
    elif spec_cls == "TPL":
        custom_b["opt"] = (0, 128)
    elif spec_cls in ("TPLH", "TPLHL"):
        custom_b["opt"] = (8, 48)
    elif spec_cls == "OptFixed":
        custom_b["opt"] = (ob["lo"] + 32, ob["lo"] + 160)
    dims = [4 if temporal else 3] if latlon else ([2, 3, 4] if temporal else [1, 2, 3, 4])
    events = []

    def noang(d):
        return d * (d - 1) // 2

    def fresh_state():
        d = rng.choice(dims)
        optv = sorted(ob.get("vals", {0}))
        if spec_cls == "OptDim":
            lo = 32 * (d + ob["off"])
            optv = [v for v in optv if v >= lo] or [lo + 64]
        elif spec_cls != "Plain":
            optv = [v for v in optv if (v > ob["lo"] or (ob["lc"] and v == ob["lo"])) and (v < ob["hi"] or (ob["hc"] and v == ob["hi"]))]
        anis = [rng.choice([32, 64, 128]) for _ in range(d - 1)]
        if latlon:
            anis[:2] = [64, 64]
        nang = noang(d)
        ang = [rng.choice([0, 1, 2]) for _ in range(nang)]
        if latlon:
            ang = [0] * nang
        elif temporal:
            ang = [a if i < noang(d - 1) else 0 for i, a in enumerate(ang)]
        return {"dim": d, "len": rng.choice(lens), "anis": anis, "angles": ang, "varRaw": rng.choice([64, 128]),
                "nugget": rng.choice([0, 32, 64]), "rescale": rng.choice(ress), "opt": rng.choice(optv) if optv else 0,
                "custom": [], "bnd": None}

    for _x in range(n_exec):
        st = fresh_state()
        st["bnd"] = {}
        rm = RealModel(real, optname, fixed, latlon, temporal, dict(st, custom=[]))
        rm.custom = set()
        events.append({"name": "Init", "post": project(rm), "raised": False})
        for _i in range(n_ops):
            kind = rng.choice(["SetVar", "SetNugget", "SetLenScalar", "SetLenList", "SetAnis", "SetAngles", "SetDim", "SetRescale",
                               "SetBounds", "SetBounds", "SetBounds2"] + (["SetOpt", "SetOpt"] if optname else []) +
                              (["SetVarRaw"] if spec_cls in ("TPL", "TPLH") else []) + (["SetIntScale"] if real in INTSCALE_OK else []))
            op = {"name": kind}
            if kind in ("SetVar", "SetVarRaw"):
                op["v"] = rng.choice(varv + [0, -64])
            elif kind == "SetNugget":
                op["v"] = rng.choice([0, 32, 64, 128, -64])
            elif kind == "SetLenScalar":
                op["v"] = rng.choice(lens + [0])
            elif kind == "SetLenList":
                op["s"] = [rng.choice(lens) for _ in range(rng.choice([2, 3, 4]))]
                if tplh and "len_scale" in rm.custom:
                    continue
            elif kind == "SetAnis":
                op["s"] = [rng.choice([16, 32, 64, 128, 256, 0]) for _ in range(rng.choice([1, 2, 3]))]
            elif kind == "SetAngles":
                op["s"] = [rng.choice([0, 1, 2]) for _ in range(rng.choice([1, 2, 3, 6]))]
            elif kind == "SetDim":
                op["v"] = rng.choice([d for d in (1, 2, 3, 4) if not temporal or d >= 2])
            elif kind == "SetRescale":
                if spec_cls in ("TPL", "TPLH"):
                    continue    # the variance follows rescale: left to the TLC-generated behaviours
                op["v"] = rng.choice(ress)
            elif kind == "SetOpt":
                op["v"] = rng.choice(sorted(ob.get("vals", {0})))
            elif kind == "SetIntScale":
                op["s"] = [rng.choice([32, 64, 128, 0] if k == 0 else [32, 64, 128]) for k in range(rng.choice([1, 1, 2, 3]))]
            if kind == "SetIntScale" and "len_scale" in rm.custom:
                lo_, hi_ = custom_b["len_scale"]
                if not (lo_ <= op["s"][0] <= hi_ and lo_ <= U <= hi_):
                    continue    # unmodelled: an intermediate length scale of the setter leaves the custom bounds
            if kind == "SetBounds2":
                if rm.custom:
                    continue
                (vlo, vhi), (llo, lhi) = custom_b["var"], custom_b["len_scale"]
                op.update(bv={"lo": vlo, "hi": vhi, "lc": True, "hc": True}, bl={"lo": llo, "hi": lhi, "lc": True, "hc": True})
            elif kind == "SetBounds":
                a = rng.choice(sorted(custom_b))
                if latlon and a == "anis":
                    continue
                lo, hi = custom_b[a]
                op.update(arg=a, b={"lo": lo, "hi": hi, "lc": True, "hc": True}, check=rng.random() < 0.7)
                if not op["check"]:
                    # the unchecked form is only modelled when the current value is inside the new bounds
                    try:
                        pr = project(rm)
                        vnow = _units(float(rm.m.var))
                    except (OffLattice, KeyError):
                        break
                    cur = {"var": None, "len_scale": [pr["len"]], "nugget": [pr["nugget"]], "anis": pr["anis"], "opt": [pr["opt"]]}[a]
                    if cur is None:
                        cur = [vnow]
                    if not all(lo <= c <= hi for c in cur):
                        op["check"] = True
            err = rm.apply(op)
            if kind == "SetBounds" and err is None:
                rm.custom.add(op["arg"])
            if kind == "SetBounds2" and err is None:
                rm.custom |= {"var", "len_scale"}
            try:
                post = project(rm) if err is None else events[-1]["post"]
            except (OffLattice, KeyError):
                # value outside the modelled lattice: abandon this execution
                events.append({"name": "Init", "post": events[-1]["post"], "raised": False}) if False else None
                break
            ev = dict(op, post=post, raised=err is not None)
            events.append(ev)
            if err is not None:
                break   # a rejected assignment ends the execution (the spec says nothing about the limbo state)
    return events


def trace_validation(rep, sc, tier, rng):
    import json

    n_exec, n_ops = (60, 25) if tier == "quick" else (600, 40)
    jobs, meta = [], {}
    for spec_cls, real in TRACE_CLASSES:
        _n, optname, fixed = next(r for r in CLASSES[spec_cls] if r[0] == real)
        for latlon, temporal in COMBOS:
            tag = "%s_%d%d" % (real.replace(":", "_"), latlon, temporal)
            evs = random_executions(spec_cls, real, optname, fixed, latlon, temporal, rng, n_exec, n_ops)
            fn = sc.write("trace_%s.json" % tag, json.dumps(evs))
            name = "TR_" + tag
            mod, cfg = mc_module(name, spec_cls, real, latlon, temporal, "quick", base="TraceParams")
            mod = mod.replace("McMaxCustom == 1", "McMaxCustom == 5")
            sc.write(name + ".tla", mod)
            cfgt = cfg + "SPECIFICATION TraceSpec\nINVARIANT TraceMatches\nINVARIANT NotStuck\nPOSTCONDITION TraceAccepted\nCHECK_DEADLOCK FALSE\n"
            jobs.append((tag, sc, name, cfgt, dict(workers=1, timeout=1800, env={"TRACE_FILE": fn})))
            meta[tag] = (spec_cls, real, latlon, temporal, evs)
    # binding demonstration: one corrupted logged field must make TLC reject the trace
    tag0 = jobs[0][0]
    evs0 = json.loads(json.dumps(meta[tag0][4]))
    k = next(i for i in range(len(evs0) // 2, len(evs0)) if evs0[i]["name"] != "Init" and not evs0[i]["raised"])
    evs0[k]["post"]["len"] += 64
    fn0 = sc.write("trace_corrupt.json", json.dumps(evs0))
    jobs.append(("__corrupt__", sc, jobs[0][2], jobs[0][3], dict(workers=1, timeout=1800, env={"TRACE_FILE": fn0})))
    res = tlc.run_many(jobs, parallel=8)
    rc = res.pop("__corrupt__")
    tlc.must_pass(rc, "corrupted trace")
    if rc.error is None:
        raise tlc.MachineryError("binding not demonstrated: a corrupted trace was accepted by TraceParams")
    rep.extra["binding_demonstration"] = "a recorded execution with one corrupted field (len_scale of event %d) is rejected: %s %s" % ((k,) + rc.error)
    total_events = total_exec = 0
    for tag, r in sorted(res.items()):
        spec_cls, real, latlon, temporal, evs = meta[tag]
        tlc.must_pass(r, "trace " + tag)
        rep.add_tlc("TraceParams[%s,%s]" % (real, cfgname(latlon, temporal)), r)
        total_events += len(evs)
        total_exec += sum(1 for e in evs if e["name"] == "Init")
        if r.error:
            tr = tlc.error_trace(r)
            l = tr[-1]["state"].get("l", 0) if tr else 0
            idx = max(0, l - 2) if r.error[1] == "TraceMatches" else max(0, l - 1)
            start = max(i for i in range(idx + 1) if evs[i]["name"] == "Init")
            bad = evs[idx]
            rep.violation("trace:%s:%s:%s:%s" % (bad["name"], spec_cls, cfgname(latlon, temporal), r.error[1]),
                          "%s/%s: recorded execution is not a behaviour of Params.tla: event #%d %s (%s) is not explained by the spec"
                          % (real, cfgname(latlon, temporal), idx, {k: v for k, v in bad.items() if k not in ("post",)}, r.error[1]),
                          {"class": real.split(":")[0], "latlon": latlon, "temporal": temporal, "events": evs[start:idx + 1],
                           "spec_state": tr[-1]["state"] if tr else None})
    rep.traces += total_exec
    rep.extra["trace_validation"] = {"executions": total_exec, "events": total_events,
                                     "note": "random executions of real models (not generated by TLC) accepted by TraceParams.tla"}
    if meta:
        ev0 = next(iter(meta.values()))[4]
        rep.sample({"recorded_execution": [{k: v for k, v in e.items() if k != "post"} for e in ev0[:8]]}, cap=9)


def run(pid, tier, seed, replay=None):
    rep = Report(pid, tier, seed)
    rng = random.Random(seed)
    rep.assumptions += [
        "abstraction: real parameters are the float images of the spec's 1/64 units; angle tokens 0,1,2 = 0, 0.3, 1.1 rad",
        "spec classes Plain/OptFixed/OptDim/TPL represent the 17 shipped classes; TPL models use hurst=0.5 so that var_factor = len_scale/rescale is exact",
        "a rejected assignment is terminal (the state after a failed assignment is not constrained by the property)",
    ]
    if replay:
        import json
        rp = json.load(open(replay))["replay"]
        _n, optname, fixed = next(r for v in CLASSES.values() for r in v if r[0] == rp["class"])
        print("replaying", rp["class"], cfgname(rp["latlon"], rp["temporal"]))
        rm = RealModel(rp["class"], optname, fixed, rp["latlon"], rp["temporal"], rp["init"])
        print("  init ->", rm.observed())
        for op in rp["ops"]:
            print(" ", tlaval.to_tla(op), "-> raised", repr(rm.apply(op)), "\n     ", rm.observed())
        return 0
    thorough = tier == "thorough"
    with tlc.Scratch() as sc:
        jobs, meta, shared, graph_of = [], {}, {}, {}
        os.makedirs(sc.path("sim"), exist_ok=True)
        for (spec_cls, real, optname, fixed, latlon, temporal) in plan(tier):
            tag = "%s_%d%d" % (real.replace(":", "_"), latlon, temporal)
            meta[tag] = (spec_cls, real, optname, fixed, latlon, temporal)
            # classes of one spec class with the same optional-argument bounds share their TLC models
            gkey = (spec_cls, tlaval.freeze(OPTB.get(real, {})), real in INTSCALE_OK, latlon, temporal)
            if gkey in shared:
                graph_of[tag] = shared[gkey]
                continue
            shared[gkey] = graph_of[tag] = tag
            if thorough or real in REPRESENTATIVE:
                mod, cfg = mc_module("MC_" + tag, spec_cls, real, latlon, temporal, "quick" if thorough else "gen")
                sc.write("MC_%s.tla" % tag, mod)
                jobs.append((("mc", tag), sc, "MC_" + tag, cfg_mc(cfg), dict(workers=4 if thorough else 2, timeout=3000)))
            mod, cfg = mc_module("G1_" + tag, spec_cls, real, latlon, temporal, "gen")
            sc.write("G1_%s.tla" % tag, with_depth(mod, 2))
            jobs.append((("g1", tag), sc, "G1_" + tag, cfg_gen(cfg) + "CONSTRAINT DepthBound\n",
                         dict(workers=2, dump=("dot", sc.path("G1_%s.dot" % tag)), timeout=1800)))
            mod, cfg = mc_module("G2_" + tag, spec_cls, real, latlon, temporal, "gen" if thorough else "micro")
            sc.write("G2_%s.tla" % tag, with_depth(mod, 3))
            jobs.append((("g2", tag), sc, "G2_" + tag, cfg_gen(cfg) + "CONSTRAINT DepthBound\n",
                         dict(workers=2, dump=("dot", sc.path("G2_%s.dot" % tag)), timeout=1800)))
            mod, cfg = mc_module("SIM_" + tag, spec_cls, real, latlon, temporal, "thorough" if thorough else "quick")
            sc.write("SIM_%s.tla" % tag, mod)
            jobs.append((("sim", tag), sc, "SIM_" + tag, cfg_gen(cfg), dict(
                simulate=dict(num=200 if thorough else 30, depth=25 if thorough else 14,
                              seed=rng.randrange(1, 2**31), file=sc.path("sim/SIM_" + tag)), timeout=1800)))
        import time as _t
        _t0 = _t.time()
        results = tlc.run_many(jobs, parallel=8 if not thorough else 4)
        print("TLC: %d jobs in %.1fs" % (len(jobs), _t.time() - _t0))
        for (kind, tag), r in sorted(results.items()):
            tlc.must_pass(r, "%s %s" % (kind, tag))
            spec_cls, real, optname, fixed, latlon, temporal = meta[tag]
            rep.add_tlc("Params.%s[%s,%s]" % (kind, real, cfgname(latlon, temporal)), r)
            if r.error:
                rep.violation("design:%s:%s" % (spec_cls, r.error[1]),
                              "the ideal spec violates its own %s %s for %s" % (r.error[0], r.error[1], tag),
                              {"trace": tlc.error_trace(r)})
        work = []
        for tag, (spec_cls, real, optname, fixed, latlon, temporal) in meta.items():
            work.append((tag, meta[tag], sc.dir, 5000 if thorough else 700, rng.randrange(2**31), tier, seed, graph_of[tag]))
        import multiprocessing as mp
        with mp.get_context("fork").Pool(14) as pool:
            for res in pool.imap_unordered(_replay_tag, work):
                rep.traces += res["traces"]
                rep.evaluations += res["traces"]
                rep.nontrivial |= res["nontrivial"]
                for smp in res["samples"]:
                    rep.sample(smp, cap=8)
                for key, what, rp in res["violations"]:
                    rep.violation(key, what, rp)
                rep.extra.setdefault("steps_executed_on_real_models", 0)
                rep.extra["steps_executed_on_real_models"] += res["steps"]
        trace_validation(rep, sc, tier, rng)
    return rep.finish(
        level="model_checking",
        rule="behaviours = edge cover of TLC's dumped state graph: every transition reachable by 1 operation (full value domain) and by 2 operations "
             "(reduced domain; sampled in quick) from every initial state, + TLC -simulate random histories; distinct = distinct (class, configuration, operation sequence); "
             "non-trivial = at least one assignment executed on the real model",
        exhaustive=False)
