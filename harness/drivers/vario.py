"""C08 / C09: Vario.tla bound to gstools.variogram.

``Vario.tla`` is the *definition* of the empirical variogram estimators in exact integer
arithmetic.  TLC enumerates inputs (Init picks one from constant pools written into an MC
wrapper by this driver) and computes the expected result (state variable ``out``); the dumped
states are parsed and every (input, expected) pair is executed on the real code.

C08  every input is run through (a) the compiled kernels ``unstructured / directional /
     structured / ma_structured`` and (b) ``vario_estimate(return_counts=True)`` /
     ``vario_estimate_axis``, both estimators; counts must be equal (or be one of the
     alternatives the spec admits for boundary pairs), values to 1e-12.
C09  the invariances / preprocessing relations are invariants of the spec (checked by TLC on
     every enumerated input); on the binding side each related input goes through the real
     ``vario_estimate`` and is compared with the TLC value (permutation, lattice motions,
     shift, scale, mask / masked array / no_data / NaN / removal, per-field skipping, angles vs
     direction, direction length, geo_scale, mean / trend / normalizer, structured mesh vs point
     list, sub-sampling).

The only arithmetic outside TLC is the Cressie-Hawkins normalisation applied to the bag of
|differences| (it needs square roots) and the division num/den of the Matheron rational.
"""
PROPERTIES = ("C08", "C09")

import json
import math
import os
import random
import time
import zlib

import numpy as np

from .. import tlc, tlaval
from ..report import Report

NAN = 1000
TOLS = {"pi8": math.pi / 8, "pi6": math.pi / 6, "pi4": math.pi / 4, "pi3": math.pi / 3, "pi2": math.pi / 2}
K_ANTI = "gc:antipodal:nan-distance"
K_COINC = "dir:separated:coincident-pair:first-direction-only"
K_SQUARE = "structured-mesh:equal-length-axes:read-as-1d"
K_ALLMASK = "dir:all-points-masked:result-shape-ignores-directions"

C08_INVS = ["WellFormed", "HalfOpen", "DirWithinIso", "DirLengthFree", "EarlyExitSound", "EarlyFirstSame"]
C09_INVS = {
    "iso": ["PermInvariant", "TranslationInvariant", "OrthoInvariant", "ShiftInvariant", "ScaleCovariant",
            "MissingIsRemoved", "RepresentationIrrelevant", "MarkerUnitFree", "PreprocessAfterMarking", "PerFieldSkipping"],
    "dir": ["PermInvariant", "TranslationInvariant", "OrthoInvariant", "DirRowsIndependent", "DirLengthInvariant", "ShiftInvariant",
            "ScaleCovariant", "MissingIsRemoved", "RepresentationIrrelevant", "MarkerUnitFree", "PreprocessAfterMarking"],
    "gc": ["PermInvariant", "OrthoInvariant", "ShiftInvariant", "ScaleCovariant", "MissingIsRemoved", "RepresentationIrrelevant",
           "MarkerUnitFree", "PreprocessAfterMarking", "UnitFree"],
    "axis": ["AxisIsDirectional", "AxisReversal", "AxisMaskIsMissing", "AxisNoDataZero"],
    "sub": ["SubsampleAll", "PermInvariant", "PerFieldSkipping", "MissingIsRemoved"],
}

# ---------------------------------------------------------------------------
# input pools (all choices from random.Random(seed))

PYTH = {2: [(3, 4), (4, 3), (0, 5), (3, -4)], 3: [(1, 2, 2), (2, 1, -2), (0, 3, 4), (2, 3, 6), (2, 4, 4), (4, 4, 2)]}


def rand_points(rng, dim, n):
    lim = 5 if dim == 1 else 3
    kind = rng.random()
    if kind < 0.2:  # collinear
        a = [rng.randint(-1, 1) for _ in range(dim)]
        v = [rng.randint(-1, 1) for _ in range(dim)]
        if not any(v):
            v[rng.randrange(dim)] = 1
        return tuple(tuple(a[c] + t * v[c] for c in range(dim)) for t in (rng.randint(-2, 2) for _ in range(n)))
    pts = []
    for _ in range(n):
        if pts and rng.random() < 0.2:
            pts.append(rng.choice(pts))  # duplicate point
        else:
            pts.append(tuple(rng.randint(-lim, lim) for _ in range(dim)))
    if dim >= 2 and n >= 2 and kind > 0.8:  # a pair at an integer distance (perfect square)
        d = rng.choice(PYTH[dim])
        q = tuple(pts[0][c] + d[c] for c in range(dim))
        if all(abs(x) <= 6 for x in q):
            pts[1] = q
    return tuple(pts)


def rand_fields(rng, n, nf, p_nan=None, lo=-2, hi=2):
    p_nan = rng.choice([0.0, 0.0, 0.15, 0.3]) if p_nan is None else p_nan
    flds = [[NAN if rng.random() < p_nan else rng.randint(lo, hi) for _ in range(n)] for _ in range(nf)]
    if n >= 2 and rng.random() < 0.25:  # a point without data in any field
        j = rng.randrange(n)
        for f in flds:
            f[j] = NAN
    return tuple(tuple(f) for f in flds)


SPECIAL_EDGES = [(0, 2, 4, 6, 8, 10, 12), (10, 11), (6, 10), (1, 3, 5, 7), (0, 1), (2, 20), (5, 6, 20, 21),
                 (0, 10), (4, 6, 10, 14), (3, 4), (0, 2), (2, 4, 6), (0, 3, 6, 9, 12)]


def rand_edges(rng):
    if rng.random() < 0.35:
        return rng.choice(SPECIAL_EDGES)
    e = [rng.choice([0, 0, 0, 1, 2, 3, 4])]
    for _ in range(rng.randint(1, 4)):
        e.append(e[-1] + rng.choice([1, 2, 2, 2, 3, 4, 6]))
    return tuple(e)


DIRS = {2: [(1, 0), (0, 1), (1, 1), (-1, 1), (2, 1), (1, 2), (1, -2), (3, 1), (0, -2), (-3, 0), (2, 2), (1, 3)],
        3: [(1, 0, 0), (0, 1, 0), (0, 0, 1), (1, 1, 0), (1, 0, 1), (0, 1, -1), (1, 1, 1), (1, -1, 1), (2, 1, 0),
            (0, 0, -2), (1, 2, 2), (0, 1, 1), (-1, 1, 0)]}


CRAFTED_DIRS = {2: [((1, 0), (0, 1), (3, 1)), ((1, 0), (0, 1), (2, 1)), ((1, 0), (-1, 1), (1, 3), (0, 1)), ((1, 1), (-1, 1), (1, 0)),
                    ((1, 0), (0, 1), (1, 2), (2, 1))],
                3: [((1, 0, 0), (0, 1, 0), (2, 1, 0)), ((1, 0, 0), (0, 0, 1), (0, 1, 0), (1, 0, 1)), ((0, 0, 1), (1, 1, 0), (1, 2, 2)),
                    ((1, 0, 0), (0, 1, 0), (0, 0, 1), (1, 1, 1))]}
DSCALES = [(1, 1), (1, 1), (1, 2), (1, 4), (3, 4), (-1, 2), (2, 1), (3, 1), (-1, 1), (-3, 4)]


def rand_dirs(rng, dim):
    """A direction set: integer vectors u and a rational length factor num/den for each of them
    (dyadic, so that the float image is exact; shorter than u, longer, reversed)."""
    if rng.random() < 0.3:  # sets where some cones overlap and others do not; listed in a random order
        u = list(rng.choice(CRAFTED_DIRS[dim]))
        rng.shuffle(u)
        u = tuple(u)
    else:
        k = rng.choice([1, 1, 2, 2, 3, 3, 4])
        u = tuple(rng.sample(DIRS[dim], k))
    if rng.random() < 0.3:
        sc = tuple((1, 1) for _ in u)
    else:
        sc = tuple(rng.choice(DSCALES) for _ in u)
    return _FrozenRec({"u": u, "s": sc})


def rand_gc_points(rng, n):
    fam = rng.choice(["equator", "meridian", "octa"])
    pts = []
    if fam == "equator":
        for _ in range(n):
            r = rng.random()
            if r < 0.12:
                pts.append((rng.choice([90, -90]), rng.randint(-180, 360)))
            elif pts and r < 0.25:
                pts.append((0, pts[-1][1] + rng.choice([0, 360, 180, -180, -360])))
            else:
                pts.append((0, rng.choice([rng.randint(-180, 540), rng.randint(-30, 30), 180, -180, 0, 360])))
    elif fam == "meridian":
        lon0 = rng.randint(-180, 180)
        for _ in range(n):
            r = rng.random()
            if r < 0.1:
                pts.append((rng.choice([90, -90]), rng.randint(-180, 360)))
            elif pts and r < 0.3 and abs(pts[-1][0]) != 90:  # the antipode of the previous point
                pts.append((-pts[-1][0], pts[-1][1] + 180))
            else:
                lat = rng.choice([82, -82, 12, 8]) if r > 0.9 else rng.randint(-89, 89)  # 82, 12, 8: rounding-prone antipodes
                pts.append((lat, lon0 + rng.choice([0, 0, 180, 360, -180])))
    else:
        for _ in range(n):
            pts.append((rng.choice([0, 0, 90, -90]), rng.choice([0, 90, 180, 270, -90, 360])))
    return tuple(pts)


def gc_dist(p, q):
    """Same rule as GcDist in the spec -- used only to place bin edges near real distances."""
    if abs(p[0]) == 90 or abs(q[0]) == 90:
        return abs(p[0] - q[0])
    if p[0] == 0 and q[0] == 0:
        m = (p[1] - q[1]) % 360
        return min(m, 360 - m)
    if (p[1] - q[1]) % 360 == 0:
        return abs(p[0] - q[0])
    return 180 - abs(p[0] + q[0])


def rand_gc_edges(rng, ptsets):
    ds = sorted({gc_dist(p[a], p[b]) for p in ptsets for a in range(len(p)) for b in range(a + 1, len(p))} or {10})
    e = set()
    for _ in range(rng.randint(2, 5)):
        d = rng.choice(ds)
        r = rng.random()
        if r < 0.6:
            e.add(max(0, 2 * d + rng.choice([-1, 1, -3, 3, 21, -21])))  # half degrees: never a boundary
        elif r < 0.8:
            e.add(2 * d)  # exactly a distance: boundary
        else:
            e.add(rng.randint(0, 361))
    if rng.random() < 0.4:
        e.add(0)
    e = sorted(e)
    if len(e) < 2:
        e.append(e[-1] + 7)
    return tuple(e)


def rand_grid(rng):
    nd = rng.choice([1, 2, 2, 3])
    shape = [rng.randint(2, 5) if nd == 1 else rng.randint(1, 4) if nd == 2 else rng.randint(1, 3) for _ in range(nd)]
    if all(s == 1 for s in shape):
        shape[rng.randrange(nd)] = 3
    shape3 = tuple(shape + [1] * (3 - nd))
    n = shape3[0] * shape3[1] * shape3[2]
    p_nan = rng.choice([0.0, 0.0, 0.15])
    p_msk = rng.choice([0.0, 0.2, 0.35])
    vals = tuple(NAN if rng.random() < p_nan else rng.randint(-2, 2) for _ in range(n))
    mask = tuple(rng.random() < p_msk for _ in range(n))
    ax = []
    for s in shape3:
        a = [rng.randint(-2, 1)]
        for _ in range(s - 1):
            a.append(a[-1] + rng.choice([1, 1, 2, 3]))
        ax.append(tuple(a))
    return {"shape": shape3, "vals": vals, "mask": mask, "ax": tuple(ax), "nd": nd}


def _uniq(gen, k, limit=200):
    out, tries = [], 0
    while len(out) < k and tries < limit * k:
        x = gen()
        tries += 1
        if x not in out:
            out.append(x)
    return out


SIZES = {
    # (pid, tier): mode -> parameters
    ("C08", "quick"): dict(iso=dict(ns=(2, 3, 4, 5, 6), P=10, F=8, E=8),
                           dir=dict(ns=(2, 3, 4, 5), P=5, F=3, E=2, D=6, B=(0, 1, 2)),
                           gc=dict(ns=(2, 3, 4, 5), P=16, F=4, E=8, reps=3),
                           axis=dict(G=260, E=3), sub=None, cap=1700),
    ("C09", "quick"): dict(iso=dict(ns=(2, 3, 4, 5, 6), P=6, F=5, E=5),
                           dir=dict(ns=(2, 3, 4), P=2, F=2, E=2, D=4, B=(0, 2)),
                           gc=dict(ns=(2, 3, 4, 5), P=8, F=3, E=5, reps=2),
                           axis=dict(G=120, E=3), sub=dict(ns=(4, 5, 6, 7), P=4, F=2, E=3), cap=130),
    ("C08", "thorough"): dict(iso=dict(ns=(2, 3, 4, 5, 6), P=32, F=16, E=16),
                              dir=dict(ns=(2, 3, 4, 5, 6), P=10, F=3, E=4, D=7, B=(0, 1, 2, 3)),
                              gc=dict(ns=(2, 3, 4, 5, 6), P=40, F=6, E=12, reps=6),
                              axis=dict(G=3000, E=4), sub=None, cap=6000),
    ("C09", "thorough"): dict(iso=dict(ns=(2, 3, 4, 5, 6), P=16, F=8, E=8),
                              dir=dict(ns=(2, 3, 4, 5), P=6, F=3, E=3, D=6, B=(0, 1, 2)),
                              gc=dict(ns=(2, 3, 4, 5), P=16, F=4, E=8, reps=4),
                              axis=dict(G=1200, E=4), sub=dict(ns=(3, 4, 5, 6, 7), P=10, F=3, E=4), cap=900),
}

COMMON = {"Shifts": frozenset({-3, 5}), "Scales": frozenset({-1, 2, 3}),
          "Transl": frozenset({(1, -2, 3), (-3, 0, 1)}), "DirMults": frozenset({-1, 3})}
# integer valued trend functions t(p) = c0 + c1 p1 + c2 p2 + c3 p3 (small for lat-lon: values stay far from the markers)
TRENDS = {"euclid": [(1, 2, -1, 1), (-3, -2, 1, 2)], "gc": [(1, 1, -1, 0), (2, -1, 1, 0)]}
EMPTY = {"Groups": frozenset(), "EdgeSets": frozenset(), "DirSets": frozenset(), "Tols": frozenset(),
         "Bands": frozenset({0}), "Grids": frozenset(), "SubSizes": frozenset(), "SeedVals": frozenset()}


def _grp(P, F):
    return {"P": frozenset(P), "F": frozenset(F)}


def plan_jobs(pid, tier, rng):
    """List of jobs: dict(name, mode, consts, n_states (estimate))."""
    sz = SIZES[(pid, tier)]
    cap = sz["cap"]
    jobs = []

    def add(mode, tag, consts, per_p, P, make_group):
        # split the point pool so that one TLC job enumerates at most ~cap states
        chunk = max(1, cap // max(1, per_p))
        for c, i in enumerate(range(0, len(P), chunk)):
            cs = dict(EMPTY)
            cs.update(COMMON)
            cs.update(consts)
            cs["Trends"] = frozenset(TRENDS["gc" if mode == "gc" else "euclid"][:2 if tier == "thorough" else 1])
            cs["Groups"] = frozenset([_FrozenRec(make_group(P[i:i + chunk]))])
            cs["Mode"] = mode
            jobs.append({"name": "MC_%s_%s_%d" % (mode, tag, c), "mode": mode, "consts": cs,
                         "est": per_p * len(P[i:i + chunk])})

    p = sz["iso"]
    for dim in (1, 2, 3):
        for n in p["ns"]:
            P = _uniq(lambda: rand_points(rng, dim, n), p["P"])
            F = _uniq(lambda: rand_fields(rng, n, rng.choice([1, 1, 2, 2, 3])), p["F"])
            E = _uniq(lambda: rand_edges(rng), p["E"])
            add("iso", "d%dn%d" % (dim, n), {"EdgeSets": frozenset(E)}, len(F) * len(E), P, lambda Pc, F=F: _grp(Pc, F))
    p = sz["dir"]
    for dim in (2, 3):
        for n in p["ns"]:
            P = _uniq(lambda: rand_points(rng, dim, n), p["P"])
            F = _uniq(lambda: rand_fields(rng, n, rng.choice([1, 2])), p["F"])
            E = _uniq(lambda: rand_edges(rng), p["E"])
            D = _uniq(lambda: rand_dirs(rng, dim), p["D"])
            per = len(F) * len(E) * len(D) * 5 * len(p["B"])
            add("dir", "d%dn%d" % (dim, n), {"EdgeSets": frozenset(E), "DirSets": frozenset(D),
                                              "Tols": frozenset(TOLS), "Bands": frozenset(p["B"])},
                per, P, lambda Pc, F=F: _grp(Pc, F))
    p = sz["gc"]
    for n in p["ns"]:
        for rep in range(p["reps"]):
            P = _uniq(lambda: rand_gc_points(rng, n), p["P"])
            F = _uniq(lambda: rand_fields(rng, n, rng.choice([1, 2])), p["F"])
            E = _uniq(lambda: rand_gc_edges(rng, P), p["E"])
            add("gc", "n%dr%d" % (n, rep), {"EdgeSets": frozenset(E)}, len(F) * len(E), P,
                lambda Pc, F=F: _grp(Pc, F))
    p = sz["axis"]
    G = _uniq(lambda: rand_grid(rng), p["G"])
    chunk = max(1, cap // (2 * p["E"]))
    for c, i in enumerate(range(0, len(G), chunk)):
        cs = dict(EMPTY)
        cs.update(COMMON)
        cs["Mode"] = "axis"
        cs["Trends"] = frozenset()
        cs["Grids"] = frozenset(_FrozenRec({k: v for k, v in g.items() if k != "nd"}) for g in G[i:i + chunk])
        cs["EdgeSets"] = frozenset(_uniq(lambda: rand_edges(rng), p["E"]))
        jobs.append({"name": "MC_axis_%d" % c, "mode": "axis", "consts": cs, "est": 2 * p["E"] * len(G[i:i + chunk])})
    p = sz["sub"]
    if p:
        for dim in (1, 2):
            for n in p["ns"]:
                P = _uniq(lambda: rand_points(rng, dim, n), p["P"])
                # generic values so that the sub-sample is identifiable from the result
                F = _uniq(lambda: tuple(tuple(rng.sample([0, 1, 3, 7, 15, 31, 63, -20, 40], n))
                                        for _ in range(rng.choice([1, 1, 2]))), p["F"])
                E = _uniq(lambda: rand_edges(rng), p["E"])
                ks = frozenset(k for k in {2, n // 2 + 1, n - 1} if 2 <= k < n)
                add("sub", "d%dn%d" % (dim, n), {"EdgeSets": frozenset(E), "SubSizes": ks, "SeedVals": frozenset({0, 7})},
                    2 * len(F) * len(E) * len(ks), P, lambda Pc, F=F: _grp(Pc, F))
    if os.environ.get("VERIF_ONLY"):
        jobs = [j for j in jobs if j["mode"] in os.environ["VERIF_ONLY"].split(",")]
    return jobs


class _FrozenRec(dict):
    """A hashable dict (to put records into frozensets); rendered as a TLA+ record."""

    def __hash__(self):
        return hash(tuple(sorted((k, repr(v)) for k, v in self.items())))


def mc_text(job, invs, again=False):
    cs = job["consts"]
    lines = ["---- MODULE %s ----" % job["name"], "EXTENDS Vario"]
    cfg = ["CONSTANTS"]
    for k, v in cs.items():
        lines.append("Mc%s == %s" % (k, tlaval.to_tla(v)))
        cfg.append(" %s <- Mc%s" % (k, k))
    lines.append("====")
    if again:  # C09: a second estimation with the same arguments must reproduce the result
        cfg += ["INIT Init", "NEXT Again", "PROPERTY Functional"]
    else:
        cfg += ["INIT Init", "NEXT Next"]
    cfg += ["INVARIANT %s" % i for i in invs]
    return "\n".join(lines) + "\n", "\n".join(cfg) + "\n"


def iter_states(path):
    """Stream a TLC ``-dump`` file: one parsed state dict at a time."""
    block = []
    with open(path) as fh:
        for line in fh:
            if line.startswith("State ") and line.rstrip().endswith(":"):
                if block:
                    yield tlaval.parse_state("".join(block))
                block = []
            else:
                block.append(line)
    if "".join(block).strip():
        yield tlaval.parse_state("".join(block))


# ---------------------------------------------------------------------------
# expected values: TLC statistics -> (count, Matheron value, Cressie value)


def _bag(b):
    if isinstance(b, dict):
        return {int(k): int(v) for k, v in b.items()}
    b = list(b)
    if b and isinstance(b[0], tuple):  # frozen function: ((key, value), ...)
        return {int(k): int(v) for k, v in b}
    return {i + 1: int(v) for i, v in enumerate(b)}  # function on 1..n is printed as a tuple


def cressie(c, bag):
    """The documented Cressie-Hawkins normalisation (the only arithmetic outside TLC)."""
    if c == 0:
        return 0.0
    mean = sum(k * math.sqrt(a) for a, k in bag.items()) / c
    return 0.5 * mean ** 4 / (0.457 + 0.494 / c + 0.045 / c ** 2)


def norm_stat(st):
    if not isinstance(st, dict):
        st = dict(st)  # frozen record
    c = int(st["c"])
    num, den = st["m"]
    return (c, num / den, cressie(c, _bag(st["b"])))


def norm_alts(a):
    """a: one Stat record, or a set of them -> list of (c, matheron, cressie)."""
    if isinstance(a, (set, frozenset)):
        return sorted(norm_stat(s) for s in a)
    return [norm_stat(a)]


def norm_bins(bins):
    return [norm_alts(b) for b in bins]


def scale_exp(exp, k):
    return [[[(c, vm * k * k, vc * k * k) for (c, vm, vc) in alts] for alts in row] for row in exp]


def _close(a, b, tol):
    return abs(a - b) <= tol * max(1.0, abs(b))


def compare(exp, vals, cnts, est, tol=1e-12):
    """exp: [dir][bin] -> alternatives; vals/cnts: arrays [dir][bin] (cnts may be None).
    Returns None or (observable, d, i)."""
    k = 1 if est == "m" else 2
    vals = np.asarray(vals, dtype=float)
    if vals.shape != (len(exp), len(exp[0])):
        return ("shape", 0, 0)
    if cnts is not None:
        cnts = np.asarray(cnts)
        if cnts.shape != vals.shape or cnts.dtype.kind not in "iu":
            return ("shape", 0, 0)
    for d, row in enumerate(exp):
        for i, alts in enumerate(row):
            v = float(vals[d, i])
            if cnts is not None:
                c = int(cnts[d, i])
                cand = [a for a in alts if a[0] == c]
                if not cand:
                    return ("counts", d, i)
            else:
                cand = alts
            ok = False
            for a in cand:
                if a[0] == 0:
                    ok = ok or v == 0.0 or v != v  # an empty bin has no estimate: 0 (or NaN)
                else:
                    ok = ok or _close(v, a[k], tol)
            if not ok:
                return ("values", d, i)
    return None


# ---------------------------------------------------------------------------
# mapping spec values to floats


def f_fields(flds):
    a = np.array(flds, dtype=float)
    a[a == NAN] = np.nan
    return a


def f_pos(pts):
    return np.ascontiguousarray(np.array(pts, dtype=float).T)  # (dim, n)


def f_edges(E):
    return np.array(E, dtype=float) / 2.0


def f_dirs_unit(dirs):
    d = np.array(dirs, dtype=float)
    return d / np.sqrt((d * d).sum(axis=1))[:, None]


def est_name(e):
    return "matheron" if e == "m" else "cressie"


class Ctx:
    """Per-job replay context (lives in a worker process)."""

    def __init__(self, pid, tier, seed, name):
        self.pid, self.tier, self.name = pid, tier, name
        self.rng = random.Random(zlib.crc32(("%d:%s" % (seed, name)).encode()))
        self.violations = []  # (key, what, replay)
        self.calls = 0
        self.replayed = 0
        self.nontrivial = set()
        self.samples = []
        self.hits = {K_ANTI: 0, K_COINC: 0, K_SQUARE: 0, K_ALLMASK: 0}
        self.hit_inputs = {K_ANTI: set(), K_COINC: set(), K_SQUARE: set(), K_ALLMASK: set()}
        self.relations = {}
        self.boundary_inputs = 0
        self.features = {}
        self.trends = []

    def violation(self, key, what, replay):
        if key in self.hits:
            self.hits[key] += 1
        if not any(k == key for k, _w, _r in self.violations):
            self.violations.append((key, what, replay))

    def rel(self, name):
        self.relations[name] = self.relations.get(name, 0) + 1


def _jsonable_state(st):
    def conv(o):
        if isinstance(o, dict):
            return {str(k): conv(v) for k, v in o.items()}
        if isinstance(o, (list, tuple)):
            return [conv(v) for v in o]
        if isinstance(o, (set, frozenset)):
            return {"set": sorted((conv(v) for v in o), key=repr)}
        return o
    return conv(st)


def _fail(ctx, key, what, mode, st, call, observed):
    if key in ctx.hit_inputs:
        ctx.hit_inputs[key].add(_state_key(st))
    ctx.violation(key, what, {"mode": mode, "inp": _jsonable_state(st["inp"]), "expected": _jsonable_state(st["out"]),
                              "call": call, "observed": observed})


def _obs(vals, cnts):
    return {"values": np.asarray(vals).tolist(), "counts": None if cnts is None else np.asarray(cnts).tolist()}


def _as2d(a):
    a = np.asarray(a)
    return a[None, :] if a.ndim == 1 else a


# ---------------------------------------------------------------------------
# real calls


class WrongCenters(ValueError):
    pass


def call_api(gs, pos, fld, edges, est, ref_edges=None, **kw):
    """vario_estimate with return_counts; returns (centers, values[dir][bin], counts[dir][bin]).
    The bin centres must be the mid points of the edges as given (in the caller's unit).
    With ``ref_edges`` (a pristine copy of the edge values) the object ``edges`` itself is handed to
    the real code, so that a caller can pass the same float64 array to several calls."""
    if edges is None:  # standard bins from (bin_no, max_dist): equidistant from 0
        edges = np.linspace(0.0, kw["max_dist"], kw["bin_no"] + 1)
        r = gs.vario_estimate(pos, fld, None, estimator=est_name(est), return_counts=True, **kw)
    elif ref_edges is not None:
        r = gs.vario_estimate(pos, fld, edges, estimator=est_name(est), return_counts=True, **kw)
        edges = ref_edges
    else:
        edges = np.array(edges, dtype=float)
        r = gs.vario_estimate(pos, fld, edges.copy(), estimator=est_name(est), return_counts=True, **kw)
    if len(r) != 3:
        raise WrongCenters("vario_estimate(return_counts=True) returned %d values" % len(r))
    mid = (edges[:-1] + edges[1:]) / 2.0
    if np.shape(r[0]) != mid.shape or not np.allclose(r[0], mid, rtol=1e-14, atol=0):
        raise WrongCenters("bin_centers %s are not the mid points %s of the given edges" % (np.asarray(r[0]).tolist(), mid.tolist()))
    return r[0], _as2d(r[1]), _as2d(r[2])


def safe_api(ctx, st, mode, what, fn):
    """C08: a valid input must not raise."""
    try:
        return fn()
    except Exception as e:  # noqa: BLE001
        _fail(ctx, "%s:api:exception" % mode, "%s raised %r on a valid input" % (what, e), mode, st, what, {"exception": repr(e)})
        return None


def field_form(ctx, fa):
    """A (fields, n) float array in one of the accepted input forms."""
    if fa.shape[0] == 1:
        return fa[0].copy() if ctx.rng.random() < 0.6 else fa.copy()
    r = ctx.rng.random()
    if r < 0.4:
        return fa.copy()
    if r < 0.7:
        return [row.copy() for row in fa]
    return [list(map(float, row)) for row in fa]


def c08_forms(ctx, fa, pa):
    """The data of a C08 input in the forms vario_estimate accepts: NaN markers, and (if values are
    missing) every representation of Render in the spec -- masked stacks / lists of masked arrays with
    different masks per field and finite raw data below the mask, mask=, no_data.  Every other form is
    combined with a trend / mean that the call has to remove again (the data passed contain it; the
    definition applies to the valid data after its removal)."""
    rng = ctx.rng
    kinds = ["nan"] + (list(REPR_KINDS) if np.isnan(fa).any() else [])
    forms = []
    for kind in kinds:
        base, kw, label = fa, {}, kind
        if ctx.trends and rng.random() < 0.5:
            tf = trend_fn(rng.choice(ctx.trends))
            tv = tf(*pa)
            if rng.random() < 0.5:
                base, kw, label = fa + tv, {"trend": tf}, kind + "+trend"
            else:
                base, kw, label = fa + tv + 4.0, {"mean": tf, "trend": 4.0}, kind + "+mean+trend"
        if kind == "no-data" and not kw and rng.random() < 0.5:
            kind = label = "no-data-0"
        if kind == "nan":
            f_, k2 = field_form(ctx, base), {}
        else:
            f_, k2 = render(base, kind, as_list=rng.random() < 0.5, spell=rng.choice(MASK_SPELLINGS))
        forms.append((label, f_, dict(k2, **kw)))
    # the marker classes (values in tiny / huge units with marker 0; values near a big marker)
    label, f_, k2, vdiv = render_scaled(fa, rng.choice(["unit", "unit", "near"]), rng)
    forms.append((label, f_, dict(k2, _vdiv=vdiv)))
    return forms


def pos_form(ctx, pa):
    """A (dim, n) float array in one of the accepted input forms."""
    r = ctx.rng.random()
    if pa.shape[0] == 1 and r < 0.4:
        return pa[0].copy()
    if r < 0.7:
        return pa.copy()
    return tuple(row.copy() for row in pa)


# ---------------------------------------------------------------------------
# C08 replays


def replay_iso_c08(ctx, gs, K, st):
    inp = st["inp"]
    exp = [norm_bins(st["out"])]
    pa, fa, ed = f_pos(inp["pts"]), f_fields(inp["flds"]), f_edges(inp["E"])
    dim = pa.shape[0]
    for est in ("m", "c"):
        v, c = K.unstructured(fa, ed, pa, est, "e", None)
        ctx.calls += 1
        bad = compare(exp, _as2d(v), _as2d(c), est)
        if bad:
            _fail(ctx, "iso:kernel:%s:%s" % (est_name(est), bad[0]),
                  "unstructured(%s, euclid) dim=%d differs from the definition in bin %d (%s)" % (est_name(est), dim, bad[2], bad[0]),
                  "iso", st, "unstructured(f, edges, pos, %r, 'e')" % est, _obs(v, c))
        for form, fld, kw in c08_forms(ctx, fa, pa):
            vdiv = kw.pop("_vdiv", 1.0)
            r = safe_api(ctx, st, "iso", "vario_estimate(%s, missing as %s)" % (est_name(est), form),
                         lambda: call_api(gs, pos_form(ctx, pa), fld, ed, est, **kw))
            if r is None:
                continue
            _cen, v, c = r
            v = v / vdiv
            ctx.calls += 1
            bad = compare(exp, v, c, est)
            if bad:
                _fail(ctx, "iso:api:%s:%s" % (est_name(est), bad[0]),
                      "vario_estimate(%s) dim=%d, missing values given as %s, differs from the definition in bin %d (%s)"
                      % (est_name(est), dim, form, bad[2], bad[0]), "iso", st,
                      "vario_estimate(pos, field=%s, edges, estimator=%r, return_counts=True, %s)" % (_show(fld), est_name(est), _showkw(kw)), _obs(v, c))
    return any(a[0][0] > 0 or len(a) > 1 for a in exp[0])


def _dir_expected(st):
    out = st["out"]
    full = [norm_bins(row) for row in out["full"]]
    early = [norm_bins(row) for row in out["early"]]
    return full, early


def _dir_check(ctx, st, what, call, full, early, v, c, est, entry, early_possible):
    """Compare a directional result with the definition; a deviation that is exactly the
    early-exit result on an input with a coincident pair in a bin is the known finding."""
    bad = compare(full, v, c, est)
    if not bad:
        return
    out, inp = st["out"], st["inp"]
    if (bad[0] == "shape" and len(inp["dirs"]) >= 2 and all(x == NAN for f in inp["flds"] for x in f)
            and "mask=" in call and np.shape(v) == (1, len(full[0])) and not np.any(v) and not np.any(c)):
        # every point deselected by mask=: the early return ignores the number of directions
        _fail(ctx, K_ALLMASK, "%s: with every point deselected by mask= and %d directions the result has shape (n,) instead of (d, n)"
              % (what, len(inp["dirs"])), "dir", st, call, _obs(v, c))
        return
    if (early_possible and out["coinc"] and out["sep"] != "no" and len(inp["dirs"]) >= 2
            and compare(early, v, c, est) is None and compare(full[:1], v[:1], c[:1], est) is None):
        _fail(ctx, K_COINC, "%s: a coincident pair in a bin is counted for the first of the separated directions only "
              "(direction %d, bin %d)" % (what, bad[1] + 1, bad[2]), "dir", st, call, _obs(v, c))
        return
    _fail(ctx, "dir:%s:%s:%s" % (entry, est_name(est), bad[0]),
          "%s differs from the definition for direction %d, bin %d (%s); tol=%s B=%s sep=%s"
          % (what, bad[1] + 1, bad[2], bad[0], inp["tol"], inp["B"], out["sep"]), "dir", st, call, _obs(v, c))


def f_dirs(inp):
    """The direction vectors as given to the real code: (num/den) * u, exact in binary."""
    return [[sc[0] / sc[1] * x for x in d] for d, sc in zip(inp["dirs"], inp["dsc"])]


def dir_kwargs(inp):
    kw = {"direction": f_dirs(inp), "angles_tol": TOLS[inp["tol"]]}
    if inp["B"]:
        kw["bandwidth"] = inp["B"] / 2.0
    return kw


def replay_dir_c08(ctx, gs, K, st):
    inp, out = st["inp"], st["out"]
    full, early = _dir_expected(st)
    pa, fa, ed = f_pos(inp["pts"]), f_fields(inp["flds"]), f_edges(inp["E"])
    du = f_dirs_unit(f_dirs(inp))
    tol = TOLS[inp["tol"]]
    bw = inp["B"] / 2.0 if inp["B"] else -1.0
    for est in ("m", "c"):
        v, c = K.directional(fa, ed, pa, du, tol, bw, False, est, None)
        ctx.calls += 1
        _dir_check(ctx, st, "directional(separate_dirs=False)", "directional(f, edges, pos, unit dirs, tol, bw, False, %r)" % est,
                   full, early, v, c, est, "kernel", False)
        if out["sep"] != "no":  # the caller may promise separated directions
            v, c = K.directional(fa, ed, pa, du, tol, bw, True, est, None)
            ctx.calls += 1
            _dir_check(ctx, st, "directional(separate_dirs=True)", "directional(f, edges, pos, unit dirs, tol, bw, True, %r)" % est,
                       full, early, v, c, est, "kernel-separated", True)
        for form, fld, kw in c08_forms(ctx, fa, pa):
            vdiv = kw.pop("_vdiv", 1.0)
            kw = dict(kw, **dir_kwargs(inp))
            r = safe_api(ctx, st, "dir", "vario_estimate(direction=..., %s, missing as %s)" % (est_name(est), form),
                         lambda: call_api(gs, pos_form(ctx, pa), fld, ed, est, **kw))
            if r is None:
                continue
            _cen, v, c = r
            v = v / vdiv
            ctx.calls += 1
            _dir_check(ctx, st, "vario_estimate(direction=..., missing values as %s)" % form,
                       "vario_estimate(pos, field=%s, edges, %r, %s)" % (_show(fld), est_name(est), _showkw(kw)),
                       full, early, v, c, est, "api", True)
    if any(len(a) > 1 for row in full for a in row):
        ctx.boundary_inputs += 1
    return any(a[0][0] > 0 or len(a) > 1 for row in full for a in row)


def _haversine_is_nan(p, q):
    """Auxiliary float replica of dist_haversine: only used to attribute a mismatch to the
    known NaN defect (it never decides a verdict on its own)."""
    d2r = math.pi / 180.0
    dlat, dlon = (q[0] - p[0]) * d2r, (q[1] - p[1]) * d2r
    arg = math.sin(dlat / 2.0) ** 2 + math.cos(p[0] * d2r) * math.cos(q[0] * d2r) * math.sin(dlon / 2.0) ** 2
    return arg > 1.0


def _gc_check(ctx, st, what, call, v, c, est, entry, tol=1e-12, scale=1, used=None):
    """used = (positions (2, k) as passed to the real code, original index of each of them)"""
    inp, out = st["inp"], st["out"]
    exp = scale_exp([norm_bins(out["alts"])], scale)
    bad = compare(exp, v, c, est, tol)
    if not bad:
        return
    if used is None:
        used = (np.array(inp["pts"], dtype=float).T, list(range(len(inp["pts"]))))
    pos, idx = used
    where = {int(o): a for a, o in enumerate(idx)}
    nanq = frozenset(pr for pr in out["anti"] if pr[0] - 1 in where and pr[1] - 1 in where
                     and _haversine_is_nan(pos[:, where[pr[0] - 1]], pos[:, where[pr[1] - 1]]))
    if nanq:
        for rec in out["bug"]:
            rec = dict(rec)
            if frozenset(rec["q"]) == nanq and compare(scale_exp([norm_bins(rec["r"])], scale), v, c, est, tol) is None:
                _fail(ctx, K_ANTI, "%s: the haversine distance of an antipodal pair is NaN and the pair is counted in every bin "
                      "(pairs %s)" % (what, sorted(nanq)), "gc", st, call, _obs(v, c))
                return
    _fail(ctx, "gc:%s:%s:%s" % (entry, est_name(est), bad[0]),
          "%s differs from the definition in bin %d (%s)" % (what, bad[2], bad[0]), "gc", st, call, _obs(v, c))


def replay_gc_c08(ctx, gs, K, st):
    inp, out = st["inp"], st["out"]
    pa, fa = f_pos(inp["pts"]), f_fields(inp["flds"])
    ed = f_edges(inp["E"]) * (math.pi / 180.0)
    for est in ("m", "c"):
        v, c = K.unstructured(fa, ed, pa, est, "h", None)
        ctx.calls += 1
        _gc_check(ctx, st, "unstructured(haversine)", "unstructured(f, edges_rad, latlon, %r, 'h')" % est, _as2d(v), _as2d(c), est, "kernel")
        for form, fld, kw in c08_forms(ctx, fa, pa):
            vdiv = kw.pop("_vdiv", 1.0)
            r = safe_api(ctx, st, "gc", "vario_estimate(latlon=True, %s, missing as %s)" % (est_name(est), form),
                         lambda: call_api(gs, pos_form(ctx, pa), fld, ed.copy(), est, latlon=True, **kw))
            if r is None:
                continue
            _cen, v, c = r
            v = v / vdiv
            ctx.calls += 1
            _gc_check(ctx, st, "vario_estimate(latlon=True, missing values as %s)" % form,
                      "vario_estimate(latlon, field=%s, edges_rad, latlon=True, %r, %s)" % (_show(fld), est_name(est), _showkw(kw)), v, c, est, "api")
    exp = norm_bins(out["alts"])
    if any(len(a) > 1 for a in exp):
        ctx.boundary_inputs += 1
    return any(a[0][0] > 0 or len(a) > 1 for a in exp)


def grid_arrays(g):
    """(values with NaN, mask) as nd arrays of the grid's true number of dimensions."""
    shape = tuple(g["shape"])
    nd = 3
    while nd > 1 and shape[nd - 1] == 1:
        nd -= 1
    vals = np.array(g["vals"], dtype=float)
    vals[vals == NAN] = np.nan
    return vals.reshape(shape[:nd]), np.array(g["mask"], dtype=bool).reshape(shape[:nd]), nd


def replay_axis_c08(ctx, gs, K, st):
    inp, out = st["inp"], st["out"]
    g, ax = inp["grid"], inp["axis"] - 1
    exp = [norm_bins(out["lag"])]
    vals, mask, nd = grid_arrays(g)
    if ax >= nd:
        return False
    missing = mask | np.isnan(vals)
    f2 = np.ascontiguousarray(vals.swapaxes(0, ax).reshape(vals.shape[ax], -1))
    m2 = np.ascontiguousarray(missing.swapaxes(0, ax).reshape(vals.shape[ax], -1))
    for est in ("m", "c"):
        if not missing.any():
            v = K.structured(f2, est, None)
            ctx.calls += 1
            bad = compare(exp, _as2d(v), None, est)
            if bad:
                _fail(ctx, "axis:kernel-structured:%s:%s" % (est_name(est), bad[0]),
                      "structured(%s) differs from the definition at lag %d" % (est_name(est), bad[2]), "axis", st,
                      "structured(f2d, %r)" % est, _obs(v, None))
        v = K.ma_structured(np.where(m2, GARB, f2), m2.view(np.uint8), est, None)
        ctx.calls += 1
        bad = compare(exp, _as2d(v), None, est)
        if bad:
            _fail(ctx, "axis:kernel-ma_structured:%s:%s" % (est_name(est), bad[0]),
                  "ma_structured(%s) differs from the definition at lag %d" % (est_name(est), bad[2]), "axis", st,
                  "ma_structured(f2d, mask2d, %r)" % est, _obs(v, None))
        direction = ctx.rng.choice(["xyz"[ax], ax])
        fld = np.ma.array(vals.copy(), mask=mask.copy()) if mask.any() else vals.copy()
        if ctx.rng.random() < 0.5:  # the same data in another unit, missing cells as exact zeros with no_data=0 / near a big marker
            label, fsc, kwsc, vd = render_scaled(np.where(missing, np.nan, vals).reshape(1, -1), ctx.rng.choice(["unit", "near"]), ctx.rng)
            fsc = fsc.reshape(vals.shape)
            v2 = safe_api(ctx, st, "axis", "vario_estimate_axis(direction=%r, %s, %s)" % (direction, est_name(est), label),
                          lambda: gs.vario_estimate_axis(fsc, direction, est_name(est), **kwsc) / vd)
            if v2 is not None:
                ctx.calls += 1
                bad = compare(exp, _as2d(v2), None, est)
                if bad:
                    _fail(ctx, "axis:api:%s:%s" % (est_name(est), bad[0]),
                          "vario_estimate_axis(%s, direction=%r), data given as %s, differs from the definition at lag %d"
                          % (est_name(est), direction, label, bad[2]), "axis", st,
                          "vario_estimate_axis(%s, %r, %r, %s)" % (_show(fsc), direction, est_name(est), _showkw(kwsc)), _obs(v2, None))
        v = safe_api(ctx, st, "axis", "vario_estimate_axis(direction=%r, %s)" % (direction, est_name(est)),
                     lambda: gs.vario_estimate_axis(fld, direction, est_name(est)))
        if v is None:
            continue
        ctx.calls += 1
        bad = compare(exp, _as2d(v), None, est)
        if bad:
            _fail(ctx, "axis:api:%s:%s" % (est_name(est), bad[0]),
                  "vario_estimate_axis(%s, direction=%r) differs from the definition at lag %d" % (est_name(est), direction, bad[2]),
                  "axis", st, "vario_estimate_axis(field, %r, %r)" % (direction, est_name(est)), _obs(v, None))
    return any(a[0][0] > 0 for a in exp[0])


# ---------------------------------------------------------------------------
# C09 replays: related inputs through the real vario_estimate, each compared with the TLC value


def _signed_perm(rng, dim):
    ax = list(range(dim))
    rng.shuffle(ax)
    return [(a, rng.choice([-1, 1])) for a in ax]


def _apply_m(m, arr):
    """arr: (k, dim) -> rows transformed by the signed permutation."""
    return np.stack([s * arr[:, a] for a, s in m], axis=1)


ANGLES2 = {(1, 0): 0.0, (0, 1): math.pi / 2, (1, 1): math.pi / 4, (-1, 1): 3 * math.pi / 4, (2, 2): math.pi / 4,
           (0, -2): -math.pi / 2, (-3, 0): math.pi}
ANGLES3 = {(1, 0, 0): (0.0, math.pi / 2), (0, 1, 0): (math.pi / 2, math.pi / 2), (0, 0, 1): (0.0, 0.0),
           (1, 1, 0): (math.pi / 4, math.pi / 2), (1, 0, 1): (0.0, math.pi / 4), (0, 1, 1): (math.pi / 2, math.pi / 4),
           (-1, 1, 0): (3 * math.pi / 4, math.pi / 2), (0, 0, -2): (0.0, math.pi)}


def _div(r, vdiv):
    """(centres, values, counts) with the values divided by the square of the field factor."""
    return r[0], r[1] / vdiv, r[2]


def _check_rel(ctx, st, mode, rel, exp, call, est, kw_desc, tol=1e-12, scale=1, used=None):
    """Run one related call and compare with the (transformed) TLC value.  The call is made twice with
    the very same argument objects (bin edges, positions, field, mask): the second result has to be the
    TLC value as well (spec: Again / Functional)."""
    _check_rel_once(ctx, st, mode, rel, exp, call, est, kw_desc, tol, scale, used)
    _check_rel_once(ctx, st, mode, rel + ":second-call-same-objects", exp, call, est, kw_desc, tol, scale, used)


def _check_rel_once(ctx, st, mode, rel, exp, call, est, kw_desc, tol=1e-12, scale=1, used=None):
    ctx.rel(rel)
    try:
        _cen, v, c = call()
    except Exception as e:  # noqa: BLE001  the related input is valid: an exception contradicts the relation
        _fail(ctx, "rel:%s:%s:exception" % (rel, mode), "relation %s (%s): vario_estimate raised %r for %s"
              % (rel, mode, e, kw_desc), mode, st, kw_desc, {"exception": repr(e)})
        return
    ctx.calls += 1
    if mode == "dir":
        full, early = exp
        bad = compare(full, v, c, est, tol)
        if bad:
            out, inp = st["out"], st["inp"]
            if (out["coinc"] and out["sep"] != "no" and len(inp["dirs"]) >= 2 and compare(early, v, c, est, tol) is None
                    and compare(full[:1], v[:1], c[:1], est, tol) is None):
                _fail(ctx, K_COINC, "relation %s: coincident pair counted for the first separated direction only" % rel,
                      mode, st, kw_desc, _obs(v, c))
                return
            if (bad[0] == "shape" and len(inp["dirs"]) >= 2 and all(x == NAN for f in inp["flds"] for x in f)
                    and "mask=" in kw_desc and np.shape(v) == (1, len(full[0])) and not np.any(v) and not np.any(c)):
                _fail(ctx, K_ALLMASK, "relation %s: with every point deselected by mask= the result has shape (n,) instead of (d, n)" % rel,
                      mode, st, kw_desc, _obs(v, c))
                return
    elif mode == "gc":
        bad = compare(exp, v, c, est, tol)
        if bad:
            _gc_check(ctx, st, "relation %s" % rel, kw_desc, v, c, est, "rel-" + rel, tol, scale, used)
            return
    else:
        bad = compare(exp, v, c, est, tol)
    if bad:
        _fail(ctx, "rel:%s:%s:%s" % (rel, mode, bad[0]),
              "relation %s (%s, %s): the related input gives a result different from the TLC value at direction %d, bin %d (%s): %s"
              % (rel, mode, est_name(est), bad[1] + 1, bad[2], bad[0], kw_desc), mode, st, kw_desc, _obs(v, c))


GARB, NODATA = 555.0, -999.0
REPR_KINDS = ("entry-mask", "empty-point-mask", "point-mask", "no-data", "mixed")  # + "no-data-0" without pre-processing


def trend_fn(T):
    """Float image of TrendAt(T, .) of the spec."""
    def trend(*x):
        return T[0] + sum(c * xi for c, xi in zip(T[1:], x))
    trend.__name__ = "trend%s" % (tuple(T),)
    return trend


MASK_SPELLINGS = ("bool", "int", "float", "list-int", "list-bool")


def spell_mask(m, sp):
    """Float image of Spell(., sp): the same truth values as bool / int 0-1 / float 0.0-1.0 array or list."""
    m = np.asarray(m, dtype=bool)
    if sp == "bool":
        return m.copy()
    if sp == "int":
        return m.astype(np.int64)
    if sp == "float":
        return m.astype(np.float64)
    if sp == "list-int":
        return m.astype(int).tolist()
    if sp == "list-bool":
        return m.tolist()
    raise AssertionError(sp)


def render(fa, kind, as_list=False, nodata=NODATA, spell="bool"):
    """Float image of Render(flds, kind) of the spec: (field object, keyword arguments).
    Finite, distinctive raw data is stored under every mask."""
    nanm = np.isnan(fa)
    nf, n = fa.shape
    allna = nanm.all(axis=0)
    garb = np.where(nanm, GARB + np.arange(1, nf + 1)[:, None], fa)

    def ma(vals, m):
        if nf == 1:
            return np.ma.array(vals[0].copy(), mask=m[0].copy())
        if as_list:
            return [np.ma.array(vals[i].copy(), mask=m[i].copy()) for i in range(nf)]
        return np.ma.array(vals.copy(), mask=m.copy())

    if kind == "nan":
        return (fa.copy() if nf > 1 else fa[0].copy()), {}
    if kind == "entry-mask":
        return ma(garb, nanm), {}
    if kind == "empty-point-mask":
        return ma(garb, nanm), {"mask": spell_mask(np.zeros(n, dtype=bool), spell)}
    if kind == "point-mask":
        return ma(garb, nanm & ~allna[None, :]), {"mask": spell_mask(allna, spell)}
    if kind == "no-data":
        v = np.where(nanm, nodata, fa)
        return (v if nf > 1 else v[0]), {"no_data": nodata}
    if kind == "mixed":
        v = np.where(nanm, nodata, fa)
        v[0, nanm[0]] = GARB
        m = np.zeros_like(nanm)
        m[0] = nanm[0]
        return ma(v, m), {"mask": spell_mask(allna, spell), "no_data": nodata}
    if kind == "no-data-0":  # the (falsy) no-data value 0; the data are shifted away from it
        v = np.where(nanm, 0.0, fa + 7.0)
        return (v if nf > 1 else v[0]), {"no_data": 0.0 if spell in ("float", "bool") else 0}
    raise AssertionError(kind)


UNITS = (("2^-30", 2.0 ** -30), ("1e-9", 1e-9), ("1e-12", 1e-12), ("2^30", 2.0 ** 30))
BIGMARKER = 1.0e6


def render_scaled(fa, which, rng):
    """Float images of the marker classes of the spec (IsMarker): (label, field, kwargs, divisor of the values).
    'unit':  kind no-data-0 read in a small / large unit u: exact zeros are the markers, the valid data (z + 7) u
             are tiny (below any absolute tolerance) or huge; gamma scales with u^2, the counts do not change.
    'near':  kind no-data-near: marker 1e6 given as m, m + 1, m - 1 (relative 1e-6: still the marker), valid
             data 1000 (z + 3) above it (relative 1e-3: not the marker); gamma scales with 1000^2."""
    nanm = np.isnan(fa)
    nf, n = fa.shape
    if which == "unit":
        name, u = rng.choice(UNITS)
        v = np.where(nanm, 0.0, (fa + 7.0) * u)
        label, kw, vdiv = "no-data-0:unit=" + name, {"no_data": rng.choice([0, 0.0, np.float64(0.0)])}, u * u
    else:
        m_idx, j_idx = np.meshgrid(np.arange(1, nf + 1), np.arange(1, n + 1), indexing="ij")
        v = np.where(nanm, BIGMARKER + ((m_idx + j_idx) % 3) - 1.0, BIGMARKER + 1000.0 * (fa + 3.0))
        label, kw, vdiv = "no-data-near", {"no_data": BIGMARKER}, 1.0e6
    return label, (v if nf > 1 else v[0]), kw, vdiv


def missing_forms(ctx, fa, pa):
    """The same data with the missing values expressed in the different accepted ways.
    Returns list of (label, pos, field, kwargs)."""
    out = []
    nanm = np.isnan(fa)
    allmiss = nanm.all(axis=0)
    sent = 7.0
    for kind in REPR_KINDS + ("no-data-0",):
        f_, kw = render(fa, kind, spell=ctx.rng.choice(MASK_SPELLINGS))
        out.append((kind, pa, f_, kw))
        if fa.shape[0] > 1 and not kind.startswith("no-data"):
            f_, kw = render(fa, kind, as_list=True, spell=ctx.rng.choice(MASK_SPELLINGS))
            out.append((kind + ":list-of-masked-arrays", pa, f_, kw))
    if allmiss.any() and not allmiss.all():
        f3 = fa.copy()
        f3[:, allmiss] = 3.0  # points without data carry a value but are deselected by mask=
        out.append(("mask-param", pa, f3 if fa.shape[0] > 1 else f3[0], {"mask": spell_mask(allmiss, ctx.rng.choice(MASK_SPELLINGS))}))
        out.append(("removed", pa[:, ~allmiss], fa[:, ~allmiss] if fa.shape[0] > 1 else fa[0, ~allmiss], {}))
        f4 = fa.copy()
        f4[nanm] = sent
        f4[:, allmiss] = 1.0
        out.append(("mask-param+no_data", pa, f4 if fa.shape[0] > 1 else f4[0], {"mask": spell_mask(allmiss, ctx.rng.choice(MASK_SPELLINGS)), "no_data": sent}))
    return out


def replay_points_c09(ctx, gs, K, st, mode):
    """iso / dir / gc states: every relation of C09 that applies."""
    inp, out = st["inp"], st["out"]
    rng = ctx.rng
    pa, fa = f_pos(inp["pts"]), f_fields(inp["flds"])
    dim, n = pa.shape
    nf = fa.shape[0]
    if mode == "iso":
        exp = [norm_bins(out)]
        ed, base_kw = f_edges(inp["E"]), {}
    elif mode == "dir":
        exp = _dir_expected(st)
        ed, base_kw = f_edges(inp["E"]), dir_kwargs(inp)
    else:
        exp = [norm_bins(out["alts"])]
        ed, base_kw = f_edges(inp["E"]) * (math.pi / 180.0), {"latlon": True}
    est = rng.choice(["m", "c"])
    if mode != "iso" and any(len(a) > 1 for row in (exp[0] if mode == "dir" else exp) for a in row):
        ctx.boundary_inputs += 1

    def run(rel, pos, fld, kw=None, e=est, expd=None, edges=None, tol=1e-12, std=False, scale=1, idx=None, vdiv=1.0):
        k = dict(base_kw)
        k.update(kw or {})
        eg = None if std else np.array(ed if edges is None else edges, dtype=np.float64)  # the object the real code gets
        eg0 = None if std else eg.copy()  # pristine values for the expectation
        desc = "vario_estimate(pos=%s, field=%s, bin_edges=%s, estimator=%r, %s)" % (
            np.asarray(pos).tolist() if not isinstance(pos, tuple) else [p.tolist() for p in pos],
            _show(fld), None if eg is None else eg.tolist(), est_name(e), ", ".join("%s=%s" % (a, _show(b)) for a, b in k.items()))
        _check_rel(ctx, st, mode, rel, exp if expd is None else expd, lambda: _div(call_api(gs, pos, fld, eg, e, ref_edges=eg0, **k), vdiv), e, desc, tol, scale,
                   (np.atleast_2d(np.asarray(pos, dtype=float)), list(range(n)) if idx is None else idx) if mode == "gc" else None)

    fld0 = fa if nf > 1 else fa[0]
    # the input itself (both estimators)
    run("identity", pa, fld0, e="m")
    run("identity", pa, fld0, e="c")
    # optional arguments given explicitly with a valid but falsy value (0, 0.0, False, numpy zeros)
    run("explicit-falsy-arguments", pa, fld0,
        {"mask": rng.choice([False, np.False_, np.ma.nomask]), "mean": rng.choice([0, 0.0, np.float64(0.0)]),
         "trend": rng.choice([0, 0.0]), "sampling_size": n + rng.choice([0, 2]), "sampling_seed": rng.choice([0, np.int64(0)])})
    # marker rule (spec: IsMarker): the field scaled by a factor with no_data=0 -- exact zeros stay markers, tiny or
    # huge valid values stay valid, gamma scales with the square, counts unchanged; values near a big marker
    for which in ("unit", "unit", "near"):
        label, f_, kw, vd = render_scaled(fa, which, rng)
        run("marker-rule:" + label, pa, f_, kw, vdiv=vd)
    # permutation of the points
    pi = list(range(n))
    rng.shuffle(pi)
    run("permutation", pa[:, pi], fa[:, pi] if nf > 1 else fa[0, pi], idx=pi)
    # rigid motions
    if mode in ("iso", "dir"):
        t = np.array([rng.randint(-5, 5) for _ in range(dim)], dtype=float)
        run("translation", pa + t[:, None], fld0)
        m = _signed_perm(rng, dim)
        pm = _apply_m(m, pa.T).T
        kw = {}
        if mode == "dir":
            kw["direction"] = _apply_m(m, np.array(f_dirs(inp), dtype=float)).tolist()
        run("axis-permutation/reflection/quarter-turn", pm, fld0, kw)
    else:
        dl = rng.choice([-360.0, 360.0, 720.0])
        sel = np.array([rng.random() < 0.5 for _ in range(n)])
        p2 = pa.copy()
        p2[1, sel] += dl  # full turns of individual points
        run("longitude+360k", p2, fld0)
        p3 = pa.copy()
        p3[1] += float(rng.randint(-90, 90))  # rotation about the polar axis
        run("rotation-about-polar-axis", p3, fld0)
        p4 = pa.copy()
        p4[0] = -p4[0]
        run("equator-mirror", p4, fld0)
    # field shift and scale
    cshift = float(rng.choice([-7, -3, 2, 5, 11]))
    run("constant-shift", pa, fld0 + cshift)
    k = rng.choice([-3, -1, 2, 3])
    if mode == "dir":
        sexp = (scale_exp(exp[0], k), scale_exp(exp[1], k))
    else:
        sexp = scale_exp(exp, k)
    run("scale-c^2", pa, fld0 * float(k), expd=sexp, scale=k)
    # mean / trend / normalizer preprocessing with integer valued functions
    run("mean-constant", pa, fld0 + cshift, {"mean": cshift})
    coef = [rng.randint(-2, 2) for _ in range(dim)]

    def trend(*x):
        return sum(cf * xi for cf, xi in zip(coef, x)) + 1.0
    tr = trend(*pa)
    run("trend-callable", pa, fld0 + tr, {"trend": trend})
    run("mean-callable+trend-constant", pa, fld0 + tr + 4.0, {"mean": trend, "trend": 4.0})
    if not np.isnan(fa).any():
        run("normalizer-lognormal", pa, np.exp(fld0 + 2.0), {"normalizer": gs.normalizer.LogNormal, "mean": 2.0}, tol=1e-9)
    # missing values
    if np.isnan(fa).any():
        for label, p_, f_, kw in missing_forms(ctx, fa, pa):
            run("missing:" + label, p_, f_, kw,
                idx=[j for j in range(n) if not np.isnan(fa[:, j]).all()] if label == "removed" else None)
    # pre-processing combined with every representation of the missing values (spec: PreprocessAfterMarking)
    if np.isnan(fa).any() and ctx.trends:
        tf = trend_fn(rng.choice(ctx.trends))
        tv = tf(*pa)
        for kind in ("nan",) + REPR_KINDS:
            lst = rng.random() < 0.5
            f_, kw = render(fa + tv, kind, as_list=lst, spell=rng.choice(MASK_SPELLINGS))
            run("preprocess+missing:trend:" + kind, pa, f_, dict(kw, trend=tf))
            f_, kw = render(fa + tv + 4.0, kind, as_list=lst, spell=rng.choice(MASK_SPELLINGS))
            run("preprocess+missing:mean+trend:" + kind, pa, f_, dict(kw, mean=tf, trend=4.0))
            f_, kw = render(fa - 6.0, kind, as_list=lst, spell=rng.choice(MASK_SPELLINGS))
            run("preprocess+missing:mean-constant:" + kind, pa, f_, dict(kw, mean=-6.0))
            # a positive marker, so that the normaliser maps it to a finite value
            f_, kw = render(np.exp(fa + 2.0), kind, as_list=lst, nodata=999.0, spell=rng.choice(MASK_SPELLINGS))
            run("preprocess+missing:lognormal:" + kind, pa, f_, dict(kw, normalizer=gs.normalizer.LogNormal, mean=2.0), tol=1e-9)
    # per-field skipping: the stack is the pair-count weighted mean of its fields
    if nf > 1 and mode != "dir":
        singles = []
        ctx.rel("per-field")
        try:
            for mth in range(nf):
                _cen, v, c = call_api(gs, pa, fa[mth], ed.copy(), "m", **base_kw)
                ctx.calls += 1
                singles.append((v, c))
            _cen, v, c = call_api(gs, pa, fa, ed.copy(), "m", **base_kw)
        except Exception as e:  # noqa: BLE001
            _fail(ctx, "rel:per-field:%s:exception" % mode, "vario_estimate raised %r" % (e,), mode, st, "single fields / stack", {"exception": repr(e)})
            singles, v, c = [], np.zeros((1, 1)), np.zeros((1, 1), dtype=int)
        csum = sum(s[1] for s in singles)
        ssum = sum(s[0] * np.maximum(s[1], 0) for s in singles)
        okc = np.array_equal(csum, c)
        okv = np.allclose(ssum, v * c, rtol=1e-12, atol=1e-12)
        if singles and not (okc and okv) and not (mode == "gc" and out["anti"]):
            _fail(ctx, "rel:per-field:%s:%s" % (mode, "counts" if not okc else "values"),
                  "stacked fields are not the pair-count weighted combination of the single fields", mode, st,
                  "vario_estimate(stack) vs vario_estimate(field_m)", {"stack": _obs(v, c), "single": [_obs(*s) for s in singles]})
    # sampling_size >= n is no sampling
    run("sampling_size>=n", pa, fld0, {"sampling_size": n + rng.choice([0, 1, 5]), "sampling_seed": rng.randint(0, 99)})
    if mode == "iso" and dim == 1:  # directions are ignored in 1-D
        run("1d-direction-ignored", pa, fld0, {"direction": [1.0], "angles_tol": 0.1})
        run("1d-angles-ignored", pa[0], fld0, {"angles": 0.3})
    if mode == "dir":
        dirs = np.array(f_dirs(inp), dtype=float)
        run("direction-length", pa, fld0, {"direction": (dirs * rng.choice([0.37, 2.5, 11.0, 0.25])).tolist()})
        # every direction with a length of its own, shorter and longer than 1
        fac = np.array([rng.choice([0.125, 0.25, 0.5, 0.3, 1.0, 2.0, 7.0]) for _ in dirs])
        unit = dirs / np.sqrt((dirs * dirs).sum(axis=1))[:, None]
        run("direction-length:unequal", pa, fld0, {"direction": (unit * fac[:, None]).tolist()})
        run("direction-length:bare-integer-vectors", pa, fld0, {"direction": [list(map(float, d)) for d in inp["dirs"]]})
        run("direction-sign", pa, fld0, {"direction": (-dirs)})
        # the rows of a joint estimate are the estimates of the single directions: any order of the direction
        # list only permutes the rows, and every direction alone gives its row (spec: DirRowsIndependent).
        # (On inputs of the known early-exit defect the row of a later direction is already known to deviate.)
        nd = len(dirs)
        full, early = exp
        if nd >= 2 and not (out["coinc"] and out["sep"] != "no"):
            import itertools
            perms = [p_ for p_ in itertools.permutations(range(nd)) if p_ != tuple(range(nd))]
            if len(perms) > 3:
                perms = rng.sample(perms, 3)
            for p_ in perms:
                pf = [full[d] for d in p_]
                run("direction-order", pa, fld0, {"direction": dirs[list(p_)].tolist()}, expd=(pf, pf))
            for d in range(nd):
                run("direction-alone", pa, fld0, {"direction": [dirs[d].tolist()] if rng.random() < 0.5 else dirs[d].tolist()},
                    expd=([full[d]], [full[d]]))
        table = ANGLES2 if dim == 2 else ANGLES3
        if all(tuple(d) in table for d in inp["dirs"]):
            ang = [table[tuple(d)] for d in inp["dirs"]]
            if dim == 2:
                a = ang[0] if len(ang) == 1 and rng.random() < 0.5 else [[x] for x in ang]
            else:
                a = list(ang[0]) if len(ang) == 1 and rng.random() < 0.5 else [list(x) for x in ang]
            kw = {"angles": a, "direction": None}
            run("angles-vs-direction", pa, fld0, kw)
    if mode == "gc":
        for gsc, nm in ((gs.DEGREE_SCALE, "degree"), (gs.KM_SCALE, "km"), (7.0, "arbitrary")):
            run("geo_scale:" + nm, pa, fld0, {"geo_scale": gsc}, edges=ed * gsc)
        run("geo_scale:degree-literal-edges", pa, fld0, {"geo_scale": gs.DEGREE_SCALE}, edges=_half_degrees(inp["E"]))
        # standard bins in a length unit == the radian bins after unit conversion, for all four argument
        # forms (nothing / bin_no / max_dist / both), through standard_bins and through vario_estimate
        std_bins_gc(ctx, gs, st, pa, fld0, float(ed[-1]) if ed[-1] > 0 else 0.7)
    E = inp["E"]
    if E[0] == 0 and len({b - a for a, b in zip(E, E[1:])}) == 1:
        # equidistant edges from 0 are the standard bins for (bin_no, max_dist)
        nb = len(E) - 1
        if mode == "gc":
            for gsc in (1.0, gs.KM_SCALE):
                run("standard-bins(bin_no,max_dist)", pa, fld0, {"geo_scale": gsc, "bin_no": nb, "max_dist": float(ed[-1] * gsc)}, std=True)
        else:
            run("standard-bins(bin_no,max_dist)", pa, fld0, {"bin_no": nb, "max_dist": float(ed[-1])}, std=True)
    if mode == "iso" and n >= 2:
        std_bins_euclid(ctx, gs, st, pa, fld0, dim)
        ctx.rel("standard-bins:permutation/translation")
        c1 = gs.vario_estimate(pa, fld0)[0]
        c2 = gs.vario_estimate(pa[:, pi] + 3.0, fa[:, pi] if nf > 1 else fa[0, pi])[0]
        ctx.calls += 2
        if np.shape(c1) != np.shape(c2) or not np.allclose(c1, c2, rtol=1e-12, atol=1e-15):
            _fail(ctx, "rel:standard-bins:iso:permutation/translation", "standard bins change under a permutation + translation of the points",
                  mode, st, "vario_estimate(pos, field)[0]", {"base": np.asarray(c1).tolist(), "moved": np.asarray(c2).tolist()})
    return True


def std_bins_gc(ctx, gs, st, pa, fld0, m_rad):
    """Relations between real outputs (documented: max_dist is the cut-off length of the bins, in the unit
    given by geo_scale; bin_no is the number of bins; geo_scale only changes the unit)."""
    rng = ctx.rng
    inp, out = st["inp"], st["out"]
    pts = inp["pts"]
    k = rng.randint(2, 6)
    forms = [("nothing", {}), ("bin_no", {"bin_no": k}), ("max_dist", {"max_dist": m_rad}), ("both", {"bin_no": k, "max_dist": m_rad})]
    # exact pair distances (degrees, same rule as the spec): only a guard that keeps pairs sitting on an
    # automatically generated edge out of the count comparison -- it never produces a verdict
    drad = [gc_dist(pts[a], pts[b]) * math.pi / 180.0 for a in range(len(pts)) for b in range(a + 1, len(pts))]

    def bad(form, obs, what, detail):
        _fail(ctx, "rel:standard-bins:gc:%s:%s" % (form, obs), "standard bins (%s given): %s" % (form, what), "gc", st,
              "standard_bins / vario_estimate(latlon=%s, latlon=True, %s)" % (pa.tolist(), detail), detail)

    for form, kw in forms:
        ctx.rel("standard-bins:geo_scale:" + form)
        try:
            e_r = gs.variogram.standard_bins(pa, latlon=True, **kw)
            r_r = gs.vario_estimate(pa, fld0, latlon=True, return_counts=True, **kw)
        except Exception as e:  # noqa: BLE001
            bad(form, "exception", "raised %r" % (e,), {"kw": kw})
            continue
        ctx.calls += 2
        exact = "max_dist" in kw
        if e_r[0] != 0.0 or ("bin_no" in kw and len(e_r) != k + 1) or (exact and not np.isclose(e_r[-1], m_rad, rtol=1e-14, atol=0)):
            bad(form, "edges", "edges do not run from 0 to max_dist in bin_no bins", {"kw": kw, "edges": e_r.tolist()})
        if not np.allclose(r_r[0], (e_r[:-1] + e_r[1:]) / 2, rtol=1e-12, atol=1e-300):
            bad(form, "centres", "vario_estimate centres are not the mid points of standard_bins", {"kw": kw, "centres": np.asarray(r_r[0]).tolist(), "edges": e_r.tolist()})
        for gsc in (gs.KM_SCALE, 7.0, gs.DEGREE_SCALE):
            kg = dict(kw, geo_scale=gsc)
            if exact:
                kg["max_dist"] = m_rad * gsc
            try:
                e_g = gs.variogram.standard_bins(pa, latlon=True, **kg)
                r_g = gs.vario_estimate(pa, fld0, latlon=True, return_counts=True, **kg)
            except Exception as e:  # noqa: BLE001
                bad(form, "exception", "raised %r" % (e,), {"kw": kg})
                continue
            ctx.calls += 2
            # automatic diameter: chord -> arc (arcsin) is ill-conditioned for nearly antipodal boxes (~1e-8)
            # ... and for (nearly) coincident points the automatic diameter is pure rounding noise (~1e-16 rad)
            rtol = 1e-12 if exact else 1e-6
            atol = 0.0 if exact else 1e-9 * gsc
            if e_g.shape != e_r.shape or not np.allclose(e_g, gsc * e_r, rtol=rtol, atol=atol):
                bad(form, "edges", "edges with geo_scale=%s are not geo_scale * the radian edges" % gsc,
                    {"kw": kg, "radian": e_r.tolist(), "scaled": e_g.tolist()})
                continue
            if np.shape(r_g[0]) != np.shape(r_r[0]) or not np.allclose(r_g[0], gsc * np.asarray(r_r[0]), rtol=rtol, atol=atol):
                bad(form, "centres", "bin centres with geo_scale=%s are not geo_scale * the radian centres" % gsc,
                    {"kw": kg, "radian": np.asarray(r_r[0]).tolist(), "scaled": np.asarray(r_g[0]).tolist()})
                continue
            on_edge = any(abs(d - e) <= 1e-9 * max(1.0, e) for d in drad for e in e_r) or e_r[-1] < 1e-6
            if not on_edge and not out["anti"]:
                if not (np.array_equal(r_g[2], r_r[2]) and np.allclose(r_g[1], r_r[1], rtol=1e-12, atol=1e-12)):
                    bad(form, "counts", "counts / values with geo_scale=%s differ from the radian run" % gsc,
                        {"kw": kg, "radian": _obs(r_r[1], r_r[2]), "scaled": _obs(r_g[1], r_g[2])})


def std_bins_euclid(ctx, gs, st, pa, fld0, dim):
    rng = ctx.rng
    k, m = rng.randint(2, 6), rng.choice([1.5, 2.0, 3.25])
    for form, kw in (("bin_no", {"bin_no": k}), ("max_dist", {"max_dist": m}), ("both", {"bin_no": k, "max_dist": m})):
        ctx.rel("standard-bins:" + form)
        try:
            e = gs.variogram.standard_bins(pa, dim=dim, **kw)
            r = gs.vario_estimate(pa, fld0, **kw)
        except Exception as ex:  # noqa: BLE001
            _fail(ctx, "rel:standard-bins:iso:%s:exception" % form, "raised %r" % (ex,), "iso", st, repr(kw), {"exception": repr(ex)})
            continue
        ctx.calls += 2
        ok = e[0] == 0.0 and ("bin_no" not in kw or len(e) == k + 1) and ("max_dist" not in kw or e[-1] == m)
        ok = ok and np.allclose(np.diff(e), e[-1] / (len(e) - 1), rtol=1e-12, atol=0) if e[-1] > 0 else ok
        ok = ok and np.allclose(r[0], (e[:-1] + e[1:]) / 2, rtol=1e-12, atol=0)
        if not ok:
            _fail(ctx, "rel:standard-bins:iso:%s:edges" % form, "standard bins are not bin_no equal bins from 0 to max_dist, or the centres "
                  "returned by vario_estimate are not their mid points", "iso", st, "standard_bins(pos, dim, %s)" % kw,
                  {"edges": e.tolist(), "centres": np.asarray(r[0]).tolist()})


def _half_degrees(E):
    """Edges in degrees; integer degrees are moved off the boundary only where the spec would
    treat them as boundaries anyway (equality of a float product is not assumed)."""
    return np.array(E, dtype=float) / 2.0


def _showkw(kw):
    return ", ".join("%s=%s" % (a, _show(b)) for a, b in kw.items())


def _show(x):
    if isinstance(x, np.ma.MaskedArray):
        return "ma.array(%s, mask=%s)" % (np.ma.getdata(x).tolist(), np.ma.getmaskarray(x).tolist())
    if isinstance(x, np.ndarray):
        return repr(x.tolist())
    if isinstance(x, list) and x and isinstance(x[0], np.ndarray):
        return "[" + ", ".join(_show(y) for y in x) + "]"
    if callable(x):
        return getattr(x, "__name__", "callable")
    return repr(x)


def replay_axis_c09(ctx, gs, K, st):
    inp, out = st["inp"], st["out"]
    g, ax = inp["grid"], inp["axis"] - 1
    vals, mask, nd = grid_arrays(g)
    if ax >= nd:
        return False
    rng = ctx.rng
    explag = [norm_bins(out["lag"])]
    expiso = [norm_bins(out["iso"])]
    ed = f_edges(inp["E"])
    est = rng.choice(["m", "c"])
    missing = mask | np.isnan(vals)

    def axis_rel(rel, fld, direction, kw=None, vdiv=1.0):
        ctx.rel(rel)
        try:
            v = gs.vario_estimate_axis(fld, direction, est_name(est), **(kw or {})) / vdiv
        except Exception as e:  # noqa: BLE001
            _fail(ctx, "rel:%s:axis:exception" % rel, "relation %s: vario_estimate_axis raised %r" % (rel, e), "axis", st,
                  "vario_estimate_axis(%s, %r, %r, %s)" % (_show(fld), direction, est_name(est), kw), {"exception": repr(e)})
            return
        ctx.calls += 1
        bad = compare(explag, _as2d(v), None, est)
        if bad:
            _fail(ctx, "rel:%s:axis:%s" % (rel, bad[0]), "relation %s: vario_estimate_axis differs from the TLC value at lag %d"
                  % (rel, bad[2]), "axis", st, "vario_estimate_axis(%s, %r, %r, %s)" % (_show(fld), direction, est_name(est), kw), _obs(v, None))

    nanf = np.where(missing, np.nan, vals)
    axis_rel("axis:missing-as-nan", nanf.copy(), ax)
    # marker rule: data in a tiny / huge unit with no_data=0 (exact zeros are the markers), values near a big marker
    for which in ("unit", "near"):
        label, f_, kw_, vd = render_scaled(nanf.reshape(1, -1), which, rng)
        axis_rel("axis:marker-rule:" + label, f_.reshape(nanf.shape), ax, kw_, vdiv=vd)
    axis_rel("axis:missing-as-masked", np.ma.array(np.where(missing, 9.0, vals), mask=missing.copy()), "xyz"[ax])
    axis_rel("axis:missing-as-no_data", np.where(missing, -5.0, vals), ax, {"no_data": -5.0})
    axis_rel("axis:mask+no_data", np.ma.array(np.where(np.isnan(vals), -5.0, vals), mask=mask.copy()), ax, {"no_data": -5.0})
    fl = rng.randrange(nd)
    axis_rel("axis:reversal", np.flip(nanf, fl).copy(), ax)
    if nd >= 2:  # permuting the other axes
        others = [a for a in range(nd) if a != ax]
        if len(others) == 2:
            axis_rel("axis:other-axes-swapped", np.swapaxes(nanf, others[0], others[1]).copy(), ax)
        other = others[0]
        moved = np.swapaxes(nanf, ax, other).copy()  # the same lines along another array axis
        axis_rel("axis:axis-renamed", moved, other)

    # structured mesh == equivalent point list == TLC isotropic value of the grid points
    axes = tuple(np.array(a, dtype=float) for a in g["ax"][:nd])
    grid = np.meshgrid(*axes, indexing="ij")
    pts = np.array([x.reshape(-1) for x in grid])
    fldnan = nanf

    # all axes of equal length n and nd * n == n ** nd or n ** (nd - 1)  (2 x 2, 3 x 3 x 3): the axes tuple
    # has as many entries as the field (or as one field of a stack) -> format_struct_pos_shape reads it as 1-D
    n0 = vals.shape[0]
    ambiguous = nd >= 2 and len(set(vals.shape)) == 1 and nd * n0 in (n0 ** nd, n0 ** (nd - 1))

    def iso_rel(rel, call, desc, tol=1e-12, e=None, expd=None, vdiv=1.0):
        if vdiv != 1.0:
            call0 = call
            call = lambda: _div(call0(), vdiv)  # noqa: E731
        if ambiguous and rel.startswith("structured-mesh"):
            col = Ctx(ctx.pid, ctx.tier, 0, "tmp")
            _check_rel(col, st, "axis", rel, expiso if expd is None else expd, call, est if e is None else e, desc, tol)
            ctx.calls += col.calls
            ctx.rel(rel)
            for _k, what, rp in col.violations:
                ctx.hit_inputs[K_SQUARE].add(_state_key(st))
                ctx.violation(K_SQUARE, "a structured mesh whose axes all have length %d (%s grid) is read as 1-D input: %s"
                              % (vals.shape[0], " x ".join(map(str, vals.shape)), what), rp)
            return
        _check_rel(ctx, st, "axis", rel, expiso if expd is None else expd, call, est if e is None else e, desc, tol)

    pos_s = axes if nd > 1 else (axes[0] if rng.random() < 0.5 else axes)
    iso_rel("structured-mesh", lambda: call_api(gs, pos_s, fldnan.copy(), ed, est, mesh_type="structured"),
            "vario_estimate(axes=%s, field=%s, edges=%s, mesh_type='structured')" % ([a.tolist() for a in axes], _show(fldnan), ed.tolist()))
    label, fsc, kwsc, vd = render_scaled(fldnan.reshape(1, -1), rng.choice(["unit", "near"]), rng)
    fsc = fsc.reshape(fldnan.shape)
    iso_rel("structured-mesh:marker-rule:" + label, lambda: call_api(gs, pos_s, fsc.copy(), ed, est, mesh_type="structured", **kwsc),
            "vario_estimate(axes=%s, field=%s, edges=%s, mesh_type='structured', %s)" % ([a.tolist() for a in axes], _show(fsc), ed.tolist(), _showkw(kwsc)), vdiv=vd)
    iso_rel("point-list", lambda: call_api(gs, pts, fldnan.reshape(-1).copy(), ed, est),
            "vario_estimate(points=%s, field=%s, edges=%s)" % (pts.tolist(), _show(fldnan.reshape(-1)), ed.tolist()))
    if missing.any() and not missing.all():
        filled = np.where(missing, 4.0, vals)
        msp = rng.choice(("bool", "int", "float"))
        mobj = spell_mask(missing, msp)
        iso_rel("structured-mesh+mask", lambda: call_api(gs, axes, filled.copy(), ed, est, mesh_type="structured", mask=mobj),
                "vario_estimate(axes=%s, field=%s, edges=%s, mesh_type='structured', mask=%s)" % ([a.tolist() for a in axes], _show(filled), ed.tolist(), missing.tolist()))
        iso_rel("structured-mesh+masked-array", lambda: call_api(gs, axes, np.ma.array(filled.copy(), mask=missing.copy()), ed, est, mesh_type="structured"),
                "vario_estimate(axes, ma.array(%s, mask=%s), mesh_type='structured')" % (_show(filled), missing.tolist()))
        keep = ~missing.reshape(-1)
        iso_rel("point-list-removed", lambda: call_api(gs, pts[:, keep], vals.reshape(-1)[keep].copy(), ed, est),
                "vario_estimate(points without the missing cells)")
    # two fields on the same mesh: twice the counts, same value
    st2 = [[(2 * c, vm, cressie_dup(c, vc)) for (c, vm, vc) in alts] for alts in expiso[0]]
    iso_rel("structured-mesh-stacked", lambda: call_api(gs, axes, [fldnan.copy(), fldnan.copy() + 3.0], ed, "m", mesh_type="structured"),
            "vario_estimate(axes=%s, [F, F+3] with F=%s, edges=%s, mesh_type='structured')" % ([a.tolist() for a in axes], _show(fldnan), ed.tolist()),
            e="m", expd=[st2])
    # the along-axis estimator equals the directional estimator on the unit-spaced grid points
    if nd >= 2 and not rng.random() < 0.5:
        n_ax = vals.shape[ax]
        idx = np.meshgrid(*[np.arange(s, dtype=float) for s in vals.shape], indexing="ij")
        ipts = np.array([x.reshape(-1) for x in idx])
        u = [0.0] * nd
        u[ax] = 1.0
        edges = np.arange(n_ax, dtype=float) + 0.5
        explag_d = [explag[0][1:]]
        _check_rel(ctx, st, "axis", "axis==directional(band 1/2)", explag_d,
                   lambda: call_api(gs, ipts, fldnan.reshape(-1).copy(), edges, est, direction=[u], bandwidth=0.5),
                   est, "vario_estimate(index points, field, edges=k+-1/2, direction=axis, bandwidth=0.5)")
    return True


def cressie_dup(c, vc):
    """Cressie value when every pair is counted twice (same mean of square roots, N -> 2N)."""
    if c == 0:
        return 0.0
    return vc * (0.457 + 0.494 / c + 0.045 / c ** 2) / (0.457 + 0.494 / (2 * c) + 0.045 / (2 * c) ** 2)


def replay_sub_c09(ctx, gs, K, st):
    inp, out = st["inp"], st["out"]
    rng = ctx.rng
    pa, fa, ed = f_pos(inp["pts"]), f_fields(inp["flds"]), f_edges(inp["E"])
    n, k = pa.shape[1], inp["k"]
    fld0 = fa if fa.shape[0] > 1 else fa[0]
    subs = [(sorted(dict(r)["s"]), [norm_bins(dict(r)["r"])]) for r in out["subs"]]
    full = [norm_bins(out["full"])]
    identified = 0
    # the seed VALUE comes from the spec input (0 is a valid seed); spellings: Python int / numpy integer
    sv = inp["seed"]
    first = None
    for seed in (sv, np.int64(sv)):
        est = "m"
        ctx.rel("sub-sample")
        try:
            _c, v, c = call_api(gs, pa, fld0, ed, est, sampling_size=k, sampling_seed=seed)
            _c, v2, c2 = call_api(gs, pa.copy(), np.array(fld0, copy=True), ed, est, sampling_size=k, sampling_seed=seed)
        except Exception as e:  # noqa: BLE001
            _fail(ctx, "rel:sub-sample:exception", "vario_estimate(sampling_size=%d) raised %r" % (k, e), "sub", st,
                  "vario_estimate(..., sampling_size=%d, sampling_seed=%r)" % (k, seed), {"exception": repr(e)})
            continue
        ctx.calls += 2
        hits = [s for s, e in subs if compare(e, v, c, est) is None]
        desc = "vario_estimate(pos, field, edges, sampling_size=%d, sampling_seed=%r, estimator=%r)" % (k, seed, est_name(est))
        if not hits:
            _fail(ctx, "rel:sub-sample:no-subset", "the sampled estimate equals the estimate on no subset of size %d" % k,
                  "sub", st, desc, _obs(v, c))
        elif len(hits) == 1:  # (several subsets may share count and value of one estimator: then not identifiable)
            identified += 1
        if not (np.array_equal(v, v2) and np.array_equal(c, c2)):
            _fail(ctx, "rel:sub-sample:not-reproducible", "two calls with sampling_seed=%r differ" % (seed,), "sub", st, desc,
                  {"first": _obs(v, c), "second": _obs(v2, c2)})
        if first is None:
            first = (v, c)
        elif not (np.array_equal(v, first[0]) and np.array_equal(c, first[1])):
            _fail(ctx, "rel:sub-sample:seed-spelling", "sampling_seed=%r (numpy integer) gives another sample than the Python int of the same value"
                  % (seed,), "sub", st, desc, {"int": _obs(*first), "numpy": _obs(v, c)})
    est = rng.choice(["m", "c"])
    for big in (n, n + 3):
        _check_rel(ctx, st, "sub", "sampling_size>=n", full,
                   lambda: call_api(gs, pa, fld0, ed, est, sampling_size=big, sampling_seed=rng.randint(0, 99)), est,
                   "vario_estimate(..., sampling_size=%d)" % big)
    return identified == 2


REPLAY = {
    ("C08", "iso"): replay_iso_c08, ("C08", "dir"): replay_dir_c08, ("C08", "gc"): replay_gc_c08,
    ("C08", "axis"): replay_axis_c08,
    ("C09", "iso"): lambda c, g, k, s: replay_points_c09(c, g, k, s, "iso"),
    ("C09", "dir"): lambda c, g, k, s: replay_points_c09(c, g, k, s, "dir"),
    ("C09", "gc"): lambda c, g, k, s: replay_points_c09(c, g, k, s, "gc"),
    ("C09", "axis"): replay_axis_c09, ("C09", "sub"): replay_sub_c09,
}


def features(mode, st):
    """Coverage bookkeeping only (never part of a verdict): which edge cases an input contains."""
    inp = st["inp"]
    out = set()
    E = inp["E"]
    if E[0] > 0:
        out.add("first_edge_positive")
    if mode in ("iso", "dir", "sub", "gc"):
        pts, flds = inp["pts"], inp["flds"]
        n = len(pts)
        if mode != "gc":
            d2 = [sum((a - b) ** 2 for a, b in zip(pts[j], pts[k])) for j in range(n) for k in range(j + 1, n)]
            if any(4 * d == e * e for d in d2 for e in E):
                out.add("pair_exactly_on_edge")
            if 0 in d2:
                out.add("coincident_points")
            if n >= 3:
                v = [tuple(a - b for a, b in zip(p, pts[0])) for p in pts[1:]]
                v = [list(x) + [0] * (3 - len(x)) for x in v]
                cr = lambda a, b: (a[1] * b[2] - a[2] * b[1], a[2] * b[0] - a[0] * b[2], a[0] * b[1] - a[1] * b[0])
                if all(cr(v[0], w) == (0, 0, 0) for w in v) and all(cr(a, b) == (0, 0, 0) for a in v for b in v):
                    out.add("collinear_points")
        else:
            if st["out"]["anti"]:
                out.add("antipodal_pair")
            if any(abs(p[0]) == 90 for p in pts):
                out.add("pole")
        if any(x == NAN for f in flds for x in f):
            out.add("missing_values")
        if any(all(f[j] == NAN for f in flds) for j in range(n)):
            out.add("point_without_data")
        if len(flds) > 1:
            out.add("several_fields")
    if mode == "axis":
        g = inp["grid"]
        if any(g["mask"]):
            out.add("masked_cells")
        if NAN in g["vals"]:
            out.add("missing_values")
    return out


def _state_key(st):
    return zlib.crc32(repr(tlaval.freeze(st["inp"])).encode())


def _work(arg):
    """One job in a worker process: TLC enumerates + computes, then every state is replayed."""
    job, pid, tier, seed, timeout = arg
    import gstools as gs
    from gstools.variogram import estimator as K

    invs = list(C08_INVS) if pid == "C08" else ["WellFormed"] + C09_INVS[job["mode"]]
    mod, cfg = mc_text(job, invs, again=(pid == "C09"))
    ctx = Ctx(pid, tier, seed, job["name"])
    ctx.trends = sorted(job["consts"]["Trends"])
    res = {"name": job["name"], "mode": job["mode"]}
    with tlc.Scratch() as sc:
        sc.write(job["name"] + ".tla", mod)
        dump = sc.path(job["name"] + ".dump")
        r = tlc.run(sc, job["name"], cfg, workers=1, timeout=timeout, dump=("states", dump), heap="2g",
                    env={"JAVA_TOOL_OPTIONS": "-Xss64m"})
        tlc.must_pass(r, job["name"])
        res["tlc"] = dict(distinct=r.distinct, generated=r.generated, depth=r.depth, wall=r.wall, error=r.error)
        if r.error:
            res["design"] = {"error": r.error, "trace": tlc.error_trace(r), "tail": r.stdout[-1500:]}
        t0 = time.time()
        fn = REPLAY[(pid, job["mode"])]
        for st in iter_states(dump):
            ctx.replayed += 1
            if fn(ctx, gs, K, st):
                ctx.nontrivial.add(_state_key(st))
            for ft in features(job["mode"], st):
                ctx.features[ft] = ctx.features.get(ft, 0) + 1
            if len(ctx.samples) < 1 and ctx.replayed == 3:
                ctx.samples.append({"mode": job["mode"], "inp": _jsonable_state(st["inp"]), "expected": _jsonable_state(st["out"])})
        res["replay_wall"] = time.time() - t0
    res.update(violations=ctx.violations, calls=ctx.calls, replayed=ctx.replayed, nontrivial=ctx.nontrivial,
               samples=ctx.samples, hits=ctx.hits, hit_inputs={k: len(v) for k, v in ctx.hit_inputs.items()}, relations=ctx.relations, boundary=ctx.boundary_inputs, features=ctx.features)
    return res


class _R:
    """Minimal stand-in for tlc.Result in the parent process."""

    def __init__(self, d):
        self.distinct, self.generated, self.depth, self.wall, self.error = d["distinct"], d["generated"], d["depth"], d["wall"], d["error"]


def do_replay_file(pid, path):
    """./check Cxx --replay file: run the recorded call description again on the real code."""
    import gstools as gs
    from gstools.variogram import estimator as K

    rp = json.load(open(path))
    print("key:", rp["key"])
    print("what:", rp["what"])
    r = rp["replay"]
    print("mode:", r["mode"])
    print("input (spec values; NaN token = %d, edges doubled):" % NAN, json.dumps(r["inp"]))
    print("call:", r["call"])
    print("observed when recorded:", json.dumps(r["observed"]))
    inp = r["inp"]
    if r["mode"] in ("iso", "dir", "gc", "sub") and "pts" in inp:
        pa, fa = f_pos(inp["pts"]), f_fields(inp["flds"])
        ed = f_edges(inp["E"]) * (math.pi / 180.0 if r["mode"] == "gc" else 1.0)
        kw = dir_kwargs(inp) if r["mode"] == "dir" else ({"latlon": True} if r["mode"] == "gc" else {})
        for est in ("m", "c"):
            print("now: vario_estimate(%s) ->" % est_name(est), [np.asarray(x).tolist() for x in call_api(gs, pa, fa, ed, est, **kw)[1:]])
    return 0


def run(pid, tier, seed, replay=None):
    assert pid in PROPERTIES
    if replay:
        return do_replay_file(pid, replay)
    rep = Report(pid, tier, seed)
    rng = random.Random(seed * 7919 + (8 if pid == "C08" else 9))
    rep.assumptions += [
        "inputs live on exact lattices: integer points, integer field values or a NaN token, bin edges and bandwidths in halves, "
        "integer direction vectors, tolerance in {pi/8, pi/6, pi/4, pi/3, pi/2}, lat/lon in integer degrees on the equator / one meridian "
        "great circle / the poles (where the great-circle distance in degrees is an exact integer)",
        "a comparison that is an exact equality of two quantities the implementation can only compute with rounding (angle == tolerance, "
        "band distance == bandwidth, great-circle distance == edge) is a boundary: the spec admits both outcomes",
        "an empty bin has the value 0 (NaN would also be accepted); its count must be 0",
        "trusted: TLC, the mapping of spec integers to floats in this driver, the Cressie-Hawkins formula applied to TLC's bag of |differences|",
    ]
    jobs = plan_jobs(pid, tier, rng)
    timeout = 600 if tier == "quick" else 3000
    import multiprocessing as mp
    import gstools  # noqa: F401  (imported before the fork)

    procs = int(os.environ.get("VERIF_PROCS", "14"))
    jobs.sort(key=lambda j: -j["est"] * (8 if j["mode"] == "dir" else 1))
    t0 = time.time()
    totals = {"calls": 0, "replayed": 0, "boundary": 0}
    hits = {K_ANTI: 0, K_COINC: 0, K_SQUARE: 0, K_ALLMASK: 0}
    hit_inputs = dict(hits)
    relations = {}
    feats = {}
    per_mode = {}
    with mp.get_context("fork").Pool(procs) as pool:
        for res in pool.imap_unordered(_work, [(j, pid, tier, seed, timeout) for j in jobs]):
            rep.add_tlc("Vario[%s]" % res["name"], _R(res["tlc"]))
            if "design" in res:
                d = res["design"]
                rep.violation("design:%s:%s" % (res["mode"], d["error"][1]),
                              "the definition violates the theorem %s %s on an enumerated input (%s)" % (d["error"][0], d["error"][1], res["name"]),
                              {"trace": d["trace"], "tail": d["tail"]})
            for key, what, rp in res["violations"]:
                rep.violation(key, what, rp)
            rep.traces += res["replayed"]
            rep.evaluations += res["replayed"]
            rep.nontrivial |= {(res["mode"], k) for k in res["nontrivial"]}
            for s in res["samples"]:
                if sum(1 for x in rep.samples if x["mode"] == s["mode"]) < 2:
                    rep.sample(s, cap=8)
            for k in totals:
                totals[k] += res.get(k, 0) if k != "boundary" else res["boundary"]
            for k in hits:
                hits[k] += res["hits"][k]
                hit_inputs[k] += res["hit_inputs"][k]
            for k, v in res["relations"].items():
                relations[k] = relations.get(k, 0) + v
            for k, v in res["features"].items():
                feats[k] = feats.get(k, 0) + v
            pm = per_mode.setdefault(res["mode"], {"inputs": 0, "tlc_s": 0.0, "replay_s": 0.0})
            pm["inputs"] += res["replayed"]
            pm["tlc_s"] += res["tlc"]["wall"]
            pm["replay_s"] += res["replay_wall"]
    print("%d TLC jobs + replay in %.1fs" % (len(jobs), time.time() - t0))
    rep.extra["real_calls"] = totals["calls"]
    rep.extra["inputs_per_mode"] = {k: {"inputs": v["inputs"], "tlc_jobs_wall_sum_s": round(v["tlc_s"], 1), "replay_wall_sum_s": round(v["replay_s"], 1)}
                                    for k, v in sorted(per_mode.items())}
    rep.extra["inputs_with_boundary_alternatives"] = totals["boundary"]
    rep.extra["inputs_with_feature"] = dict(sorted(feats.items()))
    rep.extra["known_finding_hits"] = {"deviating_real_calls": hits, "distinct_inputs": hit_inputs}
    if relations:
        rep.extra["related_calls_per_relation"] = dict(sorted(relations.items()))
    rep.extra["tlc_invariants"] = C08_INVS if pid == "C08" else {m: ["WellFormed"] + v for m, v in C09_INVS.items()}
    if pid == "C08":
        rule = ("inputs = every initial state TLC enumerates from the seeded constant pools (point sets x field stacks x edge sets "
                "[x direction sets x 5 tolerances x bandwidths | great-circle families | grids x axes]); each is executed by the compiled "
                "kernel(s) and by vario_estimate / vario_estimate_axis with both estimators; distinct = distinct input (crc of the spec input), "
                "non-trivial = at least one bin with a pair or with boundary alternatives")
    else:
        rule = ("inputs = every initial state TLC enumerates (the C09 theorems are invariants checked on each); for each input every applicable "
                "relation (see related_calls_per_relation) is executed through the real vario_estimate / vario_estimate_axis and compared with the "
                "TLC value; distinct = distinct input, non-trivial = all relations executed (sub-sampling: the real result matches exactly one of TLC's subsets for both seeds)")
    return rep.finish(level="model_checking", rule=rule, exhaustive=False)
