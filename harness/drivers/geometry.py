"""C12 / C13: Geometry.tla + GeometrySphere.tla bound to gstools.

C12  anisotropy and rotation act as a linear change of coordinates
     TLC enumerates every quarter-turn angle vector (dims 1-4) x dyadic ratio vector, checks
     the algebraic clauses (inverse, proper orthogonal, documented conventions, embedding,
     length scale along the main axes) and computes the matrices / transformed positions;
     tools/geometric.py and the CovModel methods must reproduce them (1e-12); SRF, vector
     fields, Krige and CondSRF with the anisotropic rotated model at x must equal the isotropic
     model at the spec's Iso.x (and, for seeded general angles, at the implementation's own
     isometrize(x)).
C13  geographic and spatio-temporal coordinates
     TLC: time axis of spatio-temporal models (Geometry, mode "tmp"), octahedral lat-lon
     lattice, exact great-circle families, the 24 octahedral rotations, space-time lattice sets
     (GeometrySphere); bound to latlon2pos/pos2latlon, CovModel.isometrize/anisometrize,
     vario_estimate(latlon=True), cov_yadrenko, Krige / SRF / CondSRF on lat-lon(-time) points.

Verdict rule: a VIOLATION is raised only when an implementation output differs from a value
computed by TLC, or when a relation that the property itself states between implementation
outputs fails.  numpy is used to run the code and to compare, never to produce expected values.
"""
PROPERTIES = ("C12", "C13")

import itertools
import json
import math
import multiprocessing as mp
import os
import random
import re
import time
import warnings

import numpy as np

from .. import tlc, tlaval
from ..report import Report

TOL = 1e-12
KTOL = 1e-9
HALF_PI = math.pi / 2

# integer test positions per dimension (general position: all coordinates of a point differ in
# modulus from each other where possible, so signed permutations / scalings are told apart)
XPTS = {1: [[3], [-2], [5]],
        2: [[1, 2], [-3, 1], [2, -2]],
        3: [[1, 2, -3], [2, -1, 1], [-2, 3, 1]],
        4: [[1, 2, -3, 2], [3, -1, 1, -2], [-1, -2, 2, 3]]}
LENEXP = (-1, 0, 1)
ES4_QUICK = [[-1, 0, 1], [1, -1, -1], [0, 1, -1]]

MODELS = [("Gaussian", {}, 4), ("Exponential", {}, 4), ("Stable", {"alpha": 1.5}, 4), ("Matern", {"nu": 1.5}, 4),
          ("Rational", {"alpha": 2.0}, 4), ("Spherical", {}, 3), ("Cubic", {}, 3)]


def _tl(v):
    return tlaval.to_tla(v)


def noa(d):
    return d * (d - 1) // 2


def angles_of(qs):
    return [q * HALF_PI for q in qs]


def anis_of(es):
    return [2.0 ** e for e in es]


def close(a, b, tol):
    a, b = np.asarray(a, dtype=float), np.asarray(b, dtype=float)
    if a.shape != b.shape:
        return False
    if a.size == 0:
        return True
    return bool(np.all(np.abs(a - b) <= tol * np.maximum(1.0, np.abs(b))))


def maxdiff(a, b):
    a, b = np.asarray(a, dtype=float), np.asarray(b, dtype=float)
    if a.shape != b.shape:
        return "shape %s vs %s" % (a.shape, b.shape)
    return float(np.max(np.abs(a - b))) if a.size else 0.0


# ---------------------------------------------------------------------------
# TLC jobs


def _expvecs(d, vals=(-1, 0, 1)):
    return [list(v) for v in itertools.product(vals, repeat=d - 1)]


FULLQ = [range(4)] * 6


def lin_module(name, mode, dims, qsets, exps):
    """MC wrapper of Geometry.tla.  qsets: 6 iterables; exps: dict d -> list of exponent vectors."""
    defs = {
        "McMode": '"%s"' % mode,
        "McDims": _tl(set(dims)),
        "McQ": "<<" + ", ".join(_tl(set(q)) for q in qsets) + ">>",
        "McExp": "(" + " @@ ".join("%d :> %s" % (d, "{" + ", ".join(_tl(e) for e in exps.get(d, [[0] * (d - 1)])) + "}")
                                   for d in range(1, 5)) + ")",
        "McX": "(" + " @@ ".join("%d :> %s" % (d, _tl(XPTS[d])) for d in range(1, 5)) + ")",
        "McLen": _tl(set(LENEXP)),
    }
    mod = "---- MODULE %s ----\nEXTENDS Geometry\n" % name + "".join("%s == %s\n" % kv for kv in defs.items()) + "====\n"
    cfg = ("CONSTANTS\n Mode <- McMode\n Dims <- McDims\n QSets <- McQ\n ExpSet <- McExp\n XPts <- McX\n"
           " LenExp <- McLen\nINIT Init\nNEXT Next\n")
    return mod, cfg


LIN_INVS = ["TypeOK", "InverseOK", "ProperOrthogonal", "EmbeddingOK", "MainAxisScaleOK", "TimeAxisOK"]


def _cfg_inv(cfg, invs):
    return cfg + "".join("INVARIANT %s\n" % i for i in invs)


def sphere_module(name, mode, lats=(0,), lons=(0,), times=(0,), radexp=(0,), timeexp=(0,),
                  pointsets=(), values=(), stsets=()):
    """MC wrapper of GeometrySphere.tla."""
    defs = {
        "McMode": '"%s"' % mode, "McLats": _tl(set(lats)), "McLons": _tl(set(lons)), "McTimes": _tl(set(times)),
        "McRadExp": _tl(set(radexp)), "McTimeExp": _tl(set(timeexp)),
        "McPointSets": _tl([[list(p) for p in ps] for ps in pointsets]),
        "McValues": _tl([list(v) for v in values]),
        "McSTSets": _tl([dict(r=s["r"], te=s["te"], pts=[list(p) for p in s["pts"]]) for s in stsets]),
    }
    mod = "---- MODULE %s ----\nEXTENDS GeometrySphere\n" % name + "".join("%s == %s\n" % kv for kv in defs.items()) + "====\n"
    cfg = ("CONSTANTS\n Mode <- McMode\n Lats <- McLats\n Lons <- McLons\n Times <- McTimes\n RadExp <- McRadExp\n"
           " TimeExp <- McTimeExp\n PointSets <- McPointSets\n Values <- McValues\n STSets <- McSTSets\n"
           "INIT Init\nNEXT Next\nINVARIANT AllChecks\n")
    return mod, cfg


_INT = re.compile(r"-?\d+")
_FLD = re.compile(r"(\w+) \|->\s*(<<[^<>]*>>|TRUE|FALSE|-?\d+)")


def read_lin_dump(path):
    """Fast parser for the state dump of Geometry.tla ("lin"/"tmp": records of flat integer
    sequences).  A sample of states is cross-checked against the generic tlaval parser."""
    with open(path) as fh:
        text = fh.read()
    blocks = [b for b in re.split(r"(?m)^State \d+:\n", text) if b.strip()]
    out = []
    for b in blocks:
        st, chk = {}, {}
        for m in _FLD.finditer(b):
            k, v = m.group(1), m.group(2)
            if v in ("TRUE", "FALSE"):
                chk[k] = v == "TRUE"
            elif v.startswith("<<"):
                st[k] = [int(x) for x in _INT.findall(v)]
            else:
                st[k] = int(v)
        st["chk"] = chk
        out.append(st)
    rng = random.Random(len(blocks))
    for i in rng.sample(range(len(blocks)), min(4, len(blocks))):
        g = tlaval.parse_state(blocks[i])
        ref = dict(g["cfg"])
        ref.update(g["out"])
        for k in ("d", "qs", "es", "rot", "derot", "axes", "isoX", "anisoX", "rad2"):
            exp = list(ref[k]) if isinstance(ref[k], (list, tuple)) else ref[k]
            if exp != out[i].get(k):
                raise tlc.MachineryError("fast dump parser disagrees with tlaval on %s: %r vs %r" % (k, exp, out[i].get(k)))
        if {k: bool(v) for k, v in ref["chk"].items()} != out[i]["chk"]:
            raise tlc.MachineryError("fast dump parser disagrees with tlaval on chk")
    return out


def read_dump(path):
    """Generic (slow) parser: list of dicts cfg/out."""
    return tlc.read_state_dump(path)


# ---------------------------------------------------------------------------
# C12 / tmp: one TLC configuration against the real code


def _gs():
    import gstools as gs
    return gs


def _mk_model(name, kw, **args):
    gs = _gs()
    with warnings.catch_warnings():
        warnings.simplefilter("ignore")
        return getattr(gs, name)(**kw, **args)


def _state_arrays(st):
    d = st["d"]
    n = len(XPTS[d])
    P = np.array([[1.0 if i == j else 0.0 for j in range(d)] for i in range(d)])
    P = np.concatenate([P, np.array(XPTS[d], dtype=float).T], axis=1)  # d x (d+n): [I | X]
    return dict(
        d=d, n=n, P=P,
        rot=np.array(st["rot"], dtype=float).reshape(d, d),
        derot=np.array(st["derot"], dtype=float).reshape(d, d),
        axes=np.array(st["axes"], dtype=float).reshape(d, d),
        isoX=np.array(st["isoX"], dtype=float).reshape(d, d + n) / 4.0,
        anisoX=np.array(st["anisoX"], dtype=float).reshape(d, d + n) / 4.0,
        rad2=np.array(st["rad2"], dtype=float) / 16.0,
    )


class _Collect:
    def __init__(self):
        self.violations = []
        self.evals = 0
        self.nontrivial = set()
        self.samples = []
        self.notes = []

    def violation(self, key, what, replay):
        if not any(k == key for k, _w, _r in self.violations):
            self.violations.append((key, what, replay))

    def check(self, ok, key, what, replay):
        self.evals += 1
        if not ok:
            self.violation(key, what, replay)
        return ok


def _cfgstr(st):
    return "d=%d qs=%s es=%s" % (st["d"], st["qs"], st["es"])


def check_functions(col, st, temporal=False):
    """tools/geometric.py against the spec's matrices for one configuration (C12 function level)."""
    from gstools.tools import geometric as g

    a = _state_arrays(st)
    d = a["d"]
    ang, anis = angles_of(st["qs"]), anis_of(st["es"])
    if temporal:
        return
    rp = {"kind": "functions", "d": d, "qs": st["qs"], "es": st["es"]}
    cls = "d%d" % d
    for fname, got, exp in (
        ("matrix_rotate", g.matrix_rotate(d, ang), a["rot"]),
        ("matrix_derotate", g.matrix_derotate(d, ang), a["derot"]),
        ("rotated_main_axes", g.rotated_main_axes(d, ang), a["axes"]),
        ("matrix_isometrize", g.matrix_isometrize(d, ang, anis), a["isoX"][:, :d]),
        ("matrix_anisometrize", g.matrix_anisometrize(d, ang, anis), a["anisoX"][:, :d]),
    ):
        col.check(close(got, exp, TOL), "geometric:%s:%s:matrix" % (fname, cls),
                  "%s(%s) differs from the spec matrix by %s: got %s expected %s"
                  % (fname, _cfgstr(st), maxdiff(got, exp), np.round(got, 6).tolist(), exp.tolist()),
                  dict(rp, function=fname, expected=exp, got=got))
    if not any(st["qs"]):
        col.check(close(g.matrix_isotropify(d, anis), a["isoX"][:, :d], TOL), "geometric:matrix_isotropify:%s:matrix" % cls,
                  "matrix_isotropify(%s) differs from the spec" % _cfgstr(st), dict(rp, function="matrix_isotropify"))
        col.check(close(g.matrix_anisotropify(d, anis), a["anisoX"][:, :d], TOL), "geometric:matrix_anisotropify:%s:matrix" % cls,
                  "matrix_anisotropify(%s) differs from the spec" % _cfgstr(st), dict(rp, function="matrix_anisotropify"))
    if not any(st["es"]) and d > 1:
        # angle vector given shorter than needed (documented: filled up with 0): trailing zeros dropped
        qs = list(st["qs"])
        while qs and qs[-1] == 0:
            qs.pop()
        if len(qs) < len(st["qs"]):
            short = angles_of(qs) if len(qs) != 1 else angles_of(qs)[0]
            got = g.matrix_rotate(d, short if qs else 0.0)
            col.check(close(got, a["rot"], TOL), "geometric:matrix_rotate:%s:short-angle-vector" % cls,
                      "matrix_rotate(%d, %s) with a short angle vector differs from the spec" % (d, qs),
                      dict(rp, function="matrix_rotate", short=qs))


def check_model(col, st, lexp, temporal=False):
    """CovModel.isometrize / anisometrize / main_axes / len_scale_vec / cov_spatial (1e-12)."""
    a = _state_arrays(st)
    d = a["d"]
    ang, anis = angles_of(st["qs"]), anis_of(st["es"])
    L = 2.0 ** lexp
    mode = "temporal" if temporal else "spatial"
    cls = "%s:d%d" % (mode, d)
    rp = {"kind": "model", "d": d, "qs": st["qs"], "es": st["es"], "len_exp": lexp, "temporal": temporal}
    if temporal:
        m = _mk_model("Gaussian", {}, temporal=True, spatial_dim=d - 1, len_scale=L, anis=anis or 1.0, angles=ang or 0.0, var=2.0)
    else:
        m = _mk_model("Gaussian", {}, dim=d, len_scale=L, anis=anis or 1.0, angles=ang or 0.0, var=2.0)
    if not col.check(m.dim == d, "model:dim:%s" % cls, "model dim %s instead of %d" % (m.dim, d), rp):
        return
    P = a["P"]
    got = m.isometrize(P)
    col.check(close(got, a["isoX"], TOL), "model:isometrize:%s" % cls,
              "CovModel.isometrize for %s differs from the spec's Iso.[I|X] by %s" % (_cfgstr(st), maxdiff(got, a["isoX"])),
              dict(rp, expected=a["isoX"], got=got))
    got = m.anisometrize(P)
    col.check(close(got, a["anisoX"], TOL), "model:anisometrize:%s" % cls,
              "CovModel.anisometrize for %s differs from the spec's Aniso.[I|X] by %s" % (_cfgstr(st), maxdiff(got, a["anisoX"])),
              dict(rp, expected=a["anisoX"], got=got))
    got = np.asarray(m.main_axes())
    col.check(close(got, a["axes"], TOL), "model:main_axes:%s" % cls,
              "CovModel.main_axes for %s differs from the spec (rows = main axes): got %s expected %s"
              % (_cfgstr(st), np.round(got, 6).tolist(), a["axes"].tolist()), dict(rp, expected=a["axes"], got=got))
    lsv = [L] + [L * r for r in anis]
    col.check(close(m.len_scale_vec, lsv, TOL), "model:len_scale_vec:%s" % cls,
              "len_scale_vec %s instead of len_scale x (1, anis) = %s" % (list(m.len_scale_vec), lsv), rp)
    # along main axis i at distance len_scale * anis[i-1] the model is where the isotropic model is at len_scale
    ref = float(m.covariance(L))
    for i in range(d):
        v = (lsv[i] * a["axes"][i]).reshape(d, 1)
        got = float(m.cov_spatial(v)[0])
        col.check(abs(got - ref) <= TOL * m.var, "model:cov_spatial:%s:main-axis-scale" % cls,
                  "cov_spatial(len_scale_vec[%d] * main axis %d) = %r but covariance(len_scale) = %r for %s"
                  % (i, i + 1, got, ref, _cfgstr(st)), dict(rp, axis=i))
    # spatial covariance / variogram / correlation at the test positions = isotropic function of the spec radius
    rad = np.sqrt(a["rad2"])
    X = P[:, d:]
    for fname, iso in (("cov_spatial", m.covariance), ("vario_spatial", m.variogram), ("cor_spatial", m.correlation)):
        got, exp = getattr(m, fname)(X), iso(rad)
        col.check(close(got, exp, TOL * max(1.0, m.var)), "model:%s:%s:radius" % (fname, cls),
                  "%s at the test positions differs from the isotropic function at the spec radius for %s: %s vs %s"
                  % (fname, _cfgstr(st), list(got), list(exp)), dict(rp, function=fname, radius2=a["rad2"]))


COND_VALS = [1.0, -2.0, 3.0, 0.5, 4.0]


def _pipeline_compare(col, keybase, rp, what, m_an, m_iso, pos, ipos, seed, d, vector=True, structured=None):
    """Every pipeline with model m_an at pos against the same pipeline with m_iso at ipos."""
    gs = _gs()
    sd = math.sqrt(m_an.var)
    # --- SRF (RandMeth)
    f1 = gs.SRF(m_an, seed=seed, mode_no=8)(pos)
    f2 = gs.SRF(m_iso, seed=seed, mode_no=8)(ipos)
    col.check(close(f1, f2, TOL * max(1.0, sd)), keybase + ":SRF", "%s: SRF differs from the isotropic model at the transformed "
              "positions by %s" % (what, maxdiff(f1, f2)), dict(rp, pipeline="SRF", got=f1, expected=f2))
    if structured is not None:
        axes, gpos_iso = structured
        f1 = gs.SRF(m_an, seed=seed, mode_no=8).structured(axes)
        f2 = gs.SRF(m_iso, seed=seed, mode_no=8)(gpos_iso)
        col.check(close(np.ravel(f1), f2, TOL * max(1.0, sd)), keybase + ":SRF-structured",
                  "%s: structured SRF differs from the isotropic model at the transformed grid by %s"
                  % (what, maxdiff(np.ravel(f1), f2)), dict(rp, pipeline="SRF-structured"))
    if vector and d in (2, 3):
        f1 = gs.SRF(m_an, seed=seed, mode_no=8, generator="VectorField")(pos)
        f2 = gs.SRF(m_iso, seed=seed, mode_no=8, generator="VectorField")(ipos)
        col.check(close(f1, f2, 1e-11 * max(1.0, sd)), keybase + ":VectorField", "%s: vector field differs from the isotropic model "
                  "at the transformed positions by %s" % (what, maxdiff(f1, f2)), dict(rp, pipeline="VectorField"))
    # --- kriging: the first d+1 points carry data, all points are targets
    nc = d + 1
    cp, icp, cv = pos[:, :nc], ipos[:, :nc], COND_VALS[:nc]
    for kname, K, kw in (("Simple", gs.krige.Simple, {"mean": 0.5}), ("Ordinary", gs.krige.Ordinary, {})):
        k1 = K(m_an, cond_pos=cp, cond_val=cv, **kw)
        k2 = K(m_iso, cond_pos=icp, cond_val=cv, **kw)
        a1, v1 = k1(pos)
        a2, v2 = k2(ipos)
        col.check(close(a1, a2, KTOL) and close(v1, v2, KTOL), keybase + ":Krige" + kname,
                  "%s: %s kriging differs from the isotropic model at the transformed positions (field %s, variance %s)"
                  % (what, kname, maxdiff(a1, a2), maxdiff(v1, v2)), dict(rp, pipeline="Krige." + kname, got=a1, expected=a2))
        if kname == "Ordinary":
            c1 = gs.CondSRF(k1, seed=seed, mode_no=8)(pos)
            c2 = gs.CondSRF(k2, seed=seed, mode_no=8)(ipos)
            col.check(close(c1, c2, KTOL), keybase + ":CondSRF", "%s: conditioned field differs from the isotropic model at the "
                      "transformed positions by %s" % (what, maxdiff(c1, c2)), dict(rp, pipeline="CondSRF", got=c1, expected=c2))


def check_pipeline(col, st, idx, temporal=False):
    """SRF / VectorField / Krige / CondSRF with the anisotropic rotated model at [I|X] against the
    isotropic model at the spec's Iso.[I|X]."""
    a = _state_arrays(st)
    d = a["d"]
    ok = [m for m in MODELS if m[2] >= d]
    name, kw, _ = ok[idx % len(ok)]
    lexp = LENEXP[(idx // len(ok)) % 3]
    L = 2.0 * 2.0 ** lexp
    ang, anis = angles_of(st["qs"]), anis_of(st["es"])
    common = dict(len_scale=L, var=2.0)
    if temporal:
        m_an = _mk_model(name, kw, temporal=True, spatial_dim=d - 1, anis=anis or 1.0, angles=ang or 0.0, **common)
        m_iso = _mk_model(name, kw, temporal=True, spatial_dim=d - 1, **common)
        m_zero = _mk_model(name, kw, temporal=True, spatial_dim=d - 1, anis=anis or 1.0,
                           angles=[x if k < noa(d - 1) else 0.0 for k, x in enumerate(ang)] or 0.0, **common)
    else:
        m_an = _mk_model(name, kw, dim=d, anis=anis or 1.0, angles=ang or 0.0, **common)
        m_iso = _mk_model(name, kw, dim=d, **common)
    rp = {"kind": "pipeline", "d": d, "qs": st["qs"], "es": st["es"], "model": name, "len_scale": L, "temporal": temporal}
    keybase = "pipeline:%s:d%d" % ("temporal" if temporal else "spatial", d)
    seed = 1000 + idx
    _pipeline_compare(col, keybase, rp, "%s %s" % (name, _cfgstr(st)), m_an, m_iso, a["P"], a["isoX"], seed, d)
    if temporal:
        # requested space-time angles are ignored: same results as with those angles zero
        gs = _gs()
        f1 = gs.SRF(m_an, seed=seed, mode_no=8)(a["P"])
        f2 = gs.SRF(m_zero, seed=seed, mode_no=8)(a["P"])
        col.check(close(f1, f2, TOL * 2), keybase + ":SRF:space-time-angles", "%s %s: the field depends on the requested space-time "
                  "angles (differs by %s from the model with those angles zero)" % (name, _cfgstr(st), maxdiff(f1, f2)),
                  dict(rp, pipeline="SRF zeroed angles"))
        nc = d + 1
        k1 = gs.krige.Ordinary(m_an, cond_pos=a["P"][:, :nc], cond_val=COND_VALS[:nc])(a["P"])
        k2 = gs.krige.Ordinary(m_zero, cond_pos=a["P"][:, :nc], cond_val=COND_VALS[:nc])(a["P"])
        col.check(close(k1[0], k2[0], KTOL) and close(k1[1], k2[1], KTOL), keybase + ":Krige:space-time-angles",
                  "%s %s: kriging depends on the requested space-time angles" % (name, _cfgstr(st)), dict(rp, pipeline="Krige zeroed"))


def check_general(col, idx, seed, temporal=False):
    """Seeded general angle / ratio vectors: both sides computed by the implementation."""
    from gstools.tools import geometric as g

    gs = _gs()
    rng = np.random.default_rng([seed, idx, int(temporal)])
    d = int(rng.integers(2 if temporal else 1, 5))
    ok = [m for m in MODELS if m[2] >= d]
    name, kw, _ = ok[idx % len(ok)]
    ang = list(rng.uniform(-2 * math.pi, 2 * math.pi, noa(d)))
    anis = list(np.exp(rng.uniform(math.log(0.2), math.log(5.0), d - 1)))
    L = float(np.exp(rng.uniform(math.log(0.5), math.log(4.0))))
    common = dict(len_scale=L, var=float(rng.uniform(0.5, 3.0)))
    if temporal:
        m_an = _mk_model(name, kw, temporal=True, spatial_dim=d - 1, anis=anis or 1.0, angles=ang or 0.0, **common)
        m_iso = _mk_model(name, kw, temporal=True, spatial_dim=d - 1, **common)
    else:
        m_an = _mk_model(name, kw, dim=d, anis=anis or 1.0, angles=ang or 0.0, **common)
        m_iso = _mk_model(name, kw, dim=d, **common)
    n = d + 4
    pos = np.round(rng.uniform(-3, 3, (d, n)), 3)
    ipos = m_an.isometrize(pos)
    rp = {"kind": "general", "idx": idx, "seed": seed, "d": d, "angles": ang, "anis": anis, "model": name,
          "len_scale": L, "temporal": temporal, "pos": pos}
    keybase = "pipeline-general:%s:d%d" % ("temporal" if temporal else "spatial", d)
    what = "%s d=%d angles=%s anis=%s" % (name, d, np.round(ang, 4).tolist(), np.round(anis, 4).tolist())
    # mutually inverse (a relation between implementation outputs stated by the property)
    back = m_an.anisometrize(ipos)
    col.check(close(back, pos, 1e-10), keybase + ":inverse", "%s: anisometrize(isometrize(x)) differs from x by %s"
              % (what, maxdiff(back, pos)), dict(rp, clause="inverse"))
    fwd = m_an.isometrize(m_an.anisometrize(pos))
    col.check(close(fwd, pos, 1e-10), keybase + ":inverse", "%s: isometrize(anisometrize(x)) differs from x by %s"
              % (what, maxdiff(fwd, pos)), dict(rp, clause="inverse2"))
    if not temporal:
        col.check(close(g.matrix_derotate(d, ang), g.matrix_rotate(d, ang).T, 1e-12), keybase + ":derotate-transpose",
                  "%s: matrix_derotate is not the transpose of matrix_rotate" % what, dict(rp, clause="transpose"))
    structured = None
    if d <= 3:
        axes = [np.round(rng.uniform(-2, 2, 2 + k), 2) for k in range(d)]
        grid = np.array(np.meshgrid(*axes, indexing="ij")).reshape(d, -1)  # enumeration of the grid points
        structured = (axes if d > 1 else axes[0], m_an.isometrize(grid))
    _pipeline_compare(col, keybase, rp, what, m_an, m_iso, pos, ipos, 77 + idx, d, structured=structured)


def _work_lin(job):
    """Worker: a chunk of TLC states of Geometry.tla."""
    kind, states, opts = job
    col = _Collect()
    temporal = kind == "tmp"
    for i, st in states:
        if not temporal:
            check_functions(col, st)
        if opts["model"](i):
            check_model(col, st, LENEXP[i % 3], temporal=temporal)
        if opts["pipe"](i):
            check_pipeline(col, st, i, temporal=temporal)
        col.nontrivial.add((kind, st["d"], tuple(st["qs"]), tuple(st["es"])))
    return col


def _work_general(job):
    idxs, seed, temporal = job
    col = _Collect()
    for i in idxs:
        check_general(col, i, seed, temporal=temporal)
        col.nontrivial.add(("general", temporal, i))
    return col


class _Sel:
    """Picklable index selector."""

    def __init__(self, every=1, always_below=0):
        self.every, self.below = every, always_below

    def __call__(self, i):
        return i < self.below or (self.every > 0 and i % self.every == 0)


def _merge(rep, col, traces=True):
    rep.evaluations += col.evals
    rep.nontrivial |= col.nontrivial
    for key, what, rp in col.violations:
        rep.violation(key, what, rp)


def _run_pool(fn, jobs, procs):
    if not jobs:
        return []
    with mp.get_context("fork").Pool(min(procs, len(jobs))) as pool:
        return list(pool.imap_unordered(fn, jobs))


def _procs(tier):
    env = os.environ.get("VERIF_PROCS")
    return int(env) if env else 14


def _design_violations(rep, results, names):
    for key, r in sorted(results.items()):
        tlc.must_pass(r, str(key))
        rep.add_tlc(names(key), r)
        if r.error:
            rep.violation("design:%s:%s" % (key[0], r.error[1] or r.error[0]),
                          "the ideal spec violates its own %s %s in job %s" % (r.error[0], r.error[1], key),
                          {"trace": tlc.error_trace(r)})


# ---------------------------------------------------------------------------
# C12


def run_c12(rep, tier, seed):
    thorough = tier == "thorough"
    rng = random.Random(seed)
    procs = _procs(tier)
    rep.assumptions += [
        "angles are quarter turns (float image q*pi/2), ratios are 1/2, 1, 2, positions are small integers: every expected value is exact",
        "Order (composition order of the elementary rotations) and the continuation of the alternating sign rule to the planes of "
        "the 4th axis are taken from the implementation (named constants Order / SignRule in Geometry.tla); the sign rule of the 3-D "
        "planes is verified by TLC against the documented right-handed yaw/pitch/roll convention (ConventionOK)",
        "pipelines are compared with mode_no=8 RandMeth generators; the isotropic reference model has the same class, variance and len_scale",
    ]
    with tlc.Scratch() as sc:
        jobs = []

        def add(tag, mode, dims, qsets, exps, invs):
            mod, cfg = lin_module("MC_" + tag, mode, dims, qsets, exps)
            sc.write("MC_%s.tla" % tag, mod)
            jobs.append(((mode, tag), sc, "MC_" + tag, _cfg_inv(cfg, invs),
                         dict(workers=1, timeout=1500, heap="2g", dump=("states", sc.path(tag + ".dump")))))

        add("giv", "giv", [1, 2, 3, 4], FULLQ, {}, ["GivOK"])
        add("d12", "lin", [1, 2], FULLQ, {1: [[]], 2: _expvecs(2)}, LIN_INVS)
        for q1 in range(4):
            add("d3q%d" % q1, "lin", [3], [[q1]] + FULLQ[1:], {3: _expvecs(3)}, LIN_INVS)
        es4 = _expvecs(4) if thorough else ES4_QUICK
        for ei, es in enumerate(es4):
            for q1 in range(4):
                add("d4e%dq%d" % (ei, q1), "lin", [4], [[q1]] + FULLQ[1:], {4: [es]}, LIN_INVS)
        t0 = time.time()
        results = tlc.run_many(jobs, parallel=procs)
        print("TLC: %d jobs in %.1fs" % (len(jobs), time.time() - t0))
        _design_violations(rep, results, lambda k: "Geometry.%s[%s]" % k)
        # ---- elementary rotations and helper functions
        t0 = time.time()
        col = _Collect()
        check_givens(col, read_dump(sc.path("giv.dump")))
        _merge(rep, col)
        states = []
        for (mode, tag), r in sorted(results.items()):
            if mode == "lin":
                states += read_lin_dump(sc.path(tag + ".dump"))
        print("parsed %d configurations in %.1fs" % (len(states), time.time() - t0))
    bad = [s for s in states if not all(s["chk"].values())]
    if bad and not rep.violations:
        raise tlc.MachineryError("a chk field is FALSE but TLC reported no invariant violation: %r" % (bad[0],))
    low = [s for s in states if s["d"] < 4]
    d4 = [s for s in states if s["d"] == 4]
    rng.shuffle(d4)
    # every configuration: functions of tools/geometric.py; CovModel methods and pipelines: all of dims 1-3,
    # a seeded sample in 4-D (quick) / a larger share (thorough)
    n_low = len(low)
    order = list(enumerate(low + d4))
    model_sel = _Sel(every=1 if thorough else 4, always_below=n_low)
    pipe_sel = _Sel(every=8 if thorough else 24, always_below=n_low)
    chunks = [("lin", order[i::procs * 3], {"model": model_sel, "pipe": pipe_sel}) for i in range(procs * 3)]
    t0 = time.time()
    for col in _run_pool(_work_lin, [c for c in chunks if c[1]], procs):
        _merge(rep, col)
    rep.traces += len(order)
    n_model = sum(1 for i, _ in order if model_sel(i))
    n_pipe = sum(1 for i, _ in order if pipe_sel(i))
    print("replayed %d configurations (%d on CovModel, %d through the pipelines) in %.1fs" % (len(order), n_model, n_pipe, time.time() - t0))
    for i, st in order[:3] + order[n_low:n_low + 2]:
        a = _state_arrays(st)
        rep.sample({"d": st["d"], "angles_quarter_turns": st["qs"], "ratio_exponents": st["es"],
                    "spec_rotate": a["rot"].tolist(), "spec_iso": a["isoX"][:, :st["d"]].tolist(), "spec_rad2": a["rad2"].tolist()})
    # ---- seeded general angles / ratios
    ng = 600 if thorough else 200
    t0 = time.time()
    gjobs = [(list(range(i, ng, procs * 2)), seed, False) for i in range(procs * 2)]
    for col in _run_pool(_work_general, gjobs, procs):
        _merge(rep, col)
    rep.traces += ng
    print("replayed %d seeded general angle/ratio vectors in %.1fs" % (ng, time.time() - t0))
    rep.extra.update({"configurations_from_tlc": len(order), "configurations_on_covmodel": n_model,
                      "configurations_through_pipelines": n_pipe, "general_vectors": ng,
                      "dim4_ratio_vectors": len(es4)})
    return rep.finish(
        level="model_checking",
        rule="TLC configurations = (dim, quarter-turn angle vector, ratio-exponent vector): all of dims 1-3, in 4-D all 4096 angle "
             "vectors x %d ratio vectors; each is one trace replayed on tools/geometric.py (all), on a CovModel and through "
             "SRF/VectorField/Krige/CondSRF (all of dims 1-3, a seeded sample in 4-D); + seeded general angle/ratio vectors. "
             "distinct non-trivial = distinct (dim, angles, ratios) tuples / general vector indices" % len(es4),
        exhaustive=thorough)


def check_givens(col, states):
    from gstools.tools import geometric as g

    seen = set()
    for s in states:
        c, o = s["cfg"], s["out"]
        d, k, q = c["d"], c["k"], c["q"]
        plane0 = tuple(x - 1 for x in o["plane"])
        exp = np.array(o["giv"], dtype=float).reshape(d, d)
        got = g.givens_rotation(d, plane0, q * HALF_PI)
        rp = {"kind": "givens", "d": d, "plane": plane0, "q": q}
        col.check(close(got, exp, TOL), "geometric:givens_rotation:d%d:matrix" % d,
                  "givens_rotation(%d, %s, %d*pi/2) = %s, spec %s" % (d, plane0, q, np.round(got, 6).tolist(), exp.tolist()), rp)
        if d not in seen:
            seen.add(d)
            col.check(g.no_of_angles(d) == o["noa"], "geometric:no_of_angles:d%d" % d,
                      "no_of_angles(%d) = %s, spec %s" % (d, g.no_of_angles(d), o["noa"]), rp)
        planes = [tuple(p) for p in g.rotation_planes(d)]
        col.check(len(planes) == o["noa"] and planes[k - 1] == plane0, "geometric:rotation_planes:d%d" % d,
                  "rotation_planes(%d)[%d] = %s, documented order gives %s" % (d, k - 1, planes[k - 1:k], plane0), rp)
        # the k-th model angle alone
        ang = [0.0] * noa(d)
        ang[k - 1] = q * HALF_PI
        got = g.matrix_rotate(d, ang)
        exp = np.array(o["rot"], dtype=float).reshape(d, d)
        col.check(close(got, exp, TOL), "geometric:matrix_rotate:d%d:single-angle" % d,
                  "matrix_rotate(%d) with only angle %d = %d quarter turns: %s, spec (documented convention) %s"
                  % (d, k, q, np.round(got, 6).tolist(), exp.tolist()), dict(rp, k=k))
        col.nontrivial.add(("giv", d, k, q))
    col.check(g.no_of_angles(1) == 0 and list(g.rotation_planes(1)) == [], "geometric:no_of_angles:d1",
              "dimension 1 has no rotation planes", {"kind": "givens", "d": 1})
    # set_angles / set_anis: documented filling rules
    col.check(list(g.set_angles(3, [0.5])) == [0.5, 0.0, 0.0] and list(g.set_angles(2, [0.5, 1.0])) == [0.5],
              "geometric:set_angles:fill", "set_angles does not fill with 0 on the right / cut on the right", {"kind": "set_angles"})
    col.check(list(g.set_anis(3, [0.5])) == [1.0, 0.5] and list(g.set_anis(2, [0.5, 2.0])) == [0.5] and list(g.set_anis(1, [2.0])) == [],
              "geometric:set_anis:fill", "set_anis does not fill with 1 (on the left, as documented in set_len_anis) / cut on the right",
              {"kind": "set_anis"})


# ---------------------------------------------------------------------------


def run(pid, tier, seed, replay=None):
    rep = Report(pid, tier, seed)
    if replay:
        return _replay(replay)
    if pid == "C12":
        return run_c12(rep, tier, seed)
    return run_c13(rep, tier, seed)


def _replay(path):
    rp = json.load(open(path))
    print(json.dumps({k: rp[k] for k in ("property", "key", "what")}, indent=1))
    print(json.dumps(rp["replay"], indent=1)[:4000])
    return 0
