"""C12 / C13: Geometry.tla + GeometrySphere.tla bound to gstools.

C12  anisotropy and rotation act as a linear change of coordinates
     TLC enumerates every quarter-turn angle vector (dims 1-4) x dyadic ratio vector, checks
     the algebraic clauses (inverse, proper orthogonal, documented conventions, embedding,
     length scale along the main axes) and computes the matrices / transformed positions;
     tools/geometric.py and the CovModel methods must reproduce them (1e-12); SRF, vector
     fields, Krige and CondSRF with the anisotropic rotated model at x must equal the isotropic
     model at the spec's Iso.x (and, for seeded general angles, at the implementation's own
     isometrize(x)).
C13  geographic and spatio-temporal coordinates
     TLC: time axis of spatio-temporal models (Geometry, mode "tmp"), octahedral lat-lon
     lattice, exact great-circle families, the 24 octahedral rotations, space-time lattice sets
     (GeometrySphere); bound to latlon2pos/pos2latlon, CovModel.isometrize/anisometrize,
     vario_estimate(latlon=True), cov_yadrenko, Krige / SRF / CondSRF on lat-lon(-time) points.

Verdict rule: a VIOLATION is raised only when an implementation output differs from a value
computed by TLC, or when a relation that the property itself states between implementation
outputs fails.  numpy is used to run the code and to compare, never to produce expected values.
"""
PROPERTIES = ("C12", "C13")

import itertools
import json
import math
import multiprocessing as mp
import os
import random
import re
import time
import warnings

import numpy as np

from .. import tlc, tlaval
from ..report import Report

TOL = 1e-12
KTOL = 1e-9
HALF_PI = math.pi / 2

# integer test positions per dimension (general position: all coordinates of a point differ in
# modulus from each other where possible, so signed permutations / scalings are told apart)
XPTS = {1: [[3], [-2], [5]],
        2: [[1, 2], [-3, 1], [2, -2]],
        3: [[1, 2, -3], [2, -1, 1], [-2, 3, 1]],
        4: [[1, 2, -3, 2], [3, -1, 1, -2], [-1, -2, 2, 3]]}
LENEXP = (-1, 0, 1)
ES4_QUICK = [[-1, 0, 1], [1, -1, -1], [0, 1, -1]]

MODELS = [("Gaussian", {}, 4), ("Exponential", {}, 4), ("Stable", {"alpha": 1.5}, 4), ("Matern", {"nu": 1.5}, 4),
          ("Rational", {"alpha": 2.0}, 4), ("Spherical", {}, 3), ("Cubic", {}, 3)]


def _tl(v):
    return tlaval.to_tla(v)


def noa(d):
    return d * (d - 1) // 2


def angles_of(qs):
    return [q * HALF_PI for q in qs]


def anis_of(es):
    return [2.0 ** e for e in es]


def close(a, b, tol):
    a, b = np.asarray(a, dtype=float), np.asarray(b, dtype=float)
    if a.shape != b.shape:
        return False
    if a.size == 0:
        return True
    return bool(np.all(np.abs(a - b) <= tol * np.maximum(1.0, np.abs(b))))


def maxdiff(a, b):
    a, b = np.asarray(a, dtype=float), np.asarray(b, dtype=float)
    if a.shape != b.shape:
        return "shape %s vs %s" % (a.shape, b.shape)
    return float(np.max(np.abs(a - b))) if a.size else 0.0


# ---------------------------------------------------------------------------
# TLC jobs


def _expvecs(d, vals=(-1, 0, 1)):
    return [list(v) for v in itertools.product(vals, repeat=d - 1)]


FULLQ = [range(4)] * 6


def lin_module(name, mode, dims, qsets, exps):
    """MC wrapper of Geometry.tla.  qsets: 6 iterables; exps: dict d -> list of exponent vectors."""
    defs = {
        "McMode": '"%s"' % mode,
        "McDims": _tl(set(dims)),
        "McQ": "<<" + ", ".join(_tl(set(q)) for q in qsets) + ">>",
        "McExp": "(" + " @@ ".join("%d :> %s" % (d, "{" + ", ".join(_tl(e) for e in exps.get(d, [[0] * (d - 1)])) + "}")
                                   for d in range(1, 5)) + ")",
        "McX": "(" + " @@ ".join("%d :> %s" % (d, _tl(XPTS[d])) for d in range(1, 5)) + ")",
        "McLen": _tl(set(LENEXP)),
    }
    mod = "---- MODULE %s ----\nEXTENDS Geometry\n" % name + "".join("%s == %s\n" % kv for kv in defs.items()) + "====\n"
    cfg = ("CONSTANTS\n Mode <- McMode\n Dims <- McDims\n QSets <- McQ\n ExpSet <- McExp\n XPts <- McX\n"
           " LenExp <- McLen\nINIT Init\nNEXT Next\n")
    return mod, cfg


LIN_INVS = ["TypeOK", "InverseOK", "ProperOrthogonal", "EmbeddingOK", "MainAxisScaleOK", "TimeAxisOK", "DriftCoordsOK"]


def _cfg_inv(cfg, invs):
    return cfg + "".join("INVARIANT %s\n" % i for i in invs)


def sphere_module(name, mode, lats=(0,), lons=(0,), times=(0,), radexp=(0,), timeexp=(0,),
                  pointsets=(), values=(), stsets=(), autobins=()):
    """MC wrapper of GeometrySphere.tla."""
    defs = {
        "McMode": '"%s"' % mode, "McLats": _tl(set(lats)), "McLons": _tl(set(lons)), "McTimes": _tl(set(times)),
        "McRadExp": _tl(set(radexp)), "McTimeExp": _tl(set(timeexp)),
        "McPointSets": _tl([[list(p) for p in ps] for ps in pointsets]),
        "McValues": _tl([list(v) for v in values]),
        "McSTSets": _tl([dict(r=s["r"], te=s["te"], pts=[list(p) for p in s["pts"]]) for s in stsets]),
        "McAutoBins": _tl([list(a) for a in autobins]),
    }
    mod = "---- MODULE %s ----\nEXTENDS GeometrySphere\n" % name + "".join("%s == %s\n" % kv for kv in defs.items()) + "====\n"
    cfg = ("CONSTANTS\n Mode <- McMode\n Lats <- McLats\n Lons <- McLons\n Times <- McTimes\n RadExp <- McRadExp\n"
           " TimeExp <- McTimeExp\n PointSets <- McPointSets\n Values <- McValues\n STSets <- McSTSets\n AutoBins <- McAutoBins\n"
           "INIT Init\nNEXT Next\nINVARIANT AllChecks\n")
    return mod, cfg


_INT = re.compile(r"-?\d+")
_FLD = re.compile(r"(\w+) \|->\s*(<<[^<>]*>>|TRUE|FALSE|-?\d+)")


def read_lin_dump(path):
    """Fast parser for the state dump of Geometry.tla ("lin"/"tmp": records of flat integer
    sequences).  A sample of states is cross-checked against the generic tlaval parser."""
    with open(path) as fh:
        text = fh.read()
    blocks = [b for b in re.split(r"(?m)^State \d+:\n", text) if b.strip()]
    out = []
    for b in blocks:
        st, chk = {}, {}
        for m in _FLD.finditer(b):
            k, v = m.group(1), m.group(2)
            if v in ("TRUE", "FALSE"):
                chk[k] = v == "TRUE"
            elif v.startswith("<<"):
                st[k] = [int(x) for x in _INT.findall(v)]
            else:
                st[k] = int(v)
        st["chk"] = chk
        out.append(st)
    rng = random.Random(len(blocks))
    for i in rng.sample(range(len(blocks)), min(4, len(blocks))):
        g = tlaval.parse_state(blocks[i])
        ref = dict(g["cfg"])
        ref.update(g["out"])
        for k in ("d", "qs", "es", "rot", "derot", "axes", "isoX", "anisoX", "rad2"):
            exp = list(ref[k]) if isinstance(ref[k], (list, tuple)) else ref[k]
            if exp != out[i].get(k):
                raise tlc.MachineryError("fast dump parser disagrees with tlaval on %s: %r vs %r" % (k, exp, out[i].get(k)))
        if {k: bool(v) for k, v in ref["chk"].items()} != out[i]["chk"]:
            raise tlc.MachineryError("fast dump parser disagrees with tlaval on chk")
    return out


def read_dump(path):
    """Generic (slow) parser: list of dicts cfg/out."""
    return tlc.read_state_dump(path)


# ---------------------------------------------------------------------------
# C12 / tmp: one TLC configuration against the real code


def _gs():
    import gstools as gs
    return gs


def _mk_model(name, kw, **args):
    gs = _gs()
    with warnings.catch_warnings():
        warnings.simplefilter("ignore")
        return getattr(gs, name)(**kw, **args)


def _state_arrays(st):
    d = st["d"]
    n = len(XPTS[d])
    P = np.array([[1.0 if i == j else 0.0 for j in range(d)] for i in range(d)])
    P = np.concatenate([P, np.array(XPTS[d], dtype=float).T], axis=1)  # d x (d+n): [I | X]
    return dict(
        d=d, n=n, P=P,
        rot=np.array(st["rot"], dtype=float).reshape(d, d),
        derot=np.array(st["derot"], dtype=float).reshape(d, d),
        axes=np.array(st["axes"], dtype=float).reshape(d, d),
        isoX=np.array(st["isoX"], dtype=float).reshape(d, d + n) / 4.0,
        anisoX=np.array(st["anisoX"], dtype=float).reshape(d, d + n) / 4.0,
        rad2=np.array(st["rad2"], dtype=float) / 16.0,
    )


class _Collect:
    def __init__(self):
        self.violations = []
        self.evals = 0
        self.nontrivial = set()
        self.samples = []
        self.notes = []

    def violation(self, key, what, replay):
        if not any(k == key for k, _w, _r in self.violations):
            self.violations.append((key, what, replay))

    def check(self, ok, key, what, replay):
        self.evals += 1
        if not ok:
            self.violation(key, what, replay)
        return ok


def _cfgstr(st):
    return "d=%d qs=%s es=%s" % (st["d"], st["qs"], st["es"])


def check_functions(col, st, temporal=False):
    """tools/geometric.py against the spec's matrices for one configuration (C12 function level)."""
    from gstools.tools import geometric as g

    a = _state_arrays(st)
    d = a["d"]
    ang, anis = angles_of(st["qs"]), anis_of(st["es"])
    if temporal:
        return
    rp = {"kind": "functions", "d": d, "qs": st["qs"], "es": st["es"]}
    cls = "d%d" % d
    for fname, got, exp in (
        ("matrix_rotate", g.matrix_rotate(d, ang), a["rot"]),
        ("matrix_derotate", g.matrix_derotate(d, ang), a["derot"]),
        ("rotated_main_axes", g.rotated_main_axes(d, ang), a["axes"]),
        ("matrix_isometrize", g.matrix_isometrize(d, ang, anis), a["isoX"][:, :d]),
        ("matrix_anisometrize", g.matrix_anisometrize(d, ang, anis), a["anisoX"][:, :d]),
    ):
        col.check(close(got, exp, TOL), "geometric:%s:%s:matrix" % (fname, cls),
                  "%s(%s) differs from the spec matrix by %s: got %s expected %s"
                  % (fname, _cfgstr(st), maxdiff(got, exp), np.round(got, 6).tolist(), exp.tolist()),
                  dict(rp, function=fname, expected=exp, got=got))
    if not any(st["qs"]):
        col.check(close(g.matrix_isotropify(d, anis), a["isoX"][:, :d], TOL), "geometric:matrix_isotropify:%s:matrix" % cls,
                  "matrix_isotropify(%s) differs from the spec" % _cfgstr(st), dict(rp, function="matrix_isotropify"))
        col.check(close(g.matrix_anisotropify(d, anis), a["anisoX"][:, :d], TOL), "geometric:matrix_anisotropify:%s:matrix" % cls,
                  "matrix_anisotropify(%s) differs from the spec" % _cfgstr(st), dict(rp, function="matrix_anisotropify"))
    if not any(st["es"]) and d > 1:
        # angle vector given shorter than needed (documented: filled up with 0): trailing zeros dropped
        qs = list(st["qs"])
        while qs and qs[-1] == 0:
            qs.pop()
        if len(qs) < len(st["qs"]):
            short = angles_of(qs) if len(qs) != 1 else angles_of(qs)[0]
            got = g.matrix_rotate(d, short if qs else 0.0)
            col.check(close(got, a["rot"], TOL), "geometric:matrix_rotate:%s:short-angle-vector" % cls,
                      "matrix_rotate(%d, %s) with a short angle vector differs from the spec" % (d, qs),
                      dict(rp, function="matrix_rotate", short=qs))


def check_model(col, st, lexp, temporal=False):
    """CovModel.isometrize / anisometrize / main_axes / len_scale_vec / cov_spatial (1e-12)."""
    a = _state_arrays(st)
    d = a["d"]
    ang, anis = angles_of(st["qs"]), anis_of(st["es"])
    L = 2.0 ** lexp
    mode = "temporal" if temporal else "spatial"
    cls = "%s:d%d" % (mode, d)
    rp = {"kind": "model", "d": d, "qs": st["qs"], "es": st["es"], "len_exp": lexp, "temporal": temporal}
    if temporal:
        m = _mk_model("Gaussian", {}, temporal=True, spatial_dim=d - 1, len_scale=L, anis=anis or 1.0, angles=ang or 0.0, var=2.0)
    else:
        m = _mk_model("Gaussian", {}, dim=d, len_scale=L, anis=anis or 1.0, angles=ang or 0.0, var=2.0)
    if not col.check(m.dim == d, "model:dim:%s" % cls, "model dim %s instead of %d" % (m.dim, d), rp):
        return
    P = a["P"]
    got = m.isometrize(P)
    col.check(close(got, a["isoX"], TOL), "model:isometrize:%s" % cls,
              "CovModel.isometrize for %s differs from the spec's Iso.[I|X] by %s" % (_cfgstr(st), maxdiff(got, a["isoX"])),
              dict(rp, expected=a["isoX"], got=got))
    got = m.anisometrize(P)
    col.check(close(got, a["anisoX"], TOL), "model:anisometrize:%s" % cls,
              "CovModel.anisometrize for %s differs from the spec's Aniso.[I|X] by %s" % (_cfgstr(st), maxdiff(got, a["anisoX"])),
              dict(rp, expected=a["anisoX"], got=got))
    got = np.asarray(m.main_axes())
    col.check(close(got, a["axes"], TOL), "model:main_axes:%s" % cls,
              "CovModel.main_axes for %s differs from the spec (rows = main axes): got %s expected %s"
              % (_cfgstr(st), np.round(got, 6).tolist(), a["axes"].tolist()), dict(rp, expected=a["axes"], got=got))
    lsv = [L] + [L * r for r in anis]
    col.check(close(m.len_scale_vec, lsv, TOL), "model:len_scale_vec:%s" % cls,
              "len_scale_vec %s instead of len_scale x (1, anis) = %s" % (np.asarray(m.len_scale_vec).tolist(), lsv), rp)
    # along main axis i at distance len_scale * anis[i-1] the model is where the isotropic model is at len_scale
    ref = float(m.covariance(L))
    for i in range(d):
        v = (lsv[i] * a["axes"][i]).reshape(d, 1)
        got = float(m.cov_spatial(v)[0])
        col.check(abs(got - ref) <= TOL * m.var, "model:cov_spatial:%s:main-axis-scale" % cls,
                  "cov_spatial(len_scale_vec[%d] * main axis %d) = %r but covariance(len_scale) = %r for %s"
                  % (i, i + 1, got, ref, _cfgstr(st)), dict(rp, axis=i))
    # a vector of length L along main axis i has isotropic radius L / anis[i-1] (spec: MainAxisScaleOK):
    # the model's *_axis functions and the spatial functions along that axis
    for i in range(d):
        r_i = 2.0 ** (lexp - (st["es"][i - 1] if i else 0))      # float image of Pow2(l) / Ratio(es, i)
        v = (L * a["axes"][i]).reshape(d, 1)
        for fax, fsp, iso in (("cov_axis", "cov_spatial", m.covariance), ("vario_axis", "vario_spatial", m.variogram),
                              ("cor_axis", "cor_spatial", m.correlation)):
            exp = float(iso(r_i))
            g1, g2 = float(getattr(m, fax)(L, axis=i)), float(getattr(m, fsp)(v)[0])
            col.check(abs(g1 - exp) <= TOL * m.var and abs(g2 - exp) <= TOL * m.var, "model:%s:%s:axis-radius" % (fax, cls),
                      "%s(L, axis=%d) = %r, %s(L * main axis %d) = %r, isotropic function at L / anis = %r for %s"
                      % (fax, i, g1, fsp, i + 1, g2, exp, _cfgstr(st)), dict(rp, axis=i, function=fax))
    # spatial covariance / variogram / correlation at the test positions = isotropic function of the spec radius
    rad = np.sqrt(a["rad2"])
    X = P[:, d:]
    for fname, iso in (("cov_spatial", m.covariance), ("vario_spatial", m.variogram), ("cor_spatial", m.correlation)):
        got, exp = getattr(m, fname)(X), iso(rad)
        col.check(close(got, exp, TOL * max(1.0, m.var)), "model:%s:%s:radius" % (fname, cls),
                  "%s at the test positions differs from the isotropic function at the spec radius for %s: %s vs %s"
                  % (fname, _cfgstr(st), np.asarray(got).tolist(), np.asarray(exp).tolist()), dict(rp, function=fname, radius2=a["rad2"]))


COND_VALS = [1.0, -2.0, 3.0, 0.5, 4.0, -1.5, 2.5]


def _drift_first(*x):
    return x[0]


def _drift_second_sq(*x):
    return x[1] * x[1]


_REF = {}


def _ref_srf(refkey, m_iso, seed, generator):
    """Reference (isotropic) SRF objects are reused inside a worker process: building the
    generator (spectral sampling) dominates the cost."""
    gs = _gs()
    if refkey is None:
        return gs.SRF(m_iso, seed=seed, mode_no=8, generator=generator)
    key = (refkey, seed, generator)
    if key not in _REF:
        if len(_REF) > 400:
            _REF.clear()
        _REF[key] = gs.SRF(m_iso, seed=seed, mode_no=8, generator=generator)
    return _REF[key]


def _pipeline_compare(col, keybase, rp, what, m_an, m_iso, pos, ipos, seed, d, idx=0, refkey=None, structured=None):
    """Every pipeline with model m_an at pos against the same pipeline with m_iso at ipos."""
    gs = _gs()
    sd = math.sqrt(m_an.var)
    full = refkey is None
    # --- SRF (RandMeth)
    f1 = gs.SRF(m_an, seed=seed, mode_no=8)(pos)
    f2 = _ref_srf(refkey, m_iso, seed, "RandMeth")(ipos)
    col.check(close(f1, f2, TOL * max(1.0, sd)), keybase + ":SRF", "%s: SRF differs from the isotropic model at the transformed "
              "positions by %s" % (what, maxdiff(f1, f2)), dict(rp, pipeline="SRF", got=f1, expected=f2))
    if structured is not None:
        axes, gpos_iso = structured
        f1 = gs.SRF(m_an, seed=seed, mode_no=8).structured(axes)
        f2 = _ref_srf(refkey, m_iso, seed, "RandMeth")(gpos_iso)
        col.check(close(np.ravel(f1), f2, TOL * max(1.0, sd)), keybase + ":SRF-structured",
                  "%s: structured SRF differs from the isotropic model at the transformed grid by %s"
                  % (what, maxdiff(np.ravel(f1), f2)), dict(rp, pipeline="SRF-structured"))
    if d in (2, 3) and (full or idx % 2 == 0):
        f1 = gs.SRF(m_an, seed=seed, mode_no=8, generator="VectorField")(pos)
        f2 = _ref_srf(refkey, m_iso, seed, "VectorField")(ipos)
        col.check(close(f1, f2, 1e-11 * max(1.0, sd)), keybase + ":VectorField", "%s: vector field differs from the isotropic model "
                  "at the transformed positions by %s" % (what, maxdiff(f1, f2)), dict(rp, pipeline="VectorField"))
    # --- kriging with drift: user drift functions are functions of the ORIGINAL coordinates (spec: DriftCoordsOK);
    # the isotropic counterpart gets the same drift values as an external drift
    nd = d + 2
    drifts = [_drift_first] + ([_drift_second_sq] if d > 1 else [])
    dcp, dicp, dcv = pos[:, :nd], ipos[:, :nd], COND_VALS[:nd]
    ext_c = np.array([f(*dcp) for f in drifts])
    ext_t = np.array([f(*pos) for f in drifts])
    u1, uv1 = gs.krige.Universal(m_an, dcp, dcv, drifts)(pos)
    e1, ev1 = gs.krige.ExtDrift(m_an, dcp, dcv, ext_c)(pos, ext_drift=ext_t)
    e2, ev2 = gs.krige.ExtDrift(m_iso, dicp, dcv, ext_c)(ipos, ext_drift=ext_t)
    col.check(close(u1, e2, KTOL) and close(uv1, ev2, KTOL), keybase + ":KrigeUniversal",
              "%s: universal kriging with drift functions of the original coordinates differs from the isotropic model at the "
              "transformed positions with the same drift values (field %s, variance %s)" % (what, maxdiff(u1, e2), maxdiff(uv1, ev2)),
              dict(rp, pipeline="Krige.Universal", got=u1, expected=e2))
    col.check(close(e1, e2, KTOL) and close(ev1, ev2, KTOL), keybase + ":KrigeExtDrift",
              "%s: external drift kriging differs from the isotropic model at the transformed positions (field %s, variance %s)"
              % (what, maxdiff(e1, e2), maxdiff(ev1, ev2)), dict(rp, pipeline="Krige.ExtDrift", got=e1, expected=e2))
    # --- kriging: the first d+1 points carry data, all points are targets
    nc = d + 1
    cp, icp, cv = pos[:, :nc], ipos[:, :nc], COND_VALS[:nc]
    for kname, K, kw in (("Simple", gs.krige.Simple, {"mean": 0.5}), ("Ordinary", gs.krige.Ordinary, {})):
        k1 = K(m_an, cond_pos=cp, cond_val=cv, **kw)
        k2 = K(m_iso, cond_pos=icp, cond_val=cv, **kw)
        a1, v1 = k1(pos)
        a2, v2 = k2(ipos)
        col.check(close(a1, a2, KTOL) and close(v1, v2, KTOL), keybase + ":Krige" + kname,
                  "%s: %s kriging differs from the isotropic model at the transformed positions (field %s, variance %s)"
                  % (what, kname, maxdiff(a1, a2), maxdiff(v1, v2)), dict(rp, pipeline="Krige." + kname, got=a1, expected=a2))
        if kname == "Ordinary" and (full or idx % 2 == 1):
            # conditioned simulation at the points that carry no data (at a data point the kriging
            # variance is 0 up to rounding and CondSRF takes its square root: not comparable at 1e-9)
            c1 = gs.CondSRF(k1, seed=seed, mode_no=8)(pos[:, nc:])
            c2 = gs.CondSRF(k2, seed=seed, mode_no=8)(ipos[:, nc:])
            col.check(close(c1, c2, KTOL), keybase + ":CondSRF", "%s: conditioned field differs from the isotropic model at the "
                      "transformed positions by %s" % (what, maxdiff(c1, c2)), dict(rp, pipeline="CondSRF", got=c1, expected=c2))


def check_pipeline(col, st, idx, temporal=False):
    """SRF / VectorField / Krige / CondSRF with the anisotropic rotated model at [I|X] against the
    isotropic model at the spec's Iso.[I|X]."""
    a = _state_arrays(st)
    d = a["d"]
    ok = [m for m in MODELS if m[2] >= d]
    name, kw, _ = ok[idx % len(ok)]
    lexp = LENEXP[(idx // len(ok)) % 3]
    L = 2.0 * 2.0 ** lexp
    ang, anis = angles_of(st["qs"]), anis_of(st["es"])
    common = dict(len_scale=L, var=2.0)
    if temporal:
        m_an = _mk_model(name, kw, temporal=True, spatial_dim=d - 1, anis=anis or 1.0, angles=ang or 0.0, **common)
        m_iso = _mk_model(name, kw, temporal=True, spatial_dim=d - 1, **common)
        m_zero = _mk_model(name, kw, temporal=True, spatial_dim=d - 1, anis=anis or 1.0,
                           angles=[x if k < noa(d - 1) else 0.0 for k, x in enumerate(ang)] or 0.0, **common)
    else:
        m_an = _mk_model(name, kw, dim=d, anis=anis or 1.0, angles=ang or 0.0, **common)
        m_iso = _mk_model(name, kw, dim=d, **common)
    rp = {"kind": "pipeline", "d": d, "qs": st["qs"], "es": st["es"], "model": name, "len_scale": L, "temporal": temporal}
    keybase = "pipeline:%s:d%d" % ("temporal" if temporal else "spatial", d)
    seed = 1000 + idx % 2
    _pipeline_compare(col, keybase, rp, "%s %s" % (name, _cfgstr(st)), m_an, m_iso, a["P"], a["isoX"], seed, d, idx=idx,
                      refkey=(name, d, lexp, temporal))
    if temporal:
        # requested space-time angles are ignored: same results as with those angles zero
        gs = _gs()
        f1 = gs.SRF(m_an, seed=seed, mode_no=8)(a["P"])
        f2 = gs.SRF(m_zero, seed=seed, mode_no=8)(a["P"])
        col.check(close(f1, f2, TOL * 2), keybase + ":SRF:space-time-angles", "%s %s: the field depends on the requested space-time "
                  "angles (differs by %s from the model with those angles zero)" % (name, _cfgstr(st), maxdiff(f1, f2)),
                  dict(rp, pipeline="SRF zeroed angles"))
        nc = d + 1
        k1 = gs.krige.Ordinary(m_an, cond_pos=a["P"][:, :nc], cond_val=COND_VALS[:nc])(a["P"])
        k2 = gs.krige.Ordinary(m_zero, cond_pos=a["P"][:, :nc], cond_val=COND_VALS[:nc])(a["P"])
        col.check(close(k1[0], k2[0], KTOL) and close(k1[1], k2[1], KTOL), keybase + ":Krige:space-time-angles",
                  "%s %s: kriging depends on the requested space-time angles" % (name, _cfgstr(st)), dict(rp, pipeline="Krige zeroed"))


def check_general(col, idx, seed, temporal=False):
    """Seeded general angle / ratio vectors: both sides computed by the implementation."""
    from gstools.tools import geometric as g

    gs = _gs()
    rng = np.random.default_rng([seed, idx, int(temporal)])
    d = int(rng.integers(2 if temporal else 1, 5))
    ok = [m for m in MODELS if m[2] >= d]
    name, kw, _ = ok[idx % len(ok)]
    ang = list(rng.uniform(-2 * math.pi, 2 * math.pi, noa(d)))
    anis = list(np.exp(rng.uniform(math.log(0.2), math.log(5.0), d - 1)))
    if idx % 5 == 0:
        anis = [1.0] * (d - 1)      # rotation only
    L = float(np.exp(rng.uniform(math.log(0.5), math.log(4.0))))
    common = dict(len_scale=L, var=float(rng.uniform(0.5, 3.0)))
    if temporal:
        m_an = _mk_model(name, kw, temporal=True, spatial_dim=d - 1, anis=anis or 1.0, angles=ang or 0.0, **common)
        m_iso = _mk_model(name, kw, temporal=True, spatial_dim=d - 1, **common)
    else:
        m_an = _mk_model(name, kw, dim=d, anis=anis or 1.0, angles=ang or 0.0, **common)
        m_iso = _mk_model(name, kw, dim=d, **common)
    n = d + 4
    pos = np.round(rng.uniform(-3, 3, (d, n)), 3)
    ipos = m_an.isometrize(pos)
    rp = {"kind": "general", "idx": idx, "seed": seed, "d": d, "angles": ang, "anis": anis, "model": name,
          "len_scale": L, "temporal": temporal, "pos": pos}
    keybase = "pipeline-general:%s:d%d" % ("temporal" if temporal else "spatial", d)
    what = "%s d=%d angles=%s anis=%s" % (name, d, np.round(ang, 4).tolist(), np.round(anis, 4).tolist())
    # mutually inverse (a relation between implementation outputs stated by the property)
    back = m_an.anisometrize(ipos)
    col.check(close(back, pos, 1e-10), keybase + ":inverse", "%s: anisometrize(isometrize(x)) differs from x by %s"
              % (what, maxdiff(back, pos)), dict(rp, clause="inverse"))
    fwd = m_an.isometrize(m_an.anisometrize(pos))
    col.check(close(fwd, pos, 1e-10), keybase + ":inverse", "%s: isometrize(anisometrize(x)) differs from x by %s"
              % (what, maxdiff(fwd, pos)), dict(rp, clause="inverse2"))
    if not temporal:
        col.check(close(g.matrix_derotate(d, ang), g.matrix_rotate(d, ang).T, 1e-12), keybase + ":derotate-transpose",
                  "%s: matrix_derotate is not the transpose of matrix_rotate" % what, dict(rp, clause="transpose"))
    # the model's own spatial covariance is the isotropic covariance at the radius of the isometrized position,
    # and it is the covariance kriging uses (one data point: weight = C(x - x0) / C(0))
    rad = np.array([math.sqrt(math.fsum(float(ipos[k][i]) ** 2 for k in range(d))) for i in range(n)])
    for fname, iso in (("cov_spatial", m_an.covariance), ("vario_spatial", m_an.variogram), ("cor_spatial", m_an.correlation)):
        got, exp = getattr(m_an, fname)(pos), iso(rad)
        col.check(close(got, exp, TOL * max(1.0, m_an.var)), keybase + ":" + fname,
                  "%s: %s(x) differs from the isotropic function at |isometrize(x)| by %s" % (what, fname, maxdiff(got, exp)),
                  dict(rp, clause=fname))
    v0 = 1.5
    kf, kv = gs.krige.Simple(m_an, cond_pos=pos[:, :1], cond_val=[v0], mean=0.0)(pos)
    cs = m_an.cov_spatial(pos - pos[:, :1])
    c0 = float(m_an.cov_spatial(np.zeros((d, 1)))[0])
    col.check(close(kf, v0 * cs / c0, KTOL) and close(kv, np.maximum(c0 - cs * cs / c0, 0.0), KTOL), keybase + ":krige-uses-cov_spatial",
              "%s: simple kriging from one data point differs from the weight cov_spatial(x - x0) / cov_spatial(0) by %s"
              % (what, maxdiff(kf, v0 * cs / c0)), dict(rp, clause="krige-cov_spatial"))
    structured = None
    if d <= 3:
        axes = [np.round(rng.uniform(-2, 2, 2 + k), 2) for k in range(d)]
        grid = np.array(np.meshgrid(*axes, indexing="ij")).reshape(d, -1)  # enumeration of the grid points
        structured = (axes if d > 1 else axes[0], m_an.isometrize(grid))
    _pipeline_compare(col, keybase, rp, what, m_an, m_iso, pos, ipos, 77 + idx, d, idx=idx, structured=structured)


# ---------------------------------------------------------------------------
# histories of in-place parameter changes (GeometryHist.tla)


def gen_scripts(rng, n, temporal, nops):
    """Seeded scripts of public assignments; TLC computes their effect."""
    scripts = []
    for k in range(n):
        d = rng.choice([2, 3, 3, 4] if k % 4 else [2, 3])
        init = dict(d=d, qs=[rng.randrange(4) for _ in range(noa(d))], es=[rng.choice([-1, 0, 1]) for _ in range(d - 1)],
                    l=rng.choice(LENEXP))
        ops = []
        kinds = ["SetLenList", "SetAngles", "SetAnis", "SetDim", "SetLenScalar", "SetLenList", "SetAngles",
                 "CallStored", "Refresh", "ReadPos", "Call"]
        for j in range(nops):
            kind = kinds[(k + j) % len(kinds)] if j < 2 else rng.choice(kinds)
            if kind == "SetLenList":
                ln = rng.choice([d, d, 2]) if d > 2 else 2
                s = [rng.choice(LENEXP) for _ in range(ln)]
                if len(set(s)) == 1:
                    s[-1] = s[0] + (1 if s[0] < 1 else -1)
                ops.append(dict(name=kind, s=s, v=0))
            elif kind == "SetAngles":
                s = [rng.randrange(4) for _ in range(noa(d))]
                if temporal and d > 1 and not any(s[noa(d - 1):]):
                    s[-1] = rng.choice([1, 2, 3])        # a space-time angle is requested
                ops.append(dict(name=kind, s=s, v=0))
            elif kind == "SetAnis":
                ops.append(dict(name=kind, s=[rng.choice([-1, 0, 1]) for _ in range(d - 1)], v=0))
            elif kind == "SetDim":
                d = rng.choice([x for x in (2, 3, 4) if x != d])
                ops.append(dict(name=kind, s=[], v=d))
            elif kind == "SetLenScalar":
                ops.append(dict(name=kind, s=[], v=rng.choice(LENEXP)))
            else:
                ops.append(dict(name=kind, s=[], v=0))       # a use: nothing is assigned
        scripts.append(dict(init=init, ops=ops))
    return scripts


def hist_module(name, mode, scripts):
    mod, cfg = lin_module(name, mode, [1, 2, 3, 4], FULLQ, {})
    mod = mod.replace("EXTENDS Geometry", "EXTENDS GeometryHist").replace("====\n", "")
    mod += "McScripts == %s\n====\n" % _tl(scripts)
    cfg = cfg.replace("INIT Init\nNEXT Next\n", " Scripts <- McScripts\nINIT HInit\nNEXT HNext\n")
    return mod, _cfg_inv(cfg, LIN_INVS + ["TimeNeverRotated", "ShapeOK"]) + "PROPERTY UseKeepsState\n"


HIST_MODELS = MODELS[:5]
USE_OPS = ("Call", "CallStored", "Refresh", "ReadPos")


def _apply_op(m, op, toggle):
    n = op["name"]
    if n == "SetAnis":
        v = anis_of(op["s"])
        m.anis = v[0] if len(v) == 1 and toggle else v
    elif n == "SetAngles":
        v = angles_of(op["s"])
        m.angles = v[0] if len(v) == 1 and toggle else v
    elif n == "SetLenList":
        v = [2.0 * 2.0 ** e for e in op["s"]]
        m.len_scale = np.array(v) if toggle else v
    elif n == "SetLenScalar":
        m.len_scale = 2.0 * 2.0 ** op["v"]
    elif n == "SetDim":
        m.dim = op["v"]
    elif n in USE_OPS:
        pass
    else:
        raise AssertionError("unknown operation %r" % (op,))


def replay_script(col, mode, k, script, states):
    """One model object lives through the script; after every assignment the model, a long-lived SRF and a
    long-lived (refreshed) Krige object must work in the coordinates of the CURRENT parameters."""
    gs = _gs()
    temporal = mode == "tmp"
    name, kw = HIST_MODELS[k % len(HIST_MODELS)][:2]
    states = sorted(states, key=lambda s: s["step"])
    c0 = states[0]["cfg"]
    req0 = script["init"]["qs"]
    args = dict(len_scale=2.0 * 2.0 ** c0["l"], var=2.0, anis=anis_of(c0["es"]) or 1.0, angles=angles_of(req0) or 0.0)
    if temporal:
        m = _mk_model(name, kw, temporal=True, spatial_dim=c0["d"] - 1, **args)
    else:
        m = _mk_model(name, kw, dim=c0["d"], **args)
    seed = 500 + k % 2
    srf = gs.SRF(m, seed=seed, mode_no=8)
    kr, kr_d = None, None
    hist = []
    for s in states:
        op = s["op"]
        if op["name"] != "Init":
            hist.append(op)
            with warnings.catch_warnings():
                warnings.simplefilter("ignore")
                _apply_op(m, op, (k + s["step"]) % 2)
        st = dict(s["cfg"])
        st.update(s["out"])
        a = _state_arrays(st)
        d, P = a["d"], a["P"]
        L = 2.0 * 2.0 ** st["l"]
        cls = "%s:%s" % ("temporal" if temporal else "spatial", op["name"])
        rp = {"kind": "history", "mode": mode, "model": name, "init": script["init"], "ops": list(hist), "spec_state": s["cfg"]}
        what = "%s after %s (now d=%d angles=%s quarter turns, ratio exponents %s)" % (
            name, [(o["name"], o["s"] or o["v"]) for o in hist] or "construction", d, st["qs"], st["es"])
        # --- public parameters
        ok = m.dim == d and close(m.anis, anis_of(st["es"]), 1e-15) and close(m.angles, angles_of(st["qs"]), 1e-15) \
            and abs(m.len_scale - L) <= 1e-15
        if not col.check(ok, "history:%s:parameters" % cls, "%s: model reports dim %s anis %s angles %s len_scale %s"
                         % (what, m.dim, np.asarray(m.anis).tolist(), np.asarray(m.angles).tolist(), m.len_scale), rp):
            return
        # --- the model's own change of coordinates
        got = m.isometrize(P)
        col.check(close(got, a["isoX"], TOL), "history:%s:isometrize" % cls,
                  "%s: isometrize differs from the spec's Iso of the current parameters by %s" % (what, maxdiff(got, a["isoX"])),
                  dict(rp, got=got, expected=a["isoX"]))
        got = m.anisometrize(P)
        col.check(close(got, a["anisoX"], TOL), "history:%s:anisometrize" % cls,
                  "%s: anisometrize differs from the spec's Aniso of the current parameters by %s" % (what, maxdiff(got, a["anisoX"])),
                  dict(rp, got=got, expected=a["anisoX"]))
        col.check(close(m.main_axes(), a["axes"], TOL), "history:%s:main_axes" % cls, "%s: main_axes differ from the spec" % what, rp)
        X = P[:, d:]
        got, exp = m.cov_spatial(X), m.covariance(np.sqrt(a["rad2"]))
        col.check(close(got, exp, TOL * m.var), "history:%s:cov_spatial" % cls,
                  "%s: cov_spatial at the test positions differs from the isotropic covariance at the spec radius by %s"
                  % (what, maxdiff(got, exp)), rp)
        # --- pipelines on long-lived objects against the isotropic model at the spec's Iso.x
        common = dict(len_scale=L, var=2.0)
        m_iso = _mk_model(name, kw, temporal=True, spatial_dim=d - 1, **common) if temporal else _mk_model(name, kw, dim=d, **common)
        refkey = ("hist", name, d, st["l"], temporal)
        f1 = srf(P, seed=seed)
        f2 = _ref_srf(refkey, m_iso, seed, "RandMeth")(a["isoX"])
        col.check(close(f1, f2, TOL * 2), "history:%s:SRF" % cls, "%s: the long-lived SRF differs from the isotropic model at the spec's "
                  "transformed positions by %s" % (what, maxdiff(f1, f2)), dict(rp, pipeline="SRF"))
        nc = d + 1
        cp, icp, cv = P[:, :nc], a["isoX"][:, :nc], COND_VALS[:nc]
        if kr is None or kr_d != d:
            kr, kr_d = gs.krige.Ordinary(m, cond_pos=cp, cond_val=cv), d
        else:
            kr.set_condition()      # documented refresh after a change of the model
        k2 = gs.krige.Ordinary(m_iso, cond_pos=icp, cond_val=cv)
        a1, v1 = kr(P)
        a2, v2 = k2(a["isoX"])
        col.check(close(a1, a2, KTOL) and close(v1, v2, KTOL), "history:%s:Krige" % cls,
                  "%s: the long-lived (refreshed) kriging object differs from the isotropic model at the spec's transformed positions "
                  "(field %s, variance %s)" % (what, maxdiff(a1, a2), maxdiff(v1, v2)), dict(rp, pipeline="Krige"))
        # --- uses of the stored positions: the same call again without positions, a refresh, reading pos / cond_pos:
        # nothing is assigned (spec: UseKeepsState), the stored arrays are what was passed, the answers are the same
        P0 = a["P"].copy()
        fs = srf()
        kr.set_condition()
        as_, vs_ = kr()
        col.check(close(fs, f1, 0.0) and close(as_, a1, KTOL) and close(vs_, v1, KTOL), "history:%s:stored-positions:repeat" % cls,
                  "%s: calling the SRF / the refreshed Krige object again on its stored positions changes the result (SRF by %s, "
                  "kriging by %s)" % (what, maxdiff(fs, f1), maxdiff(as_, a1)), dict(rp, pipeline="stored positions"))
        col.check(np.array_equal(P, P0) and np.array_equal(np.asarray(srf.pos), P0) and np.array_equal(np.asarray(kr.pos), P0)
                  and np.array_equal(np.asarray(kr.cond_pos), P0[:, :nc]), "history:%s:stored-positions:arrays" % cls,
                  "%s: the caller's position array or the stored pos / cond_pos changed by using the objects" % what,
                  dict(rp, pipeline="stored positions"))
        a3, v3 = gs.krige.Simple(m, cond_pos=cp, cond_val=cv, mean=0.5)(P)
        a4, v4 = gs.krige.Simple(m_iso, cond_pos=icp, cond_val=cv, mean=0.5)(a["isoX"])
        col.check(close(a3, a4, KTOL) and close(v3, v4, KTOL), "history:%s:Krige-new" % cls,
                  "%s: a kriging object built from the changed model differs from the isotropic model at the spec's transformed "
                  "positions (field %s)" % (what, maxdiff(a3, a4)), dict(rp, pipeline="Krige-new"))
        col.nontrivial.add(("hist", mode, k, s["step"]))


def _work_hist(job):
    mode, k, script, states = job
    col = _Collect()
    replay_script(col, mode, k, script, states)
    return col


def hist_tlc_job(sc, mode, scripts, tag):
    """TLC job description for the scripted histories."""
    mod, cfg = hist_module("MC_" + tag, mode, scripts)
    sc.write("MC_%s.tla" % tag, mod)
    return (("hist", tag), sc, "MC_" + tag, cfg, dict(workers=2, timeout=1500, heap="2g", dump=("states", sc.path(tag + ".dump"))))


def hist_jobs(sc, mode, scripts, tag):
    by_k = {}
    for s in read_dump(sc.path(tag + ".dump")):
        by_k.setdefault(s["k"], []).append(s)
    return [(mode, k - 1, scripts[k - 1], sts) for k, sts in sorted(by_k.items())]


def check_fit_inside(col, idx, seed, temporal):
    """A variogram fit inside Krige changes the model in place (values not on the lattice): the result must be the one
    of the CURRENT parameters, i.e. equal a kriging object built with the fitted model and equal the isotropic
    computation at the fitted model's transformed positions.  Relation between implementation outputs."""
    import copy

    gs = _gs()
    rng = np.random.default_rng([seed, idx, 99])
    rotated = bool((idx // 2) % 2) and not temporal
    via_setter = bool((idx // 4) % 2) if not temporal else bool((idx // 2) % 2)
    d = 3 if temporal else (2 if rotated else int(rng.integers(2, 4)))
    n = 80
    pos = rng.uniform(0, 20, (d, n))
    if temporal:
        gen = _mk_model("Exponential", {}, temporal=True, spatial_dim=2, len_scale=4.0, anis=[1.0, 0.3])
        start = _mk_model("Exponential", {}, temporal=True, spatial_dim=2, len_scale=3.0, anis=[1.0, 0.8], angles=[0.3, 0.5, 0.2])
    else:
        ang = ([0.5] if d == 2 else [0.4, 0.2, 0.1]) if rotated else 0.0
        gen = _mk_model("Exponential", {}, dim=d, len_scale=4.0, anis=[0.3, 1.0][: d - 1], angles=ang)
        start = _mk_model("Exponential", {}, dim=d, len_scale=3.0, anis=[0.8, 1.0][: d - 1], angles=ang)
    val = gs.SRF(gen, seed=int(rng.integers(1 << 30)), mode_no=64)(pos)
    before = np.array(start.anis, copy=True)
    K = gs.krige.Ordinary if idx % 2 else gs.krige.Simple
    try:
        with warnings.catch_warnings():
            warnings.simplefilter("ignore")
            if via_setter:
                k1 = K(start, cond_pos=pos, cond_val=val)
                k1(pos[:, :3])                                   # the object has been used
                k1.set_condition(fit_variogram=True)
            else:
                k1 = K(start, cond_pos=pos, cond_val=val, fit_variogram=True)
    except (RuntimeError, ValueError) as e:   # the optimiser did not converge on this data set: inconclusive
        col.notes.append("variogram fit failed on data set %d (%r): skipped" % (idx, e))
        return
    fitted = k1.model
    cls = "%s:%s" % ("temporal" if temporal else ("rotated" if rotated else "spatial"), "set_condition" if via_setter else "constructor")
    rp = {"kind": "fit-inside", "idx": idx, "seed": seed, "temporal": temporal, "rotated": rotated, "via_set_condition": via_setter,
          "anis_before": before, "anis_after": fitted.anis}
    what = "%s(fit_variogram=True via %s, anis %s -> %s)" % (K.__name__, "set_condition" if via_setter else "the constructor",
                                                             before.tolist(), np.asarray(fitted.anis).tolist())
    tgt = rng.uniform(0, 20, (d, 25))
    f1, v1 = k1(tgt)
    k2 = K(copy.deepcopy(fitted), cond_pos=pos, cond_val=val)
    f2, v2 = k2(tgt)
    col.check(close(f1, f2, KTOL) and close(v1, v2, KTOL), "krige:fit_variogram:%s:fitted-model" % cls,
              "%s differs from Krige(<fitted model>): field %s, variance %s" % (what, maxdiff(f1, f2), maxdiff(v1, v2)), rp)
    # the isotropic computation at the transformed positions of the fitted model
    iso_kw = dict(len_scale=fitted.len_scale, var=fitted.var, nugget=fitted.nugget)
    m_iso = _mk_model("Exponential", {}, temporal=True, spatial_dim=2, **iso_kw) if temporal else _mk_model("Exponential", {}, dim=d, **iso_kw)
    k3 = K(m_iso, cond_pos=fitted.isometrize(pos), cond_val=val)
    f3, v3 = k3(fitted.isometrize(tgt))
    col.check(close(f1, f3, KTOL) and close(v1, v3, KTOL), "krige:fit_variogram:%s:isotropic-at-transformed" % cls,
              "%s differs from the isotropic model at the fitted model's transformed positions: field %s, variance %s"
              % (what, maxdiff(f1, f3), maxdiff(v1, v3)), rp)
    c1 = gs.CondSRF(k1, seed=11, mode_no=8)(tgt)
    c3 = gs.CondSRF(k3, seed=11, mode_no=8)(fitted.isometrize(tgt))
    col.check(close(c1, c3, KTOL), "condsrf:fit_variogram:%s:isotropic-at-transformed" % cls,
              "CondSRF on %s differs from the isotropic model at the fitted model's transformed positions by %s" % (what, maxdiff(c1, c3)), rp)
    if not np.allclose(before, fitted.anis):
        col.nontrivial.add(("fit", cls, idx))
    else:
        col.notes.append("fit did not change the anisotropy (idx %d)" % idx)


def _work_fit(job):
    idxs, seed, temporal = job
    col = _Collect()
    for i in idxs:
        check_fit_inside(col, i, seed, temporal)
    return col


def _cfg_hash(st):
    """Stable scrambled index of a configuration (selection of the sampled sub-checks)."""
    h = st["d"]
    for q in st["qs"]:
        h = h * 4 + q
    for e in st["es"]:
        h = h * 3 + (e + 1)
    return (h * 2654435761) & 0xFFFFFFFF


def _work_lin(job):
    """Worker: part of a TLC state dump of Geometry.tla ("lin" / "tmp")."""
    kind, path, part, nparts, opts = job
    col = _Collect()
    temporal = kind == "tmp"
    states = read_lin_dump(path)
    col.first = states[:2] if part == 0 else []
    col.n_states = col.n_model = col.n_pipe = 0
    for st in states[part::nparts]:
        if not all(st["chk"].values()):
            col.notes.append("chk FALSE in %r" % (st,))
        h = _cfg_hash(st)
        low = st["d"] < 4
        col.n_states += 1
        if not temporal:
            check_functions(col, st)
        if (low and opts["model_low"]) or h % opts["model"] == 0:
            check_model(col, st, LENEXP[h % 3], temporal=temporal)
            col.n_model += 1
            if temporal:
                m = _mk_model("Gaussian", {}, temporal=True, spatial_dim=st["d"] - 1, angles=angles_of(st["qs"]) or 0.0)
                col.check(close(m.angles, angles_of(st["eqs"]), 0.0), "model:angles:temporal:d%d" % st["d"],
                          "spatio-temporal model keeps angles %s for requested quarter turns %s, spec %s"
                          % (list(m.angles), st["qs"], st["eqs"]), {"kind": "tmp-angles", "d": st["d"], "qs": st["qs"]})
        if (low and opts["pipe_low"]) or (h // 7) % opts["pipe"] == 0:
            check_pipeline(col, st, h // 64, temporal=temporal)
            col.n_pipe += 1
        col.nontrivial.add((kind, st["d"], tuple(st["qs"]), tuple(st["es"])))
    return col


def _work_general(job):
    idxs, seed, temporal = job
    col = _Collect()
    for i in idxs:
        check_general(col, i, seed, temporal=temporal)
        col.nontrivial.add(("general", temporal, i))
    return col


def _merge(rep, col, traces=True):
    rep.evaluations += col.evals
    rep.nontrivial |= col.nontrivial
    for key, what, rp in col.violations:
        rep.violation(key, what, rp)


def _collect_lin(rep, cols):
    tot = {"states": 0, "model": 0, "pipe": 0}
    for col in cols:
        _merge(rep, col)
        tot["states"] += col.n_states
        tot["model"] += col.n_model
        tot["pipe"] += col.n_pipe
        if col.notes and not rep.violations:
            raise tlc.MachineryError("a chk field is FALSE but TLC reported no invariant violation: " + col.notes[0])
        for st in col.first:
            if len(rep.samples) < 4:
                a = _state_arrays(st)
                rep.sample({"d": st["d"], "angles_quarter_turns": st["qs"], "ratio_exponents": st["es"],
                            "spec_rotate": a["rot"].tolist(), "spec_iso": a["isoX"][:, :st["d"]].tolist(),
                            "spec_rad2_of_test_positions": a["rad2"].tolist()})
    return tot


def _run_pool(fn, jobs, procs):
    if not jobs:
        return []
    with mp.get_context("fork").Pool(min(procs, len(jobs))) as pool:
        return list(pool.imap_unordered(fn, jobs))


def _procs(tier):
    env = os.environ.get("VERIF_PROCS")
    return int(env) if env else 14


def _design_violations(rep, results, names):
    for key, r in sorted(results.items()):
        tlc.must_pass(r, str(key))
        rep.add_tlc(names(key), r)
        if r.error:
            rep.violation("design:%s:%s" % (key[0], r.error[1] or r.error[0]),
                          "the ideal spec violates its own %s %s in job %s" % (r.error[0], r.error[1], key),
                          {"trace": tlc.error_trace(r)})


# ---------------------------------------------------------------------------
# C12


def run_c12(rep, tier, seed):
    thorough = tier == "thorough"
    rng = random.Random(seed)
    procs = _procs(tier)
    rep.assumptions += [
        "angles are quarter turns (float image q*pi/2), ratios are 1/2, 1, 2, positions are small integers: every expected value is exact",
        "Order (composition order of the elementary rotations) and the continuation of the alternating sign rule to the planes of "
        "the 4th axis are taken from the implementation (named constants Order / SignRule in Geometry.tla); the sign rule of the 3-D "
        "planes is verified by TLC against the documented right-handed yaw/pitch/roll convention (ConventionOK)",
        "pipelines are compared with mode_no=8 RandMeth generators; the isotropic reference model has the same class, variance and len_scale",
        "universal kriging: the isotropic counterpart is external drift kriging with the drift functions' values at the original positions",
        "histories: which assignments are made is scripted by the driver (seeded); TLC computes their effect and the expected transformation; "
        "a long-lived Krige object is refreshed with set_condition() after a change of its model (documented)",
    ]
    with tlc.Scratch() as sc:
        jobs = []

        def add(tag, mode, dims, qsets, exps, invs):
            mod, cfg = lin_module("MC_" + tag, mode, dims, qsets, exps)
            sc.write("MC_%s.tla" % tag, mod)
            jobs.append(((mode, tag), sc, "MC_" + tag, _cfg_inv(cfg, invs),
                         dict(workers=1, timeout=1500, heap="2g", dump=("states", sc.path(tag + ".dump")))))

        add("giv", "giv", [1, 2, 3, 4], FULLQ, {}, ["GivOK"])
        add("d12", "lin", [1, 2], FULLQ, {1: [[]], 2: _expvecs(2)}, LIN_INVS)
        for q1 in range(4):
            add("d3q%d" % q1, "lin", [3], [[q1]] + FULLQ[1:], {3: _expvecs(3)}, LIN_INVS)
        es4 = _expvecs(4) if thorough else ES4_QUICK
        for ei, es in enumerate(es4):
            for q1 in range(4):
                add("d4e%dq%d" % (ei, q1), "lin", [4], [[q1]] + FULLQ[1:], {4: [es]}, LIN_INVS)
        scripts = gen_scripts(rng, 120 if thorough else 40, False, 8 if thorough else 5)
        jobs.append(hist_tlc_job(sc, "lin", scripts, "hist"))
        t0 = time.time()
        results = tlc.run_many(jobs, parallel=procs)
        print("TLC: %d jobs in %.1fs" % (len(jobs), time.time() - t0))
        _design_violations(rep, results, lambda k: ("GeometryHist.%s[%s]" if k[0] == "hist" else "Geometry.%s[%s]") % k)
        # ---- histories of in-place parameter changes on one model / SRF / Krige object
        t0 = time.time()
        hjobs = hist_jobs(sc, "lin", scripts, "hist")
        for col in _run_pool(_work_hist, hjobs, procs):
            _merge(rep, col)
        rep.traces += len(hjobs)
        rep.sample({"history_script": scripts[0], "spec_states": [s["cfg"] for s in sorted(hjobs[0][3], key=lambda x: x["step"])]})
        print("replayed %d scripted histories (%d states) in %.1fs" % (len(hjobs), sum(len(j[3]) for j in hjobs), time.time() - t0))
        rep.extra["history_scripts"] = len(hjobs)
        # ---- in-place change by a variogram fit inside Krige (spatial anisotropic / rotated start models)
        nfit = 24 if thorough else 8
        for col in _run_pool(_work_fit, [([i], seed, False) for i in range(nfit)], procs):
            _merge(rep, col)
            for msg in col.notes:
                rep.note(msg)
        rep.traces += nfit
        rep.extra["variogram_fits_inside_krige"] = nfit
        # ---- elementary rotations and helper functions
        col = _Collect()
        check_givens(col, read_dump(sc.path("giv.dump")))
        _merge(rep, col)
        # every configuration: functions of tools/geometric.py; CovModel methods and pipelines: all of dims 1-3,
        # a hash-selected share in 4-D
        opts = {"model_low": True, "pipe_low": True, "model": 2 if thorough else 4, "pipe": 12 if thorough else 24}
        wjobs = []
        for (mode, tag), r in sorted(results.items()):
            if mode == "lin":
                nparts = max(1, r.distinct // (40 if tag.startswith("d3") else 256))
                wjobs += [("lin", sc.path(tag + ".dump"), part, nparts, opts) for part in range(nparts)]
        t0 = time.time()
        tot = _collect_lin(rep, _run_pool(_work_lin, wjobs, procs))
    print("replayed %d configurations (%d on CovModel, %d through the pipelines) in %.1fs"
          % (tot["states"], tot["model"], tot["pipe"], time.time() - t0))
    rep.traces += tot["states"]
    # ---- seeded general angles / ratios
    ng = 600 if thorough else 200
    t0 = time.time()
    gjobs = [(list(range(i, ng, procs * 2)), seed, False) for i in range(procs * 2)]
    for col in _run_pool(_work_general, gjobs, procs):
        _merge(rep, col)
    rep.traces += ng
    print("replayed %d seeded general angle/ratio vectors in %.1fs" % (ng, time.time() - t0))
    rep.extra.update({"configurations_from_tlc": tot["states"], "configurations_on_covmodel": tot["model"],
                      "configurations_through_pipelines": tot["pipe"], "general_vectors": ng,
                      "dim4_ratio_vectors": len(es4)})
    return rep.finish(
        level="model_checking",
        rule="TLC configurations = (dim, quarter-turn angle vector, ratio-exponent vector): all of dims 1-3, in 4-D all 4096 angle "
             "vectors x %d ratio vectors; each is one trace replayed on tools/geometric.py (all), on a CovModel and through "
             "SRF/VectorField/Krige/CondSRF (all of dims 1-3, a hash-selected share in 4-D); + seeded general angle/ratio vectors. "
             "distinct non-trivial = distinct (dim, angles, ratios) tuples / general vector indices" % len(es4),
        exhaustive=False)


def check_givens(col, states):
    from gstools.tools import geometric as g

    seen = set()
    for s in states:
        c, o = s["cfg"], s["out"]
        d, k, q = c["d"], c["k"], c["q"]
        plane0 = tuple(x - 1 for x in o["plane"])
        exp = np.array(o["giv"], dtype=float).reshape(d, d)
        got = g.givens_rotation(d, plane0, q * HALF_PI)
        rp = {"kind": "givens", "d": d, "plane": plane0, "q": q}
        col.check(close(got, exp, TOL), "geometric:givens_rotation:d%d:matrix" % d,
                  "givens_rotation(%d, %s, %d*pi/2) = %s, spec %s" % (d, plane0, q, np.round(got, 6).tolist(), exp.tolist()), rp)
        if d not in seen:
            seen.add(d)
            col.check(g.no_of_angles(d) == o["noa"], "geometric:no_of_angles:d%d" % d,
                      "no_of_angles(%d) = %s, spec %s" % (d, g.no_of_angles(d), o["noa"]), rp)
        planes = [tuple(p) for p in g.rotation_planes(d)]
        col.check(len(planes) == o["noa"] and planes[k - 1] == plane0, "geometric:rotation_planes:d%d" % d,
                  "rotation_planes(%d)[%d] = %s, documented order gives %s" % (d, k - 1, planes[k - 1:k], plane0), rp)
        # the k-th model angle alone
        ang = [0.0] * noa(d)
        ang[k - 1] = q * HALF_PI
        got = g.matrix_rotate(d, ang)
        exp = np.array(o["rot"], dtype=float).reshape(d, d)
        col.check(close(got, exp, TOL), "geometric:matrix_rotate:d%d:single-angle" % d,
                  "matrix_rotate(%d) with only angle %d = %d quarter turns: %s, spec (documented convention) %s"
                  % (d, k, q, np.round(got, 6).tolist(), exp.tolist()), dict(rp, k=k))
        col.nontrivial.add(("giv", d, k, q))
    col.check(g.no_of_angles(1) == 0 and list(g.rotation_planes(1)) == [], "geometric:no_of_angles:d1",
              "dimension 1 has no rotation planes", {"kind": "givens", "d": 1})
    # set_angles / set_anis: documented filling rules
    col.check(list(g.set_angles(3, [0.5])) == [0.5, 0.0, 0.0] and list(g.set_angles(2, [0.5, 1.0])) == [0.5],
              "geometric:set_angles:fill", "set_angles does not fill with 0 on the right / cut on the right", {"kind": "set_angles"})
    col.check(list(g.set_anis(3, [0.5])) == [1.0, 0.5] and list(g.set_anis(2, [0.5, 2.0])) == [0.5] and list(g.set_anis(1, [2.0])) == [],
              "geometric:set_anis:fill", "set_anis does not fill with 1 (on the left, as documented in set_len_anis) / cut on the right",
              {"kind": "set_anis"})


# ---------------------------------------------------------------------------
# C13: sphere


def _scales():
    gs = _gs()
    return [("radian", 1.0), ("degree", gs.DEGREE_SCALE), ("km", gs.KM_SCALE), ("arbitrary", 2.5)]


def _unit(lat, lon):
    """Numeric unit vector; used only to generate inputs and to self-check the oracle (MachineryError)."""
    la, lo = math.radians(lat), math.radians(lon)
    return np.array([math.cos(la) * math.cos(lo), math.cos(la) * math.sin(lo), math.sin(la)])


def gen_gc_sets(rng, n):
    """Point sets on which every pairwise great-circle distance is an exact integer number of degrees."""
    sets = []
    fams = ["equator", "meridian", "equator+poles", "meridian+poles", "octahedral",
            "arc-regional", "arc-continental", "meridian-arc", "lattice-global", "lattice-part"]
    for k in range(n):
        fam = fams[k % len(fams)]
        pts = []
        if fam in ("equator", "equator+poles"):
            base = rng.randrange(-180, 181)
            pts = [(0, base), (0, base + 360), (0, base + 180), (0, 179), (0, -179), (0, 180), (0, -180)]
            pts += [(0, rng.randrange(-540, 721)) for _ in range(3)]
            if fam == "equator+poles":
                pts = pts[2:] + [(90, rng.randrange(-400, 400)), (-90, rng.randrange(-400, 400))]
        elif fam in ("meridian", "meridian+poles"):
            lon0 = rng.randrange(-180, 361)
            for _ in range(6):
                side = rng.choice([0, 180])
                pts.append((rng.randrange(-90, 91), lon0 + side + 360 * rng.choice([-1, 0, 0, 1])))
            pts += [(90, rng.randrange(-400, 400)), (-90, lon0), (0, lon0 + 180)]
            if fam == "meridian+poles":
                pts = pts[2:] + [(0, lon0 + 90 + 360 * rng.choice([-1, 0, 1])), (0, lon0 - 90)]
        elif fam in ("arc-regional", "arc-continental"):
            # arc of the equator inside one quadrant (any representation of the longitudes): regional = a few degrees
            q = rng.randrange(4)
            span = rng.randrange(3, 9) if fam == "arc-regional" else rng.randrange(40, 89)
            lo = 90 * q + rng.randrange(0, 90 - span + 1)
            inner = [rng.randrange(lo, lo + span + 1) for _ in range(6)]
            pts = [(0, x + 360 * rng.choice([-1, 0, 0, 1])) for x in [lo, lo + span] + inner]
        elif fam == "meridian-arc":
            lon0 = rng.randrange(-180, 361)
            sgn = rng.choice([1, -1])
            a, b = sorted(rng.sample(range(0, 91), 2))
            pts = [(sgn * x, lon0) for x in [a, b] + [rng.randrange(a, b + 1) for _ in range(6)]]
        elif fam == "lattice-global":
            pts = [(0, 90 * rng.randrange(-4, 6)) for _ in range(4)] + [(90, 0), (-90, 90), (0, 0), (0, 180), (0, -90), (0, 90)]
        elif fam == "lattice-part":
            # two or three mutually orthogonal vertices (box diagonal = chord of 90 / 120 degrees), repeated
            base = rng.choice([[(0, 0), (0, 90)], [(0, 0), (0, 90), (90, 0)], [(0, 180), (-90, 0)], [(0, -90), (0, 0), (-90, 180)]])
            pts = base + [rng.choice(base) for _ in range(4)]
            pts = [(la, lo + (360 * rng.choice([-1, 0, 1]) if la == 0 else 0)) for la, lo in pts]
        else:
            pts = [(0, 90 * rng.randrange(-4, 6)) for _ in range(5)] + [(90, 90 * rng.randrange(-4, 6)), (-90, rng.randrange(-400, 400)),
                                                                        (0, 0), (0, 180), (0, -90)]
        rng.shuffle(pts)
        vals = rng.sample(range(-9, 10), len(pts))
        sets.append((fam, pts, vals))
    return sets


def gen_oct_sets(rng, n, ncond=4, ntarget=5):
    """Points on the three coordinate great circles (integer degrees); the first ncond carry data."""
    sets = []
    for _k in range(n):
        pts = []
        tries = 0
        while len(pts) < ncond + ntarget:
            tries += 1
            c = rng.choice(["eq", "m0", "m90", "vertex"])
            rep = 360 * rng.choice([-1, 0, 0, 1])
            if c == "eq":
                p = (0, rng.randrange(-180, 181) + rep)
            elif c == "m0":
                p = (rng.randrange(-90, 91), rng.choice([0, 180]) + rep)
            elif c == "m90":
                p = (rng.randrange(-90, 91), rng.choice([90, -90]) + rep)
            else:
                p = rng.choice([(0, 0), (0, 90), (0, 180), (0, -90), (90, rng.randrange(-200, 200)), (-90, rng.randrange(-200, 200))])
            u = _unit(*p)
            # data points well separated (conditioning of the kriging matrix), all points distinct
            mind = 0.35 if len(pts) < ncond else 0.02
            if all(np.linalg.norm(u - _unit(*q)) > mind for q in pts):
                pts.append(p)
        sets.append(pts)
    return sets


def gen_st_sets(rng, n, size=6):
    sets = []
    for _k in range(n):
        pts = []
        while len(pts) < size:
            p = (rng.choice([-90, 0, 0, 0, 90]), 90 * rng.randrange(-4, 7), rng.randrange(-3, 4))
            key = (tuple(np.round(_unit(p[0], p[1]), 6)), p[2])
            if all(key != (tuple(np.round(_unit(q[0], q[1]), 6)), q[2]) for q in pts):
                pts.append(p)
        sets.append(dict(r=rng.choice([-1, 0, 1]), te=rng.choice([-1, 1, -1, 1, 0]), pts=pts))
    return sets


def _lon_equiv(a, b, tol=1e-9):
    x = (a - b) % 360.0
    return min(x, 360.0 - x) <= tol


def check_ll_state(col, s):
    """latlon2pos / pos2latlon and the lat-lon(-time) model against one lattice configuration."""
    from gstools.tools import geometric as g

    c, o = s["cfg"], s["out"]
    R, ts, tp = 2.0 ** c["r"], 2.0 ** c["te"], bool(c["temporal"])
    ll = [[float(c["lat"])], [float(c["lon"])]] + ([[float(c["t"])]] if tp else [])
    exp = np.array(o["pos4"], dtype=float).reshape(-1, 1) / 4.0
    back = [float(x) for x in o["back"]]
    rp = {"kind": "ll", "cfg": c}
    cls = "temporal" if tp else "spatial"
    got = g.latlon2pos(ll, radius=R, temporal=tp, time_scale=ts)
    col.check(close(got, exp, TOL * max(1.0, R)), "latlon2pos:%s:lattice" % cls,
              "latlon2pos(%s, radius=%s, time_scale=%s) = %s, spec %s" % (ll, R, ts, got.ravel().tolist(), exp.ravel().tolist()), rp)

    def same(res, what, key):
        res = np.asarray(res, dtype=float).ravel()
        ok = len(res) == len(back) and abs(res[0] - back[0]) <= KTOL and (abs(back[0]) == 90 or _lon_equiv(res[1], back[1]))
        ok = ok and (not tp or abs(res[2] - back[2]) <= KTOL)
        col.check(ok, key, "%s = %s is not the point %s (lat, lon modulo 360%s)" % (what, res.tolist(), back, ", time" if tp else ""), rp)

    same(g.pos2latlon(exp, radius=R, temporal=tp, time_scale=ts), "pos2latlon(%s, radius=%s, time_scale=%s)" % (exp.ravel().tolist(), R, ts),
         "pos2latlon:%s:lattice" % cls)
    same(g.pos2latlon(got, radius=R, temporal=tp, time_scale=ts), "pos2latlon(latlon2pos(%s))" % ll, "roundtrip:%s:lattice" % cls)
    # model level: spatial ratios and all angles requested, only the time ratio may survive
    m = _mk_model("Gaussian", {}, latlon=True, temporal=tp, geo_scale=R, len_scale=R,
                  anis=[0.5, 2.0, ts] if tp else [0.5, 2.0], angles=[0.4, 1.0, 0.3, 0.7, 0.2, 0.9][: 6 if tp else 3])
    col.check(m.dim == 3 + int(tp) and m.field_dim == 2 + int(tp), "model-latlon:dim:%s" % cls,
              "lat-lon model has dim %s, field_dim %s" % (m.dim, m.field_dim), rp)
    got = m.isometrize(ll)
    col.check(close(got, exp, TOL * max(1.0, R)), "model-latlon:isometrize:%s" % cls,
              "isometrize(%s) of a lat-lon model (geo_scale=%s, time ratio %s) = %s, spec %s"
              % (ll, R, ts, np.ravel(got).tolist(), exp.ravel().tolist()), rp)
    same(m.anisometrize(exp), "anisometrize(%s)" % exp.ravel().tolist(), "model-latlon:anisometrize:%s" % cls)


def check_ll_general(col, idx, seed):
    """Seeded general points: conversion to 3-D and back is the identity; positions lie on the sphere."""
    from gstools.tools import geometric as g

    rng = np.random.default_rng([seed, idx, 13])
    n = 12
    tp = bool(idx % 2)
    lat = rng.uniform(-89, 89, n)
    lat[:2] = [90.0, -90.0]
    lat[2] = 0.0
    lon = rng.uniform(-540, 720, n)
    lon[3:7] = [180.0, -180.0, 179.999, -179.999]
    R = float(rng.choice([1.0, 57.29577951308232, 6371.0, rng.uniform(0.1, 10)]))
    ts = float(rng.uniform(0.2, 5))
    ll = [lat, lon] + ([rng.uniform(-5, 5, n)] if tp else [])
    rp = {"kind": "ll-general", "idx": idx, "seed": seed, "latlon": ll, "radius": R, "time_scale": ts, "temporal": tp}
    cls = "temporal" if tp else "spatial"
    pos = g.latlon2pos(ll, radius=R, temporal=tp, time_scale=ts)
    back = g.pos2latlon(pos, radius=R, temporal=tp, time_scale=ts)
    ok = close(back[0], lat, KTOL) and all(abs(lat[i]) == 90 or _lon_equiv(back[1][i], lon[i]) for i in range(n))
    ok = ok and (not tp or close(back[2], ll[2], KTOL))
    col.check(ok, "roundtrip:%s:general" % cls, "pos2latlon(latlon2pos(x)) is not x (modulo 360 in lon): %s -> %s"
              % (np.array(ll).tolist(), np.asarray(back).tolist()), rp)
    rad = np.array([math.sqrt(math.fsum(float(pos[k][i]) ** 2 for k in range(3))) for i in range(n)])
    col.check(close(rad, np.full(n, R), 1e-12 * R), "latlon2pos:%s:on-sphere" % cls,
              "latlon2pos does not map onto the sphere of radius %s: radii %s" % (R, rad.tolist()), rp)
    if tp:
        col.check(close(pos[3], ll[2] / ts, TOL), "latlon2pos:temporal:time-axis", "time coordinate is not t / time_scale", rp)
        pos0 = g.latlon2pos(ll[:2], radius=R)
        col.check(close(pos[:3], pos0, 0.0), "latlon2pos:temporal:space-independent-of-time",
                  "spatial coordinates of the temporal conversion differ from the purely spatial conversion", rp)
    m = _mk_model("Exponential", {}, latlon=True, temporal=tp, geo_scale=R, len_scale=R, anis=[1.0, 1.0, ts] if tp else 1.0)
    b2 = m.anisometrize(m.isometrize(ll))
    ok = close(b2[0], lat, KTOL) and all(abs(lat[i]) == 90 or _lon_equiv(b2[1][i], lon[i]) for i in range(n))
    ok = ok and (not tp or close(b2[2], ll[2], KTOL))
    col.check(ok, "model-latlon:roundtrip:%s" % cls, "anisometrize(isometrize(x)) of a lat-lon model is not x", rp)
    col.check(close(m.isometrize(ll), pos, TOL * R), "model-latlon:isometrize:%s:general" % cls,
              "isometrize of a lat-lon model differs from latlon2pos(radius=geo_scale, time_scale=anis[-1])", rp)


# automatic bins: (Mnum, Mden, bin_no): cut-off M = Mnum/Mden degrees; no integer distance lies on an edge
AUTOBINS = [(937, 10, 10), (1813, 10, 12), (451, 10, 6)]

LL_MODELS = [("Gaussian", {}), ("Exponential", {}), ("Matern", {"nu": 1.5}), ("Stable", {"alpha": 1.2})]


def check_gc_set(col, k, fam, pts, vals, s, tier):
    """vario_estimate(latlon=True), Yadrenko covariance, chordal conversion and 2-point kriging against
    the spec's great-circle distances of one point set."""
    from gstools.tools import geometric as g

    gs = _gs()
    o = s["out"]
    n = len(pts)
    dist = np.array(o["dist"], dtype=float)
    chord2 = np.array(o["chord2"], dtype=float)
    hist = {int(h[0]): (int(h[1]), int(h[2])) for h in o["hist"]}
    lat = np.array([p[0] for p in pts], dtype=float)
    lon = np.array([p[1] for p in pts], dtype=float)
    fld = np.array(vals, dtype=float)
    rp = {"kind": "gc", "family": fam, "points": pts, "values": vals}
    edges_deg = np.array([0.0] + [x + 0.5 for x in range(181)])
    exp_cnt = np.zeros(181)
    exp_gam = np.zeros(181)
    for dd, (cnt, ssq) in hist.items():
        exp_cnt[dd] = cnt
        exp_gam[dd] = ssq / (2.0 * cnt)
    for sname, sc in _scales():
        # one float64 edge array per geo_scale, shared by two calls (one variogram per field with common bins):
        # every call must bin the great-circle distances into the classes given by the caller
        edges = edges_deg * (math.pi / 180.0) * sc
        edges0 = edges.copy()
        centers = (edges0[:-1] + edges0[1:]) / 2.0
        gs.vario_estimate((lat, lon), fld[::-1].copy(), edges, latlon=True, geo_scale=sc)
        bc, gam, cnt = gs.vario_estimate((lat, lon), fld, edges, latlon=True, geo_scale=sc, return_counts=True)
        col.check(close(bc, centers, TOL * sc) and np.array_equal(edges, edges0), "vario_estimate:latlon:shared-bin-edges",
                  "second call with the same bin-edge array (geo_scale %s): returned centres %s..., edges now %s... instead of %s..."
                  % (sname, np.asarray(bc)[:3].tolist(), edges[:3].tolist(), edges0[:3].tolist()), dict(rp, geo_scale=sc, clause="shared edges"))
        col.check(close(cnt, exp_cnt, 0.0), "vario_estimate:latlon:%s:counts" % fam,
                  "pair counts per integer-degree bin (geo_scale %s) differ from the spec's great-circle distances: got %s expected %s"
                  % (sname, {i: int(c) for i, c in enumerate(cnt) if c}, {i: int(c) for i, c in enumerate(exp_cnt) if c}),
                  dict(rp, geo_scale=sc, clause="counts"))
        col.check(close(gam, exp_gam, KTOL), "vario_estimate:latlon:%s:gamma" % fam,
                  "variogram values per integer-degree bin (geo_scale %s) differ from the spec (max %s)" % (sname, maxdiff(gam, exp_gam)),
                  dict(rp, geo_scale=sc, clause="gamma"))
    # automatic bins (bin_edges=None): user cut-off max_dist and bin_no in the unit of geo_scale; bin_no alone
    from gstools.variogram import standard_bins

    iu = [(i, j) for i in range(n) for j in range(i + 1, n)]
    for sname, sc in _scales():
        unit = (math.pi / 180.0) * sc
        for ai, (mn, md, nb) in enumerate(AUTOBINS):
            if not o["noedge"][ai]:
                continue        # an integer distance lies exactly on an edge: boundary, either bin
            mdeg = mn / md
            bc, gam, cnt = gs.vario_estimate((lat, lon), fld, latlon=True, geo_scale=sc, bin_no=nb, max_dist=mdeg * unit, return_counts=True)
            exp_c = np.array([(b + 0.5) * mdeg / nb for b in range(nb)]) * unit
            sb = standard_bins((lat, lon), latlon=True, geo_scale=sc, bin_no=nb, max_dist=mdeg * unit)
            a_cnt = np.array([float(x[0]) for x in o["auto"][ai]])
            a_gam = np.array([x[1] / (2.0 * x[0]) if x[0] else 0.0 for x in o["auto"][ai]])
            r2 = dict(rp, geo_scale=sc, bin_no=nb, max_dist_deg=mdeg, clause="automatic bins")
            col.check(close(bc, exp_c, TOL * sc) and close(bc, (sb[:-1] + sb[1:]) / 2.0, TOL * sc), "vario_estimate:latlon:auto-bins:centres",
                      "automatic bins (geo_scale %s, bin_no=%d, max_dist=%s deg): centres %s... instead of %s... (standard_bins: %s...)"
                      % (sname, nb, mdeg, np.asarray(bc)[:3].tolist(), exp_c[:3].tolist(), ((sb[:-1] + sb[1:]) / 2.0)[:3].tolist()), r2)
            col.check(close(cnt, a_cnt, 0.0) and close(gam, a_gam, KTOL), "vario_estimate:latlon:auto-bins:%s:counts" % fam,
                      "automatic bins (geo_scale %s, bin_no=%d, max_dist=%s deg): counts %s, the spec's great-circle distances regrouped "
                      "into these bins give %s" % (sname, nb, mdeg, np.asarray(cnt).astype(int).tolist(), a_cnt.astype(int).tolist()), r2)
        # bin_no alone: the cut-off comes from the data (implementation's standard_bins); the spec distances are regrouped
        nb = 7
        sb = standard_bins((lat, lon), latlon=True, geo_scale=sc, bin_no=nb)
        zs = [dist[i, j] * unit for i, j in iu]
        if all(abs(z - e) > 1e-7 * sc for z in zs for e in sb):
            bc, gam, cnt = gs.vario_estimate((lat, lon), fld, latlon=True, geo_scale=sc, bin_no=nb, return_counts=True)
            e_cnt = np.zeros(nb)
            e_ss = np.zeros(nb)
            for (i, j), z in zip(iu, zs):
                for b in range(nb):
                    if sb[b] <= z < sb[b + 1]:
                        e_cnt[b] += 1
                        e_ss[b] += (fld[i] - fld[j]) ** 2
            e_gam = np.array([e_ss[b] / (2 * e_cnt[b]) if e_cnt[b] else 0.0 for b in range(nb)])
            col.check(close(bc, (sb[:-1] + sb[1:]) / 2.0, TOL * sc) and close(cnt, e_cnt, 0.0) and close(gam, e_gam, KTOL),
                      "vario_estimate:latlon:auto-bins:%s:data-cutoff" % fam,
                      "automatic bins (geo_scale %s, bin_no=%d): centres / counts %s differ from standard_bins' classes filled with the "
                      "spec's great-circle distances %s" % (sname, nb, np.asarray(cnt).astype(int).tolist(), e_cnt.astype(int).tolist()),
                      dict(rp, geo_scale=sc, bin_no=nb, clause="automatic bins, data cut-off"))
    # cut-off of the automatic bins: an explicit max_dist is the last edge, whatever bin_no; the default is one third of
    # the great-circle length of the bounding-box diagonal (spec: boxgc) -- standard_bins and vario_estimate alike
    boxgc = o["boxgc"]
    for sname, sc in _scales():
        unit = (math.pi / 180.0) * sc
        r3 = dict(rp, geo_scale=sc, clause="cut-off of automatic bins", boxgc_deg=boxgc)

        def regular(edges, last, what, key):
            edges = np.asarray(edges, dtype=float)
            ok = len(edges) >= 2 and abs(edges[0]) <= 1e-300 and abs(edges[-1] - last) <= KTOL * max(last, sc * 1e-3) \
                and close(np.diff(edges), np.full(len(edges) - 1, last / (len(edges) - 1)), KTOL * sc)
            col.check(ok, key, "%s (geo_scale %s): edges from %s to %s (%d bins), the great-circle geometry gives a last edge of %s "
                      "= %s degrees" % (what, sname, edges[0], edges[-1], len(edges) - 1, last, last / unit), r3)

        for mdeg in (4.5, 45.1, 93.7, 140.0):
            regular(standard_bins((lat, lon), latlon=True, geo_scale=sc, max_dist=mdeg * unit), mdeg * unit,
                    "standard_bins(max_dist=%s deg)" % mdeg, "standard_bins:latlon:explicit-max_dist")
            regular(standard_bins((lat, lon), latlon=True, geo_scale=sc, max_dist=mdeg * unit, bin_no=6), mdeg * unit,
                    "standard_bins(max_dist=%s deg, bin_no=6)" % mdeg, "standard_bins:latlon:explicit-max_dist")
            bc = gs.vario_estimate((lat, lon), fld, latlon=True, geo_scale=sc, max_dist=mdeg * unit)[0]
            col.check(abs(bc[0] + bc[-1] - mdeg * unit) <= KTOL * mdeg * unit, "vario_estimate:latlon:explicit-max_dist",
                      "vario_estimate(max_dist=%s deg, bin_no=None, geo_scale %s): bin centres %s..%s belong to a last edge of %s deg"
                      % (mdeg, sname, bc[0], bc[-1], (bc[0] + bc[-1]) / unit), r3)
        if boxgc > 0:
            last = boxgc / 3.0 * unit
            sb = standard_bins((lat, lon), latlon=True, geo_scale=sc)
            regular(sb, last, "standard_bins (default cut-off, %s)" % fam, "standard_bins:latlon:default-cutoff")
            regular(standard_bins((lat, lon), latlon=True, geo_scale=sc, bin_no=5), last,
                    "standard_bins (default cut-off, bin_no=5, %s)" % fam, "standard_bins:latlon:default-cutoff")
            bc, gam, cnt = gs.vario_estimate((lat, lon), fld, latlon=True, geo_scale=sc, return_counts=True)
            nb = len(bc)
            col.check(nb == len(sb) - 1 and abs(bc[0] + bc[-1] - last) <= KTOL * last, "vario_estimate:latlon:default-cutoff",
                      "vario_estimate with default bins (%s, geo_scale %s): %d centres %s..%s belong to a last edge of %s deg, the "
                      "great-circle length of the bounding-box diagonal / 3 is %s deg" % (fam, sname, nb, bc[0], bc[-1],
                                                                                          (bc[0] + bc[-1]) / unit, boxgc / 3.0), r3)
            # counts in the spec's classes k * (boxgc/3) / nb (skipped if a distance sits on an edge)
            ed = [kk * boxgc / 3.0 / nb for kk in range(nb + 1)]
            dd = [dist[i, j] for i, j in iu]
            if all(abs(x - e) > 1e-6 for x in dd for e in ed):
                e_cnt = np.array([sum(1 for x in dd if ed[b] <= x < ed[b + 1]) for b in range(nb)], dtype=float)
                col.check(close(cnt, e_cnt, 0.0), "vario_estimate:latlon:default-cutoff:counts",
                          "vario_estimate with default bins (%s, geo_scale %s): counts %s, the spec's distances in the default classes "
                          "give %s" % (fam, sname, np.asarray(cnt).astype(int).tolist(), e_cnt.astype(int).tolist()), r3)
    # Yadrenko functions and chordal distances
    name, kw = LL_MODELS[k % len(LL_MODELS)]
    sname, sc = _scales()[k % 4]
    m = _mk_model(name, kw, latlon=True, geo_scale=sc, len_scale=sc * (0.5 + 0.25 * (k % 3)), var=2.0)
    zeta = dist * (math.pi / 180.0) * sc
    chord_rel = np.vectorize(lambda z: 2.0 * sc * math.sin(z / (2.0 * sc)))(zeta)
    for fy, fi in (("cov_yadrenko", m.covariance), ("vario_yadrenko", m.variogram), ("cor_yadrenko", m.correlation)):
        got = getattr(m, fy)(zeta)
        col.check(close(got, fi(chord_rel), TOL * 2), "yadrenko:%s:relation" % fy,
                  "%s(zeta) differs from the isotropic function at 2R sin(zeta/2R) (geo_scale %s) by %s"
                  % (fy, sname, maxdiff(got, fi(chord_rel))), dict(rp, geo_scale=sc, function=fy))
    sel = chord2 >= 0
    if sel.any():
        chord = sc * np.sqrt(chord2[sel])
        col.check(close(m.cov_yadrenko(zeta[sel]), m.covariance(chord), TOL * 2), "yadrenko:cov_yadrenko:exact-chord",
                  "cov_yadrenko at %s degrees differs from covariance at the exact chord" % sorted(set(dist[sel].tolist())),
                  dict(rp, geo_scale=sc))
        got = g.great_circle_to_chordal(zeta[sel], sc)
        col.check(close(got, chord, TOL * sc), "great_circle_to_chordal:exact", "great_circle_to_chordal(%s deg, R=%s) = %s, exact %s"
                  % (dist[sel].tolist(), sc, np.asarray(got).tolist(), chord.tolist()), dict(rp, geo_scale=sc))
        got = g.chordal_to_great_circle(chord, sc)
        col.check(close(got, zeta[sel], KTOL * sc), "chordal_to_great_circle:exact", "chordal_to_great_circle of the exact chords of %s deg "
                  "(R=%s) = %s, expected %s" % (dist[sel].tolist(), sc, np.asarray(got).tolist(), zeta[sel].tolist()), dict(rp, geo_scale=sc))
    # simple kriging with two data points: weights assembled by hand from cov_yadrenko of the spec distances
    pairs = [(i, j) for i in range(n) for j in range(i + 1, n) if 0 < dist[i, j]]
    rr = random.Random(k)
    for (i, j) in rr.sample(pairs, min(len(pairs), 6 if tier == "thorough" else 3)):
        v1, v2 = 1.5, -0.5
        kr = gs.krige.Simple(m, cond_pos=([lat[i], lat[j]], [lon[i], lon[j]]), cond_val=[v1, v2], mean=0.0)
        f, var = kr((lat, lon))
        cy = lambda a, b: float(m.cov_yadrenko(zeta[a, b]))  # noqa: E731
        c0, c12 = float(m.cov_yadrenko(0.0)), cy(i, j)
        det = c0 * c0 - c12 * c12
        ef, ev = [], []
        for t in range(n):
            c1t, c2t = cy(i, t), cy(j, t)
            w1, w2 = (c0 * c1t - c12 * c2t) / det, (c0 * c2t - c12 * c1t) / det
            ef.append(w1 * v1 + w2 * v2)
            ev.append(max(c0 - (w1 * c1t + w2 * c2t), 0.0))
        col.check(close(f, ef, KTOL) and close(var, ev, KTOL), "krige-latlon:%s:yadrenko-covariance" % fam,
                  "simple kriging from data at %s, %s (%s, geo_scale %s) differs from the weights built from cov_yadrenko of the "
                  "spec's great-circle distances: field %s, variance %s" % (pts[i], pts[j], name, sname, maxdiff(f, ef), maxdiff(var, ev)),
                  dict(rp, cond=[pts[i], pts[j]], geo_scale=sc, model=name, got=f, expected=ef))


def check_bin_edges(col):
    """Inclusivity r_k <= d < r_k+1 where the float haversine value is exact (d = 0, d = pi)."""
    gs = _gs()
    pi = math.pi
    cases = [
        ("coincident", ([10.0, 10.0], [20.0, 20.0]), [0.0, 1.0], [1]),
        ("coincident", ([10.0, 10.0], [20.0, 20.0]), [0.5, 1.0], [0]),
        ("antipodal", ([0.0, 0.0], [0.0, 180.0]), [pi / 2, pi], [0]),
        ("antipodal", ([0.0, 0.0], [0.0, 180.0]), [pi, 4.0], [1]),
        ("antipodal", ([0.0, 0.0], [0.0, 180.0]), [0.0, pi, 3.5], [0, 1]),
        ("antipodal", ([0.0, 0.0], [-90.0, 90.0]), [1.0, pi, 3.5], [0, 1]),
    ]
    for name, pos, edges, exp in cases:
        _b, _g, cnt = gs.vario_estimate(pos, [1.0, 2.0], np.array(edges), latlon=True, return_counts=True)
        col.check(list(cnt) == exp, "vario_estimate:latlon:%s:bin-edge" % name,
                  "%s pair %s with bin edges %s (radians): counts %s, documented r_k <= d < r_k+1 gives %s"
                  % (name, pos, edges, list(cnt), exp), {"kind": "bin-edge", "pos": pos, "edges": edges})


def check_ll_srf(col, states, seed):
    """SRF of a lat-lon model at lattice points = SRF of the 3-D model at the spec's positions."""
    gs = _gs()
    by_r = {}
    for s in states:
        c = s["cfg"]
        if not c["temporal"]:
            by_r.setdefault(c["r"], []).append(s)
    for i, (r, sts) in enumerate(sorted(by_r.items())):
        R = 2.0 ** r
        name, kw = LL_MODELS[i % len(LL_MODELS)]
        lat = [float(s["cfg"]["lat"]) for s in sts]
        lon = [float(s["cfg"]["lon"]) for s in sts]
        pos = np.array([s["out"]["pos4"] for s in sts], dtype=float).T / 4.0
        m_ll = _mk_model(name, kw, latlon=True, geo_scale=R, len_scale=0.7 * R, var=2.0)
        m_3d = _mk_model(name, kw, dim=3, len_scale=0.7 * R, var=2.0)
        f1 = gs.SRF(m_ll, seed=seed + i, mode_no=16)((lat, lon))
        f2 = gs.SRF(m_3d, seed=seed + i, mode_no=16)(pos)
        col.check(close(f1, f2, 1e-11), "srf-latlon:lattice:sphere-positions",
                  "SRF of the lat-lon model (%s, geo_scale %s) at the lattice points differs from the 3-D model at the spec's "
                  "positions by %s" % (name, R, maxdiff(f1, f2)), {"kind": "ll-srf", "r": r, "model": name})


def check_st_set(col, k, S, s, seed):
    """lat-lon + time model on a set of space-time lattice points."""
    gs = _gs()
    o = s["out"]
    pts = S["pts"]
    n = len(pts)
    R, ts = 2.0 ** S["r"], 2.0 ** S["te"]
    pos = np.array(o["pos4"], dtype=float).T / 4.0
    d = np.sqrt(np.array(o["d2x16"], dtype=float) / 16.0)
    name, kw = LL_MODELS[k % len(LL_MODELS)]
    rp = {"kind": "st", "set": S, "model": name}
    ll = (np.array([p[0] for p in pts], float), np.array([p[1] for p in pts], float), np.array([p[2] for p in pts], float))
    m = _mk_model(name, kw, latlon=True, temporal=True, geo_scale=R, len_scale=1.5 * R, var=2.0, anis=[0.7, 1.3, ts],
                  angles=[0.4, 1.0, 0.3, 0.7, 0.2, 0.9])
    m4 = _mk_model(name, kw, dim=4, len_scale=1.5 * R, var=2.0)
    col.check(close(m.anis, [1.0, 1.0, ts], 0.0) and not np.any(m.angles), "model-latlon:temporal:forced-parameters",
              "lat-lon + time model keeps spatial anisotropy or angles: anis %s angles %s" % (list(m.anis), list(m.angles)), rp)
    got = m.isometrize(ll)
    col.check(close(got, pos, TOL * max(1.0, R)), "model-latlon:isometrize:temporal:set",
              "isometrize of space-time lattice points differs from the spec by %s" % maxdiff(got, pos), rp)
    f1 = gs.SRF(m, seed=seed + k, mode_no=16)(ll)
    f2 = gs.SRF(m4, seed=seed + k, mode_no=16)(pos)
    col.check(close(f1, f2, 1e-11), "srf-latlon:temporal:spacetime-positions",
              "SRF of the lat-lon + time model differs from the 4-D isotropic model at the spec's positions by %s" % maxdiff(f1, f2), rp)
    # two data points, hand-assembled simple kriging with the covariance of the spec's exact space-time distances
    i, j, v1, v2 = 0, 1, 1.5, -0.5
    kr = gs.krige.Simple(m, cond_pos=[x[:2] for x in ll], cond_val=[v1, v2], mean=0.0)
    f, var = kr(ll)
    cv = lambda a, b: float(m.covariance(d[a, b]))  # noqa: E731
    c0, c12 = float(m.covariance(0.0)), cv(i, j)
    det = c0 * c0 - c12 * c12
    ef, ev = [], []
    for t in range(n):
        c1t, c2t = cv(i, t), cv(j, t)
        w1, w2 = (c0 * c1t - c12 * c2t) / det, (c0 * c2t - c12 * c1t) / det
        ef.append(w1 * v1 + w2 * v2)
        ev.append(max(c0 - (w1 * c1t + w2 * c2t), 0.0))
    col.check(close(f, ef, KTOL) and close(var, ev, KTOL), "krige-latlon:temporal:spacetime-distance",
              "simple kriging with the lat-lon + time model differs from the weights built from the spec's space-time distances "
              "(chord on the sphere of radius %s, time / %s): field %s, variance %s" % (R, ts, maxdiff(f, ef), maxdiff(var, ev)),
              dict(rp, got=f, expected=ef))
    check_st_history(col, k, S, s, seed, m, m4, name)


def check_st_history(col, k, S, s, seed, m, m4, name):
    """Uses of ONE lat-lon + time model / SRF / Krige / CondSRF object with stored positions (float64 arrays and tuples):
    repeated identical calls, calls re-using the stored positions, set_condition() without arguments, reading pos /
    cond_pos.  Nothing is assigned, so every answer is the one the spec gives for the (unchanged) positions, and the
    stored arrays stay what the caller passed."""
    from gstools.tools import geometric as g

    gs = _gs()
    o = s["out"]
    pts = S["pts"]
    R, ts = 2.0 ** S["r"], 2.0 ** S["te"]
    pos = np.array(o["pos4"], dtype=float).T / 4.0
    rp = {"kind": "st-history", "set": S, "model": name}
    what = "%s, geo_scale %s, time ratio %s" % (name, R, ts)
    nc = 2
    for form in ("ndarray", "tuple"):
        arr0 = np.array([[p[0] for p in pts], [p[1] for p in pts], [p[2] for p in pts]], dtype=np.double)
        arr = arr0.copy() if form == "ndarray" else tuple(list(row) for row in arr0.tolist())
        carr = arr0[:, :nc].copy() if form == "ndarray" else tuple(list(row) for row in arr0[:, :nc].tolist())
        tarr = arr0[:, nc:].copy() if form == "ndarray" else tuple(list(row) for row in arr0[:, nc:].tolist())
        same = lambda x, ref: np.array_equal(np.asarray(x, dtype=float).reshape(ref.shape), ref)  # noqa: E731
        key = "history-latlon:%s:" % form
        # the conversions themselves, twice on the same object
        for rnd in (1, 2):
            got = m.isometrize(arr)
            col.check(close(got, pos, TOL * max(1.0, R)) and same(arr, arr0), key + "isometrize",
                      "%s: isometrize, call %d on the same position %s: differs from the spec by %s / caller's array changed: %s"
                      % (what, rnd, form, maxdiff(got, pos), not same(arr, arr0)), rp)
            got = g.latlon2pos(arr, radius=R, temporal=True, time_scale=ts)
            col.check(close(got, pos, TOL * max(1.0, R)) and same(arr, arr0), key + "latlon2pos",
                      "%s: latlon2pos, call %d on the same position %s: differs from the spec by %s / caller's array changed: %s"
                      % (what, rnd, form, maxdiff(got, pos), not same(arr, arr0)), rp)
        # SRF: call with positions, then re-use the stored ones
        ref = gs.SRF(m4, seed=seed + k, mode_no=16)(pos)
        srf = gs.SRF(m, seed=seed + k, mode_no=16)
        res = [srf(arr), srf(), srf()]
        col.check(all(close(r, ref, 1e-11) for r in res), key + "SRF:repeat",
                  "%s: SRF called with positions and then twice on the stored positions: deviations from the 4-D model at the spec's "
                  "positions %s" % (what, [maxdiff(r, ref) for r in res]), rp)
        col.check(same(srf.pos, arr0) and same(arr, arr0), key + "SRF:stored-pos",
                  "%s: the stored SRF.pos / the caller's positions changed: stored times %s, given %s"
                  % (what, np.asarray(srf.pos)[2].tolist(), arr0[2].tolist()), rp)
        # Krige: call, call on stored pos, refresh, call again, read cond_pos
        vals = [1.5, -0.5]
        kref = gs.krige.Simple(m4, cond_pos=pos[:, :nc], cond_val=vals, mean=0.0)
        fr, vr = kref(pos)
        kr = gs.krige.Simple(m, cond_pos=carr, cond_val=vals, mean=0.0)
        res = [kr(arr), kr()]
        kr.set_condition()
        res += [kr(), kr(arr)]
        col.check(all(close(f, fr, KTOL) and close(v, vr, KTOL) for f, v in res), key + "Krige:repeat",
                  "%s: kriging with positions, on the stored positions, after set_condition() and with positions again: field "
                  "deviations from the 4-D model at the spec's positions %s" % (what, [maxdiff(f, fr) for f, _v in res]), rp)
        col.check(same(kr.cond_pos, arr0[:, :nc]) and same(kr.pos, arr0) and same(carr, arr0[:, :nc]) and same(arr, arr0),
                  key + "Krige:stored-pos", "%s: the stored cond_pos / pos or the caller's arrays changed: cond_pos times %s, given %s"
                  % (what, np.asarray(kr.cond_pos)[2].tolist(), arr0[2, :nc].tolist()), rp)
        # CondSRF at the data-free points, twice
        cref = gs.CondSRF(kref, seed=seed, mode_no=8)(pos[:, nc:])
        cs = gs.CondSRF(gs.krige.Simple(m, cond_pos=carr, cond_val=vals, mean=0.0), seed=seed, mode_no=8)
        res = [cs(tarr), cs(), cs(tarr)]
        col.check(all(close(r, cref, KTOL) for r in res), key + "CondSRF:repeat",
                  "%s: conditioned field with positions, on the stored positions, with positions again: deviations from the 4-D model "
                  "at the spec's positions %s" % (what, [maxdiff(r, cref) for r in res]), rp)
        col.check(same(cs.pos, arr0[:, nc:]) and same(cs.krige.cond_pos, arr0[:, :nc]) and same(tarr, arr0[:, nc:]),
                  key + "CondSRF:stored-pos", "%s: the stored positions of the CondSRF / its Krige object changed" % what, rp)


def check_oct_set(col, k, pts, states, seed, tier):
    """Kriging of lat-lon data is invariant under the 24 rotations of the octahedron and under lon + 360 k;
    SRF / CondSRF are unchanged under lon + 360 k."""
    gs = _gs()
    ncond = 4
    rr = random.Random(seed * 1000 + k)
    lat = np.array([p[0] for p in pts], float)
    lon = np.array([p[1] for p in pts], float)
    tt = np.array([rr.randrange(-2, 3) for _ in pts], float)
    vals = [1.0, -2.0, 3.0, 0.5]
    name, kw = LL_MODELS[k % len(LL_MODELS)]
    sname, sc = _scales()[k % 4]
    models = {
        "spatial": _mk_model(name, kw, latlon=True, geo_scale=sc, len_scale=0.6 * sc, var=2.0, nugget=0.1),
        "temporal": _mk_model(name, kw, latlon=True, temporal=True, geo_scale=sc, len_scale=0.6 * sc, var=2.0, anis=[1, 1, 2.0 / sc]),
    }

    def krig(kind, K, la, lo):
        m = models[kind]
        pos = (la, lo) if kind == "spatial" else (la, lo, tt)
        kr = K(m, cond_pos=[x[:ncond] for x in pos], cond_val=vals, **({"mean": 0.3} if K is gs.krige.Simple else {}))
        return kr(pos), kr

    base = {}
    for kind in models:
        for K in (gs.krige.Simple, gs.krige.Ordinary):
            base[(kind, K)] = krig(kind, K, lat, lon)[0]
    for s in states:
        A = np.array(s["out"]["mat"], dtype=float)
        img = s["out"]["img"]
        la = np.array([p[0] for p in img], float)
        lo = np.array([p[1] for p in img], float)
        for p, q in zip(pts, img):  # oracle self-check (never a violation)
            if np.max(np.abs(A @ _unit(*p) - _unit(*q))) > 1e-12:
                raise tlc.MachineryError("spec image %s of %s under %s is not the rotated point" % (q, p, A.tolist()))
        for (kind, K), (f0, v0) in base.items():
            (f, v), _kr = krig(kind, K, la, lo)
            col.check(close(f, f0, KTOL) and close(v, v0, KTOL), "krige-latlon:%s:rotation-invariance" % kind,
                      "%s kriging (%s, geo_scale %s) changes under the rotation %s of all points: field by %s, variance by %s"
                      % (K.__name__, name, sname, A.astype(int).tolist(), maxdiff(f, f0), maxdiff(v, v0)),
                      {"kind": "oct", "points": pts, "images": img, "matrix": A, "model": name, "geo_scale": sc, "krige": K.__name__})
        col.nontrivial.add(("oct", k, tuple(map(tuple, A.astype(int).tolist()))))
    # lon -> lon + 360 k, k chosen per point
    for trial in range(3):
        sh = np.array([360.0 * rr.choice([-2, -1, 1, 2]) for _ in pts])
        for (kind, K), (f0, v0) in base.items():
            (f, v), kr = krig(kind, K, lat, lon + sh)
            col.check(close(f, f0, KTOL) and close(v, v0, KTOL), "krige-latlon:%s:lon-shift" % kind,
                      "%s kriging changes under lon + 360k: field by %s, variance by %s" % (K.__name__, maxdiff(f, f0), maxdiff(v, v0)),
                      {"kind": "oct-shift", "points": pts, "shift": sh, "model": name})
        for kind, m in models.items():
            pos0 = (lat, lon) if kind == "spatial" else (lat, lon, tt)
            pos1 = (lat, lon + sh) if kind == "spatial" else (lat, lon + sh, tt)
            m0 = _mk_model(name, kw, latlon=True, temporal=(kind == "temporal"), geo_scale=sc, len_scale=0.6 * sc, var=2.0)
            f0 = gs.SRF(m0, seed=seed + trial, mode_no=16)(pos0)
            f1 = gs.SRF(m0, seed=seed + trial, mode_no=16)(pos1)
            col.check(close(f1, f0, KTOL), "srf-latlon:%s:lon-shift" % kind, "SRF changes by %s under lon + 360k" % maxdiff(f1, f0),
                      {"kind": "srf-shift", "points": pts, "shift": sh, "model": name})
            if trial == 0:
                k0 = gs.krige.Ordinary(m0, cond_pos=[x[:ncond] for x in pos0], cond_val=vals)
                k1 = gs.krige.Ordinary(m0, cond_pos=[x[:ncond] for x in pos1], cond_val=vals)
                c0 = gs.CondSRF(k0, seed=seed, mode_no=16)([x[ncond:] for x in pos0])
                c1 = gs.CondSRF(k1, seed=seed, mode_no=16)([x[ncond:] for x in pos1])
                col.check(close(c1, c0, KTOL), "condsrf-latlon:%s:lon-shift" % kind,
                          "conditioned field changes by %s under lon + 360k" % maxdiff(c1, c0),
                          {"kind": "condsrf-shift", "points": pts, "shift": sh, "model": name})


def _work_sphere(job):
    kind = job[0]
    col = _Collect()
    if kind == "ll":
        for s in job[1]:
            check_ll_state(col, s)
            col.nontrivial.add(("ll", tlaval.freeze(s["cfg"])))
    elif kind == "llgen":
        for i in job[1]:
            check_ll_general(col, i, job[2])
            col.nontrivial.add(("llgen", i))
    elif kind == "gc":
        _k, k, fam, pts, vals, s, tier = job
        check_gc_set(col, k, fam, pts, vals, s, tier)
        col.nontrivial.add(("gc", k))
    elif kind == "st":
        _k, k, S, s, seed = job
        check_st_set(col, k, S, s, seed)
        col.nontrivial.add(("st", k))
    elif kind == "oct":
        _k, k, pts, states, seed, tier = job
        check_oct_set(col, k, pts, states, seed, tier)
    elif kind == "misc":
        check_bin_edges(col)
        check_ll_srf(col, job[1], job[2])
        col.nontrivial.add(("misc",))
    return col


def run_c13(rep, tier, seed):
    thorough = tier == "thorough"
    rng = random.Random(seed)
    procs = _procs(tier)
    rep.assumptions += [
        "lat-lon inputs are on exact lattices: octahedral (multiples of 90 degrees), integer degrees on the equator / on a meridian circle "
        "(great-circle distance is an exact integer), integer degrees on the three coordinate great circles (octahedral rotations map them "
        "onto each other exactly); sphere radius and time ratio are powers of two where positions are compared",
        "cov_yadrenko(zeta) == covariance(2R sin(zeta/2R)) is checked as a relation between implementation outputs (the argument is mapped "
        "with math.sin); at 0/60/90/120/180 degrees the chord is exact (sqrt of the spec's rational) and decides alone",
        "rotation invariance is required of kriging only (a RandMeth realisation is not rotation invariant); SRF/CondSRF are replayed under lon+360k",
        "quarter-turn angles / dyadic ratios for the spatio-temporal (non lat-lon) models as in C12",
    ]
    gcsets = gen_gc_sets(rng, 50 if thorough else 20)
    octsets = gen_oct_sets(rng, 10 if thorough else 3)
    stsets = gen_st_sets(rng, 24 if thorough else 8)
    with tlc.Scratch() as sc:
        jobs = []

        def add_lin(tag, dims, qsets, exps):
            mod, cfg = lin_module("MC_" + tag, "tmp", dims, qsets, exps)
            sc.write("MC_%s.tla" % tag, mod)
            jobs.append((("tmp", tag), sc, "MC_" + tag, _cfg_inv(cfg, LIN_INVS),
                         dict(workers=1, timeout=1500, heap="2g", dump=("states", sc.path(tag + ".dump")))))

        def add_sph(tag, mode, **kw):
            mod, cfg = sphere_module("MC_" + tag, mode, **kw)
            sc.write("MC_%s.tla" % tag, mod)
            jobs.append(((mode, tag), sc, "MC_" + tag, cfg,
                         dict(workers=1, timeout=1500, heap="2g", dump=("states", sc.path(tag + ".dump")))))

        add_lin("t2", [2], FULLQ, {2: _expvecs(2)})
        for q1 in range(4):
            add_lin("t3q%d" % q1, [3], [[q1]] + FULLQ[1:], {3: _expvecs(3)})
        if thorough:
            es4 = rng.sample(_expvecs(4), 9)
            for ei, es in enumerate(es4):
                for q1 in range(4):
                    add_lin("t4e%dq%d" % (ei, q1), [4], [[q1]] + FULLQ[1:], {4: [es]})
        else:
            es4 = ES4_QUICK
            stq = [[0, rng.choice([1, 2, 3])] for _ in range(3)]
            for q1 in range(4):
                add_lin("t4q%d" % q1, [4], [[q1]] + FULLQ[1:3] + stq, {4: es4})
        scripts = gen_scripts(rng, 90 if thorough else 30, True, 8 if thorough else 5)
        jobs.append(hist_tlc_job(sc, "tmp", scripts, "hist"))
        add_sph("ll", "ll", lats=(-90, 0, 90), lons=range(-360, 541, 90), times=(-1, 0, 3), radexp=(-1, 0, 1), timeexp=(-1, 0, 1))
        add_sph("gc", "gc", pointsets=[p for _f, p, _v in gcsets], values=[v for _f, _p, v in gcsets], autobins=AUTOBINS)
        add_sph("oct", "oct", pointsets=octsets, values=[[0] * len(p) for p in octsets])
        add_sph("st", "st", stsets=stsets)
        t0 = time.time()
        results = tlc.run_many(jobs, parallel=procs)
        print("TLC: %d jobs in %.1fs" % (len(jobs), time.time() - t0))
        _design_violations(rep, results, lambda k: {"tmp": "Geometry.%s[%s]", "hist": "GeometryHist.%s[%s]"}.get(k[0], "GeometrySphere.%s[%s]") % k)
        t0 = time.time()
        hjobs = hist_jobs(sc, "tmp", scripts, "hist")
        for col in _run_pool(_work_hist, hjobs, procs):
            _merge(rep, col)
        nfit = 12 if thorough else 4
        fitnotes = []
        for col in _run_pool(_work_fit, [([i], seed, True) for i in range(nfit)], procs):
            _merge(rep, col)
            fitnotes += col.notes
        for msg in fitnotes:
            rep.note(msg)
        rep.traces += len(hjobs) + nfit
        rep.sample({"history_script_temporal": scripts[0], "spec_states": [s["cfg"] for s in sorted(hjobs[0][3], key=lambda x: x["step"])]})
        print("replayed %d scripted histories of spatio-temporal models (%d states) + %d in-place variogram fits in %.1fs"
              % (len(hjobs), sum(len(j[3]) for j in hjobs), nfit, time.time() - t0))
        rep.extra["history_scripts"] = len(hjobs)
        t0 = time.time()
        ll = read_dump(sc.path("ll.dump"))
        gc = sorted(read_dump(sc.path("gc.dump")), key=lambda s: s["cfg"]["k"])
        oc = read_dump(sc.path("oct.dump"))
        stt = sorted(read_dump(sc.path("st.dump")), key=lambda s: s["cfg"]["k"])
        print("parsed %d + %d + %d + %d sphere configurations in %.1fs" % (len(ll), len(gc), len(oc), len(stt), time.time() - t0))
        # ---- spatio-temporal (non lat-lon) models: time axis
        opts = {"model_low": True, "pipe_low": thorough, "model": 1 if thorough else 2, "pipe": 16 if thorough else 6}
        wjobs = []
        for (mode, tag), r in sorted(results.items()):
            if mode == "tmp":
                nparts = max(1, r.distinct // (40 if thorough and tag.startswith("t3") else 128))
                wjobs += [("tmp", sc.path(tag + ".dump"), part, nparts, opts) for part in range(nparts)]
        t0 = time.time()
        tot = _collect_lin(rep, _run_pool(_work_lin, wjobs, procs))
    ng = 120 if thorough else 40
    for col in _run_pool(_work_general, [(list(range(i, ng, procs)), seed, True) for i in range(procs)], procs):
        _merge(rep, col)
    rep.traces += tot["states"] + ng
    print("time axis: replayed %d configurations (%d on CovModel, %d through the pipelines) + %d general in %.1fs"
          % (tot["states"], tot["model"], tot["pipe"], ng, time.time() - t0))
    # ---- sphere
    t0 = time.time()
    ngen = 300 if thorough else 100
    sjobs = [("ll", ll[i::procs]) for i in range(procs)]
    sjobs += [("llgen", list(range(i, ngen, 4)), seed) for i in range(4)]
    sjobs += [("gc", k, gcsets[k][0], gcsets[k][1], gcsets[k][2], gc[k], tier) for k in range(len(gcsets))]
    sjobs += [("st", k, stsets[k], stt[k], seed) for k in range(len(stsets))]
    for k in range(len(octsets)):
        sts = [s for s in oc if s["cfg"]["k"] == k + 1]
        for part in range(4):
            sjobs.append(("oct", k, octsets[k], sts[part::4], seed, tier))
    sjobs.append(("misc", ll, seed))
    for col in _run_pool(_work_sphere, sjobs, procs):
        _merge(rep, col)
    rep.traces += len(ll) + ngen + len(gcsets) + len(stsets) + len(oc) + 1
    print("sphere: replayed %d lattice points, %d general points, %d distance sets, %d space-time sets, %d (rotation, set) pairs in %.1fs"
          % (len(ll), ngen, len(gcsets), len(stsets), len(oc), time.time() - t0))
    for s in ll[:2]:
        rep.sample({"latlon_lattice": s["cfg"], "spec_pos_quarters": s["out"]["pos4"], "spec_back": s["out"]["back"]})
    rep.sample({"distance_family": gcsets[0][0], "points": gcsets[0][1], "spec_histogram_deg_count_sumsq": sorted(map(list, gc[0]["out"]["hist"]))})
    rep.sample({"octahedral_rotation": oc[0]["out"]["mat"], "points": octsets[oc[0]["cfg"]["k"] - 1], "spec_images": oc[0]["out"]["img"]})
    rep.sample({"spacetime_set": stsets[0], "spec_d2_sixteenths": stt[0]["out"]["d2x16"]})
    rep.extra.update({"time_axis_configurations": tot["states"], "time_axis_through_pipelines": tot["pipe"], "lattice_points": len(ll), "distance_sets": len(gcsets),
                      "rotation_set_pairs": len(oc), "spacetime_sets": len(stsets), "general_points_sets": ngen})
    return rep.finish(
        level="model_checking",
        rule="traces = TLC configurations replayed on the real code: (dim, requested angles, ratios) of spatio-temporal models; lattice "
             "lat-lon(-time) points x radius x time ratio; point sets with exact great-circle distances (vario_estimate in 4 geo_scales, "
             "Yadrenko, 2-point kriging); (octahedral rotation, point set) pairs (kriging invariance); space-time lattice sets; "
             "+ seeded general points / angle vectors.  distinct non-trivial = distinct configurations",
        exhaustive=False)


# ---------------------------------------------------------------------------


def run(pid, tier, seed, replay=None):
    rep = Report(pid, tier, seed)
    if replay:
        return _replay(replay)
    if pid == "C12":
        return run_c12(rep, tier, seed)
    return run_c13(rep, tier, seed)


def _replay(path):
    """Re-execute one recorded case: TLC recomputes the expected values of that configuration."""
    rec = json.load(open(path))
    rp = rec["replay"]
    print("replay of %s  key=%s\n  %s" % (rec["property"], rec["key"], rec["what"][:600]))
    kind = rp.get("kind")
    col = _Collect()
    if kind in ("functions", "model", "pipeline"):
        d, temporal = rp["d"], bool(rp.get("temporal"))
        with tlc.Scratch() as sc:
            mod, cfg = lin_module("MC_replay", "tmp" if temporal else "lin", [d],
                                  [[q] for q in rp["qs"]] + [[0]] * (6 - len(rp["qs"])), {d: [rp["es"]]})
            sc.write("MC_replay.tla", mod)
            r = tlc.must_pass(tlc.run(sc, "MC_replay", _cfg_inv(cfg, LIN_INVS), workers=1, timeout=600,
                                      dump=("states", sc.path("r.dump"))), "replay")
            st = read_lin_dump(sc.path("r.dump"))[0]
        print("  TLC: %r\n  spec state: %s" % (r, {k: st[k] for k in ("d", "qs", "eqs", "es", "rot", "isoX", "anisoX", "rad2")}))
        if not temporal:
            check_functions(col, st)
        for lexp in LENEXP:
            check_model(col, st, lexp, temporal=temporal)
        for idx in range(14):
            check_pipeline(col, st, idx, temporal=temporal)
    elif kind == "general":
        check_general(col, rp["idx"], rp["seed"], temporal=bool(rp.get("temporal")))
    elif kind == "ll-general":
        check_ll_general(col, rp["idx"], rp["seed"])
    elif kind == "bin-edge":
        check_bin_edges(col)
    else:
        print("  recorded inputs (re-run ./check to regenerate the TLC values):")
        print(json.dumps(rp, indent=1)[:6000])
        return 0
    for key, what, _r in col.violations:
        print("  REPRODUCED key=%s: %s" % (key, what[:400]))
    print("  %d evaluations, %d violating keys" % (col.evals, len(col.violations)))
    return 1 if col.violations else 0
