"""C15 / C16: Kernels.tla + generated Omp_<kernel>.tla bound to the compiled kernels of GSTools.

C15
 1. defining sums: TLC (spec/Kernels.tla) computes the exact result of every kernel for lattice
    inputs (seeded cases of every shape 0/1..4, dims 1..4, and complete small boxes enumerated by
    TLC itself); every (input, expected) state is replayed through
      - the shipped compiled kernel, - the Python wrapper that dispatches to it,
      - a plain interpretation of the *current* .pyx (harness/pyx/rewriter),
      - the OpenMP build of the generated C for num_threads in {None,1,2,3,4,8,16} (bitwise equal).
    Seeded random float inputs (up to a few thousand points): interpreted source is the reference
    for the compiled artefact (1e-12), thread counts are compared bitwise.
 2. schedules: for every prange region of the current .pyx a model Omp_<kernel> is generated
    (harness/pyx/ir + emit) and TLC checks RaceFree / OrderDeterministic / SerialEquivalent /
    PrivatesInitialised over all assignments of iterations to 3 threads and all interleavings.
 3. diagnostics (DRIFT only): source lines embedded in the generated C vs the current .pyx,
    #pragma omp clauses vs the IR's private / reduction classification.
C16
 projector identity in TLC on the documented projector and on the expression extracted from the
 current .pyx; single-mode probing of all implementations against TLC's p(k); k.p(k) = 0 for lattice
 and random k; analytic divergence of SRF(generator="VectorField") fields assembled from the
 generator's own modes and the probed projector; mean and scaling clauses.
"""
PROPERTIES = ("C15", "C16")

import json
import math
import multiprocessing as mp
import os
import random
import shutil
import tempfile
import time
from concurrent.futures import ThreadPoolExecutor

import numpy as np

from .. import tlc, tlaval
from ..report import Report
from ..pyx import rewriter, ir as irmod, emit as emitmod, artefact, proj as projmod

KERNEL_FILES = (
    ("field/summator.pyx", "gstools.field.summator"),
    ("krige/krigesum.pyx", "gstools.krige.krigesum"),
    ("variogram/estimator.pyx", "gstools.variogram.estimator"),
)
THREADS = (None, 1, 2, 3, 4, 8, 16)
WRAPPER_THREADS = (None, 1, 2, 4, 8, 16)
HALF_PI = math.pi / 2
NPROC = int(os.environ.get("VERIF_PROCS", "12"))
NTLC = int(os.environ.get("VERIF_TLC_PARALLEL", "8"))

# kernel -> (file index, wrapper module, wrapper name)
KERNELS = {
    "summate": (0, "gstools.field.generator", "_summate"),
    "summate_incompr": (0, "gstools.field.generator", "_summate_incompr"),
    "summate_fourier": (0, "gstools.field.generator", "_summate_fourier"),
    "calc_field_krige": (1, "gstools.krige.base", "_calc_field_krige"),
    "calc_field_krige_and_variance": (1, "gstools.krige.base", "_calc_field_krige_and_variance"),
    "unstructured": (2, "gstools.variogram.variogram", "_unstructured"),
    "directional": (2, "gstools.variogram.variogram", "_directional"),
    "structured": (2, "gstools.variogram.variogram", "_structured"),
    "ma_structured": (2, "gstools.variogram.variogram", "_ma_structured"),
}

Z = np.zeros
# tiny arguments on which the prelude of each kernel is run to obtain the extents of its Omp model
# (worksharing extent 3, every other loop 2 iterations (3 point pairs in the estimators): whichever loop a
# changed source shares out has several iterations)
MODEL_ARGS = {
    "summate": lambda: dict(cov_samples=Z((2, 2)), z_1=Z(2), z_2=Z(2), pos=Z((2, 3))),
    "summate_incompr": lambda: dict(cov_samples=Z((2, 2)), z_1=Z(2), z_2=Z(2), pos=Z((2, 3))),
    "summate_fourier": lambda: dict(spectrum_factor=Z(2), modes=Z((2, 2)), z_1=Z(2), z_2=Z(2), pos=Z((2, 3))),
    "calc_field_krige": lambda: dict(krig_mat=Z((2, 2)), krig_vecs=Z((2, 3)), cond=Z(2)),
    "calc_field_krige_and_variance": lambda: dict(krig_mat=Z((2, 2)), krig_vecs=Z((2, 3)), cond=Z(2)),
    "unstructured": lambda: dict(f=Z((1, 3)), bin_edges=Z(4), pos=Z((1, 3))),
    "directional": lambda: dict(f=Z((1, 3)), bin_edges=Z(4), pos=Z((2, 3)), direction=Z((1, 2))),
    "structured": lambda: dict(f=Z((4, 2))),
    "ma_structured": lambda: dict(f=Z((4, 2)), mask=Z((4, 2), dtype=np.uint8)),
}


def src_root():
    import gstools

    return os.path.dirname(gstools.__file__)


# thorough: a second, larger model per kernel (worksharing extent 4, others up to 3)
MODEL_ARGS_BIG = {
    "summate": lambda: dict(cov_samples=Z((2, 3)), z_1=Z(3), z_2=Z(3), pos=Z((2, 4))),
    "summate_incompr": lambda: dict(cov_samples=Z((2, 2)), z_1=Z(2), z_2=Z(2), pos=Z((2, 4))),
    "summate_fourier": lambda: dict(spectrum_factor=Z(3), modes=Z((2, 3)), z_1=Z(3), z_2=Z(3), pos=Z((2, 4))),
    "calc_field_krige": lambda: dict(krig_mat=Z((3, 3)), krig_vecs=Z((3, 4)), cond=Z(3)),
    "calc_field_krige_and_variance": lambda: dict(krig_mat=Z((2, 2)), krig_vecs=Z((2, 4)), cond=Z(2)),
    "unstructured": lambda: dict(f=Z((2, 3)), bin_edges=Z(4), pos=Z((1, 3))),
    "directional": lambda: dict(f=Z((1, 3)), bin_edges=Z(4), pos=Z((2, 3)), direction=Z((2, 2))),
    "structured": lambda: dict(f=Z((5, 2))),
    "ma_structured": lambda: dict(f=Z((5, 1)), mask=Z((5, 1), dtype=np.uint8)),
}


# scale exponents of the lattice inputs (amplitudes times 2^se: 1e-12, 1e-18, 1e-60, 1e-90 / 1e12, 1e60 roughly)
SCALE_EXPS = (-40, -60, -200, -300, 40, 200)
# scales of the random float inputs
SCALES = (1e-12, 1e-18, 1e-150, 1e12, 1e150)


# ---------------------------------------------------------------------------
# lattice inputs (records of Kernels.tla)


def _ri(rng, lo, hi, n):
    return [rng.randint(lo, hi) for _ in range(n)]


def _vecs(rng, lo, hi, n, d, nonzero=False):
    out = []
    while len(out) < n:
        v = _ri(rng, lo, hi, d)
        if nonzero and not any(v):
            continue
        out.append(v)
    return out


def lattice_cases(rng, tier):
    """Seeded lattice inputs: every shape 0/1..4 in every dimension."""
    draws = 1 if tier == "quick" else 3
    cases = {k: [] for k in ("summate", "fourier", "incompr", "krige", "vario_u", "vario_s", "vario_d")}
    for d in (2, 3):
        for npts in (2, 4, 6, 7):
            for ndir in (1, 2, 3, 4):
                for _ in range(draws * 2):
                    dirs = _vecs(rng, -3, 3, ndir, d, nonzero=True)
                    if ndir >= 2 and rng.random() < 0.6:
                        # nearly opposite / obtuse pair: the reversed direction, slightly turned -- put at ANY two
                        # places of the list (neighbours or not)
                        a, b = rng.sample(range(ndir), 2)
                        dirs[b] = [-3 * c for c in dirs[a]]
                        dirs[b][rng.randrange(d)] += rng.choice([-1, 1])
                    cases["vario_d"].append(dict(kind="vario_d", d=d, pos=_vecs(rng, -3, 3, npts, d), f=_vecs(rng, -3, 3, rng.choice([1, 2]), npts),
                                                 edges=sorted(rng.sample(range(0, 7), rng.randint(2, 4))), dirs=dirs, tol=rng.choice([1, 1, 3])))
    for d in range(1, 5):
        for n in range(0, 5):
            for m in range(0, 5):
                for _ in range(draws):
                    base = dict(d=d, k=_vecs(rng, -3, 3, n, d), z1=_ri(rng, -3, 3, n), z2=_ri(rng, -3, 3, n),
                                x=_vecs(rng, -3, 3, m, d))
                    cases["summate"].append(dict(kind="summate", **base))
                    if (d + n + m) % 3 == 0 and n:
                        cases["summate"].append(dict(kind="summate", se=rng.choice(SCALE_EXPS), **base))
                    base = dict(d=d, k=_vecs(rng, -3, 3, n, d), z1=_ri(rng, -3, 3, n), z2=_ri(rng, -3, 3, n),
                                x=_vecs(rng, -3, 3, m, d), sf=_ri(rng, 0, 3, n))
                    cases["fourier"].append(dict(kind="fourier", **base))
                    if (d + n + m) % 2 == 0 and n:
                        cases["fourier"].append(dict(kind="fourier", se=rng.choice(SCALE_EXPS), **base))
                    if n <= 3:
                        base = dict(d=d, k=_vecs(rng, -2, 2, n, d, nonzero=True), z1=_ri(rng, -3, 3, n),
                                    z2=_ri(rng, -3, 3, n), x=_vecs(rng, -3, 3, m, d))
                        cases["incompr"].append(dict(kind="incompr", **base))
                        if (d + n + m) % 3 == 1 and n:
                            cases["incompr"].append(dict(kind="incompr", se=rng.choice(SCALE_EXPS), **base))
    for n in range(0, 5):
        for m in range(0, 5):
            for _ in range(draws * 3):
                if n and m and (n + m) % 2 == 0:
                    cases["krige"].append(dict(kind="krige", m=m, se=rng.choice(SCALE_EXPS), mat=_vecs(rng, -3, 3, n, n),
                                               vecs=_vecs(rng, -3, 3, n, m), cond=_ri(rng, -3, 3, n)))
                cases["krige"].append(dict(kind="krige", m=m, mat=_vecs(rng, -3, 3, n, n), vecs=_vecs(rng, -3, 3, n, m),
                                           cond=_ri(rng, -3, 3, n)))
    for d in range(1, 4):
        for npts in range(0, 6):
            for nf in (1, 2):
                for _ in range(draws):
                    ne = rng.randint(2, 4)
                    edges = sorted(rng.sample(range(0, 6), ne))
                    cases["vario_u"].append(dict(kind="vario_u", d=d, pos=_vecs(rng, -2, 2, npts, d),
                                                 f=_vecs(rng, -3, 3, nf, npts), edges=edges))
    for rows in range(0, 5):
        for cols in range(0, 4):
            for _ in range(draws):
                cases["vario_s"].append(dict(kind="vario_s", cols=cols, f=_vecs(rng, -3, 3, rows, cols)))
    return cases


def _boxes(tier):
    """TLA+ text of the complete boxes enumerated by TLC itself, per kind."""
    big = tier == "thorough"
    mode = ("\\E k \\in [1..n -> [1..d -> QB]], z1 \\in [1..n -> ZB], z2 \\in [1..n -> ZB], "
            "x \\in [1..m -> [1..d -> XB]] :")
    shapes_s = "{<<1, 0, 1>>, <<1, 1, 0>>, <<1, 1, 1>>, <<1, 2, 2>>, <<2, 1, 1>>%s}" % (", <<2, 2, 1>>, <<3, 1, 1>>" if big else "")
    shapes_f = "{<<1, 1, 1>>, <<1, 2, 1>>, <<2, 1, 1>>%s}" % (", <<2, 2, 1>>" if big else "")
    shapes_i = "{<<2, 1, 1>>, <<3, 1, 1>>%s}" % (", <<2, 2, 1>>" if big else "")
    return {
        "summate": (
            "QB == {-1, 0, 1, 2}\nZB == {1, -2}\nXB == %s\n"
            "Box == \\E s \\in %s : LET d == s[1] n == s[2] m == s[3] IN %s\n"
            "         inp = [kind |-> \"summate\", d |-> d, k |-> k, z1 |-> z1, z2 |-> z2, x |-> x]\n"
            % ("{-1, 0, 1, 3}" if big else "{-1, 0, 3}", shapes_s, mode)),
        "fourier": (
            "QB == %s\nZB == {1, -2}\nXB == {-1, 0, 2}\nSB == %s\n"
            "Box == \\E s \\in %s : LET d == s[1] n == s[2] m == s[3] IN %s\n"
            "         \\E sf \\in [1..n -> SB] :\n"
            "         inp = [kind |-> \"fourier\", d |-> d, k |-> k, z1 |-> z1, z2 |-> z2, x |-> x, sf |-> sf]\n"
            % ("{-1, 0, 1, 2}" if big else "{-1, 0, 2}", "{0, 1, 3}" if big else "{1, 3}", shapes_f, mode)),
        "incompr": (
            "QB == {-2, -1, 0, 1, 2}\nZB == %s\nXB == {-1, 0, 1}\n"
            "Box == \\E s \\in %s : LET d == s[1] n == s[2] m == s[3] IN\n"
            "         \\E k \\in {kk \\in [1..n -> [1..d -> (IF d = 2 /\\ n = 1 THEN QB ELSE {-1, 0, 1})]] : \\A j \\in 1..n : Norm2(kk[j]) # 0},\n"
            "            z1 \\in [1..n -> ZB], z2 \\in [1..n -> ZB], x \\in [1..m -> [1..d -> (IF d = 2 THEN XB ELSE {0, 1})]] :\n"
            "         inp = [kind |-> \"incompr\", d |-> d, k |-> k, z1 |-> z1, z2 |-> z2, x |-> x]\n"
            % ("{0, 1, -2}" if big else "{1, -2}", shapes_i)),
        "krige": (
            "MB == {-1, 0, 2}\nVB == %s\n"
            "Box == \\E s \\in {<<1, 1>>, <<1, 2>>, <<2, 1>>} : LET n == s[1] m == s[2] IN\n"
            "         \\E mat \\in [1..n -> [1..n -> MB]], vecs \\in [1..n -> [1..m -> VB]], cond \\in [1..n -> VB] :\n"
            "         inp = [kind |-> \"krige\", m |-> m, mat |-> mat, vecs |-> vecs, cond |-> cond]\n"
            % ("{-1, 0, 2}" if big else "{-1, 2}")),
        "vario_u": (
            "PB == {0, 1, 3}\nFB == %s\n"
            "Box == \\E np \\in 2..3 : \\E pos \\in [1..np -> [1..1 -> PB]], f \\in [1..1 -> [1..np -> FB]] :\n"
            "         \\E edges \\in {<<0, 1, 2>>, <<1, 3>>, <<0, 2, 3, 4>>} :\n"
            "         inp = [kind |-> \"vario_u\", d |-> 1, pos |-> pos, f |-> f, edges |-> edges]\n"
            % ("{0, 1, -2}" if big else "{1, -2}")),
        "vario_s": (
            "FB == {0, 1, -2}\n"
            "Box == \\E s \\in {<<2, 1>>, <<3, 1>>, <<2, 2>>, <<3, 2>>} : \\E f \\in [1..s[1] -> [1..s[2] -> FB]] :\n"
            "         inp = [kind |-> \"vario_s\", cols |-> s[2], f |-> f]\n"),
        "krige_far": (
            "Box == \\E n \\in 1..3, unb \\in BOOLEAN, c0 \\in {1, 2} : \\E cond \\in [1..n -> {-1, 2}], mean \\in (IF unb THEN {0} ELSE {0, 3}) :\n"
            "         \\E tg \\in {<<0, 1, 0, n, 0>>, <<1, 0, 0>>, <<0>>, <<0, 0, n, 1>>} :\n"
            "         inp = [kind |-> \"krige_far\", unb |-> unb, c0 |-> c0, cond |-> cond, mean |-> mean, tg |-> tg]\n"),
        "vario_d": (
            "DB == {<<1, 0>>, <<0, 1>>, <<1, 1>>, <<-1, 0>>, <<-3, 1>>, <<-2, -1>>, <<3, 1>>}\n"
            "Clouds == {<< <<0, 0>>, <<3, -1>>, <<1, 0>>, <<2, 0>>, <<0, 2>>, <<-3, 1>> >>,\n"
            "           << <<0, 0>>, <<2, 1>>, <<-1, 1>>, <<1, 3>>, <<3, 0>> >>,\n"
            "           << <<1, 1>>, <<1, 1>>, <<-2, 0>>, <<0, -3>>, <<3, 1>>, <<2, 2>> >>}\n"
            "Cloud3 == << <<0, 0>>, <<3, -1>>, <<1, 0>>, <<2, 0>>, <<0, 2>>, <<-3, 1>>, <<1, 3>>, <<-1, 2>> >>\n"
            "DirSets == [1..2 -> DB] \\cup [1..3 -> DB]%s\n"
            "Box == \\E dirs \\in DirSets, tol \\in {1, 3} : \\E pos \\in (IF Len(dirs) = 2 THEN Clouds ELSE {Cloud3}) :\n"
            "         inp = [kind |-> \"vario_d\", d |-> 2, pos |-> pos, f |-> << [p \\in 1..Len(pos) |-> ((p * p) %% 5) - 2] >>,\n"
            "                edges |-> <<0, 2, 4, 7>>, dirs |-> dirs, tol |-> tol]\n"
            % (" \\cup [1..4 -> {<<1, 0>>, <<0, 1>>, <<-3, 1>>, <<1, 1>>}]" if big else "")),
        "vf_hist": (
            "Ops == {[op |-> \"mean\", v |-> 3], [op |-> \"mean\", v |-> -2], [op |-> \"var\", v |-> -50], [op |-> \"var\", v |-> 1],\n"
            "        [op |-> \"modes\", v |-> 9], [op |-> \"seed\", v |-> 11], [op |-> \"mean\", v |-> 1], [op |-> \"var\", v |-> 0],\n"
            "        [op |-> \"copy\", v |-> 0], [op |-> \"deepcopy\", v |-> 0], [op |-> \"pickle\", v |-> 0]}\n"
            "S0s == {[mean |-> 1, ve |-> 0, modes |-> 4, seed |-> 5], [mean |-> -3, ve |-> 1, modes |-> 4, seed |-> 5]}\n"
            "G(gv) == [op |-> \"gen\", v |-> gv]\n"
            "Box == \\E gv \\in 0..3, S0 \\in S0s :\n"
            "       \\/ \\E o1 \\in Ops, o2 \\in Ops : inp = [kind |-> \"vf_hist\", init |-> S0, ops |-> <<G(gv), o1, G((gv + 1) %% 4), o2, G(gv)>>]\n"
            "       \\/ \\E o1 \\in Ops, o2 \\in Ops : inp = [kind |-> \"vf_hist\", init |-> S0, ops |-> <<o1, o2, G(gv)>>]\n"
            "       \\/ inp = [kind |-> \"vf_hist\", init |-> S0, ops |-> <<G(gv)>>]\n"
            "%s" % ("       \\/ \\E o1 \\in Ops, o2 \\in Ops, o3 \\in Ops : inp = [kind |-> \"vf_hist\", init |-> S0, "
                    "ops |-> <<G(gv), o1, o2, G((gv + 2) % 4), o3, G(gv)>>]\n" if big else
                    "       \\/ (gv = 0 /\\ \\E o1 \\in Ops, o2 \\in {o \\in Ops : o.op \\in {\"copy\", \"deepcopy\", \"pickle\"}}, o3 \\in Ops : "
                    "inp = [kind |-> \"vf_hist\", init |-> S0, ops |-> <<G(0), o1, o2, G(2), o3, G(1)>>])\n")),
        "projector": (
            "Box == \\E d \\in 2..3 : \\E kv \\in [1..d -> -2..2] : inp = [kind |-> \"projector\", kv |-> kv]\n"),
    }


def mc_module(name, kind, cases, box, projdef):
    txt = "---- MODULE %s ----\nEXTENDS Kernels\n" % name
    txt += "McCases == <<\n  " + ",\n  ".join(tlaval.to_tla(dict(c, tag="seeded")) for c in cases) + "\n>>\n"
    txt += projdef + box
    txt += "McInit == (CaseInit \\/ Box) /\\ out = Result(inp)\n====\n"
    cfg = "CONSTANTS\n Cases <- McCases\n ProjSrc <- McProjSrc\nINIT McInit\nNEXT Next\n"
    if kind == "krige_far":
        cfg += "INVARIANT FarInverseOK\n"
    if kind == "projector":
        cfg += "INVARIANT Solenoidal\nINVARIANT ProjectorNorm\nINVARIANT ExtractedSolenoidal\nINVARIANT ExtractedIsProjector\n"
    return txt, cfg


# ---------------------------------------------------------------------------
# records -> float arrays, expected values


def _mat(rows, nrows, ncols):
    a = np.zeros((nrows, ncols), dtype=np.double)
    for i, r in enumerate(rows):
        a[i, :] = r
    return a


def _strided(a, flip):
    """Same values; alternately C-contiguous or a transposed view (memoryviews accept both)."""
    if not flip or a.ndim != 2:
        return np.ascontiguousarray(a)
    return np.asfortranarray(a)


def case_calls(inp, flip=False):
    """-> list of (kernel name, args tuple, extractor(out record) -> expected arrays, tolerance note)."""
    kind = inp["kind"]
    if kind in ("summate", "fourier", "incompr"):
        d, n, m = inp["d"], len(inp["k"]), len(inp["x"])
        cov = _strided(_mat(inp["k"], n, d).T * HALF_PI, flip)
        pos = _strided(_mat(inp["x"], m, d).T, flip)
        z1, z2 = np.array(inp["z1"], dtype=np.double), np.array(inp["z2"], dtype=np.double)
        sc = 2.0 ** inp.get("se", 0)
        if kind != "fourier":
            z1, z2 = z1 * sc, z2 * sc
        if kind == "summate":
            return [("summate", (cov, z1, z2, pos), lambda o: (np.array(o["field"], dtype=np.double),))]
        if kind == "fourier":
            sf = np.array(inp["sf"], dtype=np.double) * sc
            return [("summate_fourier", (sf, cov, z1, z2, pos), lambda o: (np.array(o["field"], dtype=np.double),))]

        def exp_inc(o):
            e = np.zeros((d, m))
            for c in range(d):
                for p in range(m):
                    num, den = o["field"][c][p]
                    e[c, p] = num / den
            return (e,)

        return [("summate_incompr", (cov, z1, z2, pos), exp_inc)]
    if kind == "krige":
        n, m = len(inp["mat"]), inp["m"]
        mat = _strided(_mat(inp["mat"], n, n), flip)
        vecs = _strided(_mat(inp["vecs"], n, m), flip)
        cond = np.array(inp["cond"], dtype=np.double) * 2.0 ** inp.get("se", 0)
        return [
            ("calc_field_krige_and_variance", (mat, vecs, cond),
             lambda o: (np.array(o["field"], dtype=np.double), np.array(o["error"], dtype=np.double))),
            ("calc_field_krige", (mat, vecs, cond), lambda o: (np.array(o["field"], dtype=np.double),)),
        ]
    if kind == "vario_u":
        npts, nf = len(inp["pos"]), len(inp["f"])
        pos = _strided(_mat(inp["pos"], npts, inp["d"]).T, flip)
        f = _strided(_mat(inp["f"], nf, npts), flip)
        edges = np.array(inp["edges"], dtype=np.double)

        def exp_u(o):
            v = np.array([s / (2.0 * max(c, 1)) for s, c in o["bins"]], dtype=np.double)
            c = np.array([c for _s, c in o["bins"]], dtype=np.int64)
            return (v, c)

        return [("unstructured", (f, edges, pos), exp_u)]
    if kind == "vario_s":
        rows = len(inp["f"])
        f = _strided(_mat(inp["f"], rows, inp["cols"]), flip)

        def exp_s(o):
            return (np.array([s / (2.0 * max(c, 1)) for s, c in o["bins"]], dtype=np.double),)

        return [("structured", (f,), exp_s),
                ("ma_structured", (f, np.zeros(f.shape, dtype=np.uint8)), exp_s)]
    if kind == "krige_far":
        return []  # handled by caller_krige_far (kernels on TLC's matrix + the public caller)
    if kind == "vario_d":
        npts, nf = len(inp["pos"]), len(inp["f"])
        pos = _strided(_mat(inp["pos"], npts, inp["d"]).T, flip)
        f = _strided(_mat(inp["f"], nf, npts), flip)
        edges = np.array(inp["edges"], dtype=np.double)
        dirs = np.array(inp["dirs"], dtype=np.double)
        dirs = dirs / np.sqrt((dirs * dirs).sum(axis=1))[:, None]

        def exp_d(o):
            v = np.array([[s_ / (2.0 * max(c, 1)) for s_, c in row] for row in o["dirs"]], dtype=np.double)
            c = np.array([[c for _s, c in row] for row in o["dirs"]], dtype=np.int64)
            return (v, c)

        # separate_dirs=False: the defining sum (every direction counts every pair of its cone)
        return [("directional", (f, edges, pos, dirs, inp["tol"] * math.pi / 8, -1.0, False, "m"), exp_d)]
    if kind == "vf_hist":
        return []
    if kind == "projector":
        kv = inp["kv"]
        d = len(kv)
        if not any(kv):
            return []
        cov = np.array(kv, dtype=np.double).reshape(d, 1) * HALF_PI

        def exp_p(o):
            return (np.array([[n / dd] for n, dd in o["p"]], dtype=np.double),)

        return [("summate_incompr", (cov, np.ones(1), np.zeros(1), np.zeros((d, 1))), exp_p)]
    raise AssertionError(kind)


def nontrivial(expected):
    return any(np.any(np.asarray(e) != 0) for e in expected)


def as_tuple(r):
    return tuple(np.asarray(x) for x in r) if isinstance(r, tuple) else (np.asarray(r),)


def close(a, b, tol):
    a, b = as_tuple(a), as_tuple(b)
    if len(a) != len(b):
        return False
    for x, y in zip(a, b):
        if x.shape != y.shape:
            return False
        if x.size and not np.allclose(x, y, rtol=tol, atol=tol, equal_nan=True):
            return False
    return True


def same_bytes(a, b):
    a, b = as_tuple(a), as_tuple(b)
    return len(a) == len(b) and all(x.shape == y.shape and x.dtype == y.dtype and x.tobytes() == y.tobytes()
                                    for x, y in zip(a, b))


def _lst(r):
    return [np.asarray(x).tolist() for x in as_tuple(r)]


# ---------------------------------------------------------------------------
# implementations (inside worker processes)

_W = {}


def _worker_init(omp_paths):
    import importlib

    # idle OpenMP threads must sleep, not spin: many workers x 16 threads share the machine
    os.environ["OMP_WAIT_POLICY"] = "passive"
    os.environ["GOMP_SPINCOUNT"] = "0"
    root = src_root()
    _W["threads0"] = _threads_now()
    _W["interp"] = [rewriter.Interpreted(os.path.join(root, rel)) for rel, _m in KERNEL_FILES]
    _W["compiled"] = [importlib.import_module(m) for _r, m in KERNEL_FILES]
    _W["omp"] = [artefact.load_standalone(p, m) if p else None for p, (_r, m) in zip(omp_paths, KERNEL_FILES)]
    _W["wrap"] = {k: getattr(importlib.import_module(wm), wn) for k, (_i, wm, wn) in KERNELS.items()}


def _run(fn, args, kw=None):
    try:
        with np.errstate(all="ignore"):
            return fn(*args, **(kw or {})), None
    except Exception as e:  # noqa: BLE001  reported as an observable of the implementation
        return None, "%s: %s" % (type(e).__name__, e)


def run_batch(calls, with_interp=True, threads=THREADS, wrapper_threads=WRAPPER_THREADS):
    """All implementations on a batch of inputs; calls = [(kernel, args, extra)].
    -> list of dict impl -> (result, error).  The OpenMP build is driven thread count by thread count
    (resizing libgomp's thread team between calls is what costs time)."""
    out = [dict() for _ in calls]
    for o, (kernel, args, extra) in zip(out, calls):
        fi = KERNELS[kernel][0]
        a = tuple(args) + tuple(extra)
        o["compiled"] = _run(getattr(_W["compiled"][fi], kernel), a)
        if with_interp:
            fn = _W["interp"][fi].ns.get(kernel)
            o["interp"] = _run(fn, a) if fn else (None, "the current .pyx defines no %s" % kernel)
        for nt in wrapper_threads:
            o["wrapper[%s]" % nt] = _run(_W["wrap"][kernel], a, {"num_threads": nt})
    for nt in threads:
        for o, (kernel, args, extra) in zip(out, calls):
            fi = KERNELS[kernel][0]
            if _W["omp"][fi] is not None:
                o["omp[%s]" % nt] = _run(getattr(_W["omp"][fi], kernel), tuple(args) + tuple(extra), {"num_threads": nt})
    _W["threads_max"] = max(_W.get("threads_max", 0), _threads_now() - _W.get("threads0", 0))
    return out


def run_impls(kernel, args, extra=(), **kw):
    return run_batch([(kernel, args, extra)], **kw)[0]


def _unscale(r, scales):
    if r is None or scales is None:
        return r
    t = as_tuple(r)
    return tuple(x if sc == 1.0 or x.dtype.kind != "f" else x / sc for x, sc in zip(t, tuple(scales) + (1.0,) * len(t)))


def judge(kernel, res, expected, tol_exp, sink, replay, scales=None):
    """Compare the implementations of one input.  sink(key, what, replay).
    scales: per output the factor the amplitudes were scaled with (the outputs are divided by it before they are
    compared, so that tolerances are relative to the scale of the values: tiny and huge fields alike)."""
    if scales is not None:
        res = {k: (_unscale(r, scales), e) for k, (r, e) in res.items()}
    comp, cerr = res["compiled"]
    rp = dict(replay)
    if cerr:
        sink("%s:compiled:raises" % kernel, "compiled %s raised %s on a valid input" % (kernel, cerr), rp)
    if expected is not None and not cerr and not close(comp, expected, tol_exp):
        rp2 = dict(rp, expected=_lst(expected), observed=_lst(comp))
        sink("%s:compiled:defining-sum" % kernel,
             "compiled %s differs from the defining sum computed by TLC: expected %s, got %s" % (kernel, _lst(expected), _lst(comp)), rp2)
    if "interp" in res:
        itp, ierr = res["interp"]
        if ierr and not cerr:
            sink("%s:source:raises" % kernel, "plain interpretation of the current .pyx of %s raised %s where the compiled "
                 "artefact returned a result" % (kernel, ierr), rp)
        elif not ierr and not cerr and not close(itp, comp, 1e-12):
            rp2 = dict(rp, interpreted=_lst(itp), compiled=_lst(comp))
            sink("%s:artefact-vs-source" % kernel,
                 "compiled artefact of %s disagrees with a plain interpretation of the current .pyx: interpreted %s, compiled %s"
                 % (kernel, _short(itp), _short(comp)), rp2)
        if expected is not None and not ierr and not close(itp, expected, tol_exp):
            rp2 = dict(rp, expected=_lst(expected), observed=_lst(itp))
            sink("%s:source:defining-sum" % kernel,
                 "the current .pyx of %s (interpreted) differs from the defining sum computed by TLC: expected %s, got %s"
                 % (kernel, _short(expected), _short(itp)), rp2)
    for name, (r, err) in res.items():
        if name.startswith("wrapper"):
            if err and not cerr:
                sink("%s:wrapper:raises" % kernel, "Python wrapper of %s (%s) raised %s" % (kernel, name, err), rp)
            elif not err and not cerr and not same_bytes(r, comp):
                sink("%s:wrapper:bytes" % kernel, "Python wrapper of %s with %s does not return the bytes of the kernel it "
                     "dispatches to: %s vs %s" % (kernel, name, _short(r), _short(comp)), dict(rp, wrapper=_lst(r), compiled=_lst(comp)))
    omp = [(n, r, e) for n, (r, e) in res.items() if n.startswith("omp")]
    if omp:
        n0, r0, e0 = omp[0]
        for n, r, e in omp:
            if e or e0:
                if (e is None) != (e0 is None) or (e and not cerr):
                    sink("%s:omp:raises" % kernel, "OpenMP build of %s: %s -> %s, %s -> %s" % (kernel, n0, e0, n, e), rp)
                continue
            if not same_bytes(r, r0):
                sink("%s:omp:thread-count" % kernel, "OpenMP build of %s is not bit-identical for %s and %s: %s vs %s"
                     % (kernel, n0, n, _short(r0), _short(r)), dict(rp, a=_lst(r0), b=_lst(r)))
        if not e0:
            if expected is not None and not close(r0, expected, tol_exp):
                sink("%s:omp:defining-sum" % kernel, "OpenMP build of %s differs from the defining sum computed by TLC: "
                     "expected %s, got %s" % (kernel, _short(expected), _short(r0)), dict(rp, expected=_lst(expected), observed=_lst(r0)))
            if not cerr and not close(r0, comp, 1e-12):
                sink("%s:omp-vs-serial" % kernel, "OpenMP build of the generated C of %s differs from the shipped serial "
                     "build: %s vs %s" % (kernel, _short(r0), _short(comp)), dict(rp, omp=_lst(r0), compiled=_lst(comp)))


def _short(r, n=6):
    out = []
    for x in as_tuple(r):
        x = np.asarray(x)
        flat = x.ravel()[:n].tolist()
        out.append("%s%s%s" % (list(x.shape), flat, "..." if x.size > n else ""))
    return "; ".join(out)


def _replay_args(args):
    return [np.asarray(a).tolist() if isinstance(a, np.ndarray) else a for a in args]


def _task_lattice(job):
    """job: list of (index, raw state text).  Parses the dumped TLC states and replays each
    through every implementation; the full sweep over thread counts is done for the seeded cases and for
    every 8th state of the boxes, the other box states use num_threads None and 3."""
    blocks = job
    viol, n, nontriv, samples = [], 0, set(), []

    def sink(key, what, rp):
        if not any(k == key for k, _w, _r in viol):
            viol.append((key, what, rp))

    states = []
    for idx, text in blocks:
        st = tlaval.parse_state(text)
        states.append((idx, st["inp"], st["out"]))
    out = {"viol": viol, "nontrivial": nontriv, "samples": samples}
    full = [s for s in states if "tag" in s[1] or s[0] % 8 == 0]
    part = [s for s in states if not ("tag" in s[1] or s[0] % 8 == 0)]
    for group, threads in ((full, THREADS), (part, (None, 3))):
        n += _lattice_group(group, threads, sink, nontriv, samples)
    out["n"] = n
    out["threads_seen"] = _W.get("threads_max", 0)
    return out


def _lattice_group(states, threads, sink, nontriv, samples):
    n = 0
    calls, meta = [], []
    for idx, inp, out in states:
        if inp["kind"] == "krige_far":
            n += caller_krige_far(idx, inp, out, sink)
            nontriv.add(hash(("krige_far", tlaval.freeze(inp))))
            if idx % 40 == 0 and len(samples) < 1:
                samples.append({"caller": "Krige (simple/ordinary, compact support, far targets)", "spec_input": inp,
                                "tlc_expected_field": out["field"], "tlc_expected_krige_var": out["var"]})
            continue
        for kernel, args, exp_of in case_calls(inp, flip=bool(idx % 2)):
            calls.append((kernel, args, ()))
            meta.append((idx, inp, out, exp_of(out)))
    for (kernel, args, _e), (idx, inp, out, expected), res in zip(calls, meta, run_batch(calls, threads=threads)):
        judge(kernel, res, expected, 1e-9, sink,
              {"kind": "lattice", "kernel": kernel, "spec_input": inp, "spec_output": out, "args": _replay_args(args)},
              scales=(2.0 ** out["se"],) if out.get("se") else None)  # only the first output (the field) carries the scale
        n += 1
        if inp["kind"] == "vario_d":
            n += caller_directional(inp, out, expected, sink, WRAPPER_THREADS[idx % len(WRAPPER_THREADS)])
        if nontrivial(expected):
            nontriv.add(hash((kernel, tlaval.freeze(inp))))
        if len(samples) < 1 and nontrivial(expected) and idx % 7 == 0:
            samples.append({"kernel": kernel, "spec_input": inp, "tlc_expected": out,
                            "compiled": _lst(res["compiled"][0]) if res["compiled"][0] is not None else None})
    return n


def _rat(x):
    return x[0] / x[1]


def caller_krige_far(idx, inp, out, sink):
    """Kind krige_far: (a) the kriging kernels applied to TLC's inverse matrix, (b) the public caller
    (gs.krige.Simple / Ordinary on a compactly supported model with targets beyond the range) against TLC's values,
    with and without chunking and return_var, under a cycled config.NUM_THREADS."""
    import gstools as gs
    from gstools import config

    n, unb, c0 = len(inp["cond"]), inp["unb"], inp["c0"]
    size = n + (1 if unb else 0)
    mat = np.array([[_rat(x) for x in row] for row in out["mat"]], dtype=np.double).reshape(size, size)
    rhs = np.zeros((size, len(inp["tg"])))
    for p, t in enumerate(inp["tg"]):
        if t:
            rhs[t - 1, p] = c0
        if unb:
            rhs[n, p] = 1.0
    cond = np.array([z - inp["mean"] for z in inp["cond"]] + ([0.0] if unb else []), dtype=np.double)
    raw = np.array([_rat(x) for x in out["raw"]])
    err = np.array([_rat(x) for x in out["err"]])
    cnt = 0
    rp = {"kind": "lattice-krige-far", "spec_input": inp, "spec_output": out}
    for kernel, expected in (("calc_field_krige_and_variance", (raw, err)), ("calc_field_krige", (raw,))):
        res = run_impls(kernel, (mat, rhs, cond), threads=(None, 3))
        judge(kernel, res, expected, 1e-9, sink, dict(rp, kernel=kernel))
        cnt += 1
    # the public caller
    dim = 1 + idx % 2
    names = ("Spherical", "Cubic", "Circular") if dim == 2 else ("Spherical", "Cubic", "Linear")
    name = names[idx % 3]
    model = getattr(gs, name)(dim=dim, var=float(c0), len_scale=1.0)
    cpos = np.zeros((dim, n))
    cpos[0] = 3.0 * np.arange(n)  # pairwise distance >= 3 > range (1)
    tpos = np.zeros((dim, len(inp["tg"])))
    for p, t in enumerate(inp["tg"]):
        if t:
            tpos[:, p] = cpos[:, t - 1]
        else:
            tpos[0, p] = 40.0 + 5.0 * p
            tpos[-1, p] = -30.0
    want_f = np.array([_rat(x) for x in out["field"]])
    want_v = np.array([_rat(x) for x in out["var"]])
    old = config.NUM_THREADS
    for chunk in (None, 1, 2):
        for rv in (True, False):
            nt = WRAPPER_THREADS[(idx + cnt) % len(WRAPPER_THREADS)]
            cnt += 1
            what = "%s kriging, %s(dim=%d, var=%d, len_scale=1), conditions %s at x = 0,3,..: targets %s (0 = beyond the range of every condition), " \
                   "chunk_size=%s, return_var=%s, NUM_THREADS=%s" % ("ordinary" if unb else "simple (mean %d)" % inp["mean"], name, dim, c0,
                                                                 inp["cond"], inp["tg"], chunk, rv, nt)
            config.NUM_THREADS = nt
            try:
                with np.errstate(all="ignore"):
                    if unb:
                        k = gs.krige.Ordinary(model, list(cpos), [float(z) for z in inp["cond"]])
                    else:
                        k = gs.krige.Simple(model, list(cpos), [float(z) for z in inp["cond"]], mean=float(inp["mean"]))
                    r = k(list(tpos), chunk_size=chunk, return_var=rv, store=False)
            except Exception as e:  # noqa: BLE001
                sink("caller:Krige:raises", "%s raised %s: %s" % (what, type(e).__name__, e), rp)
                continue
            finally:
                config.NUM_THREADS = old
            got_f = np.asarray(r[0] if rv else r, dtype=np.double)
            if not close(got_f, want_f, 1e-9):
                sink("caller:Krige:%s:field" % ("ordinary" if unb else "simple"),
                     "%s: field %s differs from the defining sums over the kriging system computed by TLC %s"
                     % (what, got_f.tolist(), want_f.tolist()), dict(rp, chunk_size=chunk, return_var=rv))
            if rv and not close(np.asarray(r[1]), want_v, 1e-9):
                sink("caller:Krige:%s:krige_var" % ("ordinary" if unb else "simple"),
                     "%s: krige_var %s differs from sill - rhs^T M rhs computed by TLC %s"
                     % (what, np.asarray(r[1]).tolist(), want_v.tolist()), dict(rp, chunk_size=chunk, return_var=rv))
    return cnt


def caller_directional(inp, out, expected, sink, nt):
    """vario_estimate(direction=...) must return the defining sums of every direction (TLC's values): its
    choice of separate_dirs is an optimisation of the kernel call and must not be observable."""
    import gstools as gs
    from gstools import config

    npts, d = len(inp["pos"]), inp["d"]
    pos = _mat(inp["pos"], npts, d).T
    f = _mat(inp["f"], len(inp["f"]), npts)
    rp = {"kind": "caller-directional", "spec_input": inp, "spec_output": out, "num_threads": nt}
    old = config.NUM_THREADS
    config.NUM_THREADS = nt
    try:
        with np.errstate(all="ignore"):
            _bc, gam, cnt = gs.vario_estimate(list(pos), f if len(f) > 1 else f[0], np.array(inp["edges"], dtype=np.double),
                                              direction=[list(map(float, u)) for u in inp["dirs"]],
                                              angles_tol=inp["tol"] * math.pi / 8, return_counts=True)
    except Exception as e:  # noqa: BLE001  the code under test raised on a valid input
        sink("caller:vario_estimate:directional:raises", "vario_estimate(direction=%s) raised %s: %s" % (inp["dirs"], type(e).__name__, e), rp)
        return 1
    finally:
        config.NUM_THREADS = old
    nd = len(inp["dirs"])
    got = (np.asarray(gam, dtype=np.double).reshape(nd, -1), np.asarray(cnt, dtype=np.int64).reshape(nd, -1))
    # pairs of coincident points have no direction: the directions after the first may omit them (spec: open)
    ok = got[0].shape == expected[0].shape
    for u in range(nd if ok else 0):
        for e, ((s_, c), (sz, cz)) in enumerate(zip(out["dirs"][u], out["coincident"])):
            alts = [(s_, c)] + ([(s_ - sz, c - cz)] if u > 0 and cz else [])
            ok = ok and any(got[1][u, e] == ca and abs(got[0][u, e] - sa / (2.0 * max(ca, 1))) <= 1e-9 for sa, ca in alts)
    if not ok:
        sink("caller:vario_estimate:directional:defining-sum",
             "vario_estimate(direction=%s, angles_tol=%d*pi/8, NUM_THREADS=%s) differs from the defining sums computed by TLC (every "
             "direction counts every pair of its cone): expected %s, got %s" % (inp["dirs"], inp["tol"], nt, _lst(expected), _lst(got)),
             dict(rp, expected=_lst(expected), observed=_lst(got)))
    return 1


# ---------------------------------------------------------------------------
# seeded random float inputs


def random_specs(rng, tier):
    """-> list of (kernel, generator seed, params, with_interp)."""
    out = []
    big = tier == "thorough"
    rep = 3 if big else 1
    for _ in range(rep):
        for d in (1, 2, 3, 4):
            for (n, m) in ((1, 1), (5, 17), (32, 257), (16, 3000 if d == 3 else 1200)):
                for k in ("summate", "summate_fourier", "summate_incompr"):
                    out.append((k, rng.randrange(2**31), dict(d=d, n=n, m=m), True))
        # value scales: tiny and huge amplitudes / variances (results are compared relative to the scale)
        for sc in SCALES:
            for k in ("summate", "summate_fourier", "summate_incompr"):
                out.append((k, rng.randrange(2**31), dict(d=rng.choice([1, 2, 3]), n=rng.choice([7, 40]), m=rng.choice([3, 50]), scale=sc), True))
            out.append(("calc_field_krige_and_variance", rng.randrange(2**31), dict(n=9, m=13, scale=sc), True))
            out.append(("calc_field_krige", rng.randrange(2**31), dict(n=9, m=13, scale=sc), True))
            if 1e-100 < sc < 1e100:
                out.append(("unstructured", rng.randrange(2**31), dict(d=2, npts=40, est="m", dist="e", nan=True, scale=sc), True))
                out.append(("directional", rng.randrange(2**31), dict(d=2, npts=30, est="m", nan=False, bw=-1.0, sep=False, scale=sc), True))
                out.append(("structured", rng.randrange(2**31), dict(r=9, c=5, est="m", scale=sc), True))
                out.append(("ma_structured", rng.randrange(2**31), dict(r=9, c=5, est="m", scale=sc), True))
        # fewer points (bins) than threads, many modes: the thread count must still be unobservable
        for m in (1, 2, 3):
            for n in (65, 1000):
                for k in ("summate", "summate_fourier", "summate_incompr"):
                    out.append((k, rng.randrange(2**31), dict(d=rng.choice([1, 2, 3]), n=n, m=m), True))
            for k in ("calc_field_krige", "calc_field_krige_and_variance"):
                out.append((k, rng.randrange(2**31), dict(n=41, m=m), True))
        for nb in (1, 2):
            out.append(("unstructured", rng.randrange(2**31), dict(d=2, npts=60, est="m", dist="e", nan=True, nbins=nb), True))
            out.append(("directional", rng.randrange(2**31), dict(d=2, npts=40, est="m", nan=True, bw=-1.0, sep=False, nbins=nb), True))
        for (r, c) in ((2, 30), (3, 17)):
            out.append(("structured", rng.randrange(2**31), dict(r=r, c=c, est="m"), True))
            out.append(("ma_structured", rng.randrange(2**31), dict(r=r, c=c, est="m"), True))
        for k in ("summate", "summate_fourier", "summate_incompr", "calc_field_krige_and_variance"):
            for sp in ("nan", "inf", "zero-mode"):
                out.append((k, rng.randrange(2**31), dict(d=rng.choice([2, 3]), n=4, m=9, special=sp), True))
        for (n, m) in ((1, 1), (2, 5), (7, 64), (23, 1500), (40, 4000)):
            for k in ("calc_field_krige", "calc_field_krige_and_variance"):
                out.append((k, rng.randrange(2**31), dict(n=n, m=m), True))
        for d in (1, 2, 3):
            for npts in ((2, 9, 40, 120) if not big else (2, 9, 40, 120, 200)):
                for est in ("m", "c"):
                    out.append(("unstructured", rng.randrange(2**31), dict(d=d, npts=npts, est=est, dist="e", nan=npts > 5), True))
                    if d >= 2:
                        out.append(("directional", rng.randrange(2**31), dict(d=d, npts=min(npts, 80), est=est, nan=npts > 5,
                                                                           bw=rng.choice([-1.0, 0.7]), sep=(est == "m")), True))
        for npts in (3, 30, 100):
            out.append(("unstructured", rng.randrange(2**31), dict(d=2, npts=npts, est="m", dist="h", nan=False), True))
        for (r, c) in ((1, 1), (2, 3), (9, 4), (40, 25), (120, 6)):
            for est in ("m", "c"):
                out.append(("structured", rng.randrange(2**31), dict(r=r, c=c, est=est), True))
                out.append(("ma_structured", rng.randrange(2**31), dict(r=r, c=c, est=est), True))
        # large inputs: thread counts (bitwise) and serial-vs-OpenMP only, no interpretation
        out.append(("unstructured", rng.randrange(2**31), dict(d=2, npts=1200, est="m", dist="e", nan=True), False))
        out.append(("unstructured", rng.randrange(2**31), dict(d=3, npts=700, est="c", dist="e", nan=True), False))
        out.append(("directional", rng.randrange(2**31), dict(d=2, npts=1200, est="m", nan=True, bw=0.8, sep=True), False))
        out.append(("structured", rng.randrange(2**31), dict(r=90, c=40, est="m"), False))
        out.append(("ma_structured", rng.randrange(2**31), dict(r=70, c=50, est="c"), False))
        out.append(("summate", rng.randrange(2**31), dict(d=3, n=200, m=5000), False))
        out.append(("summate_fourier", rng.randrange(2**31), dict(d=2, n=150, m=4000), False))
        out.append(("calc_field_krige_and_variance", rng.randrange(2**31), dict(n=120, m=3000), False))
    return out


def random_args(kernel, seed, p):
    g = np.random.default_rng(seed)
    if kernel in ("summate", "summate_incompr", "summate_fourier"):
        cov = g.normal(size=(p["d"], p["n"])) * 2
        z1, z2 = g.normal(size=p["n"]), g.normal(size=p["n"])
        pos = g.uniform(-20, 20, size=(p["d"], p["m"]))
        sp = p.get("special")
        if sp == "nan":
            z1[0] = np.nan
            pos[0, 1] = np.nan
        elif sp == "inf":
            pos[0, 0] = np.inf
            z2[1] = -np.inf
        elif sp == "zero-mode":
            cov[:, 0] = 0.0  # |k| = 0: the projector divides 0 by 0 (NaN in C)
        sc = p.get("scale", 1.0)
        if kernel == "summate_fourier":
            return (g.uniform(0, 2, size=p["n"]) * sc, cov, z1, z2, pos), ()
        return (cov, z1 * sc, z2 * sc, pos), ()
    if kernel.startswith("calc_field"):
        mat, vecs, cond = g.normal(size=(p["n"], p["n"])), g.normal(size=(p["n"], p["m"])), g.normal(size=p["n"])
        if p.get("special") == "nan":
            mat[0, 0] = np.nan
        elif p.get("special") == "inf":
            vecs[0, 0] = np.inf
            cond[1] = -np.inf
        return (mat, vecs, cond * p.get("scale", 1.0)), ()
    if kernel in ("unstructured", "directional"):
        npts, d = p["npts"], p["d"]
        if p.get("dist") == "h":
            pos = np.vstack([g.uniform(-90, 90, npts), g.uniform(-180, 180, npts)])
            edges = np.linspace(0, math.pi, 7)
        else:
            pos = g.uniform(0, 4, size=(d, npts))
            # some exactly coincident points and exact integer distances
            if npts > 3:
                pos[:, 1] = pos[:, 0]
                pos[:, 2] = pos[:, 0]
                pos[0, 2] += 1.0
            edges = np.array([0.0, 0.5, 1.0, 1.7, 2.5, 4.0, 9.0])
            if p.get("nbins"):
                edges = np.array([0.0, 1.5, 4.0])[: p["nbins"] + 1]
        f = g.normal(size=(g.integers(1, 3), npts)) * p.get("scale", 1.0)
        if p.get("nan"):
            f[0, g.integers(0, npts, size=max(1, npts // 10))] = np.nan
        if kernel == "unstructured":
            return (f, edges, pos), (p["est"], p["dist"])
        dirs = g.normal(size=(g.integers(2, 4), d))
        dirs[1] = dirs[0] + 0.05 * g.normal(size=d)  # overlapping angular sectors: separate_dirs matters
        dirs /= np.linalg.norm(dirs, axis=1)[:, None]
        return (f, edges, pos, dirs), (float(g.uniform(0.4, 1.2)), p["bw"], bool(p["sep"]), p["est"])
    if kernel in ("structured", "ma_structured"):
        f = g.normal(size=(p["r"], p["c"])) * p.get("scale", 1.0)
        if kernel == "structured":
            return (f,), (p["est"],)
        mask = (g.random(size=f.shape) < 0.3).astype(np.uint8)
        return (f, mask), (p["est"],)
    raise AssertionError(kernel)


def _task_random(spec):
    kernel, seed, p, with_interp = spec
    args, extra = random_args(kernel, seed, p)
    viol = []

    def sink(key, what, rp):
        if not any(k == key for k, _w, _r in viol):
            viol.append((key, what, rp))

    t0 = time.time()
    res = run_impls(kernel, args, extra, with_interp=with_interp, wrapper_threads=(None,) if not with_interp else WRAPPER_THREADS)
    sc = p.get("scale")
    scales = None
    if sc:  # variogram estimates scale with the square of the field values (Matheron), everything else linearly
        scales = (sc * sc,) if kernel in ("unstructured", "directional", "structured", "ma_structured") else (sc,)
    judge(kernel, res, None, None, sink, {"kind": "random", "kernel": kernel, "seed": seed, "params": p}, scales=scales)
    comp = res["compiled"][0]
    nz = comp is not None and any(np.any(np.nan_to_num(np.asarray(x)) != 0) for x in as_tuple(comp))
    return {"viol": viol, "n": 1, "nontrivial": {hash((kernel, seed))} if nz else set(),
            "samples": [{"kernel": kernel, "seed": seed, "params": p, "interpreted_reference": with_interp,
                         "implementations": sorted(res), "result_head": _short(comp) if comp is not None else None}],
            "wall": time.time() - t0, "threads_seen": _W.get("threads_max", 0)}


def _threads_now():
    try:
        with open("/proc/self/status") as fh:
            for ln in fh:
                if ln.startswith("Threads:"):
                    return int(ln.split()[1])
    except OSError:
        pass
    return 0


# ---------------------------------------------------------------------------
# the machinery shared by C15 and C16


class Setup:
    """Sources, interpretation, IR, OpenMP scratch build (started in the background)."""

    def __init__(self, rep, want_omp=True):
        self.root = src_root()
        self.tmp = tempfile.mkdtemp(prefix="gsverif_omp_")
        self.interp, self.ctext, self.cpath = [], [], []
        for rel, _m in KERNEL_FILES:
            path = os.path.join(self.root, rel)
            self.interp.append(rewriter.Interpreted(path))
            cp = artefact.c_path(path)
            self.cpath.append(cp)
            if cp:
                with open(cp) as fh:
                    self.ctext.append(fh.read())
            else:
                self.ctext.append(None)
        self.pool = ThreadPoolExecutor(max_workers=3)
        self.futures = []
        for cp, (_r, m) in zip(self.cpath, KERNEL_FILES):
            if cp and want_omp:
                self.futures.append(self.pool.submit(artefact.build_openmp, cp, self.tmp, m))
            else:
                self.futures.append(None)
        self.omp_paths = None

    def builds(self, rep):
        if self.omp_paths is None:
            self.omp_paths = []
            for fut, cp, (rel, _m) in zip(self.futures, self.cpath, KERNEL_FILES):
                if fut is None:
                    self.omp_paths.append(None)
                    if cp is None:
                        rep.note("OpenMP part not available for %s: no generated C next to the .pyx" % rel)
                    continue
                so, err = fut.result()
                if so is None:
                    rep.note("OpenMP part not available for %s: build of the generated C failed: %s" % (rel, (err or "")[-300:]))
                self.omp_paths.append(so)
        return self.omp_paths

    def close(self):
        self.pool.shutdown(wait=True)
        shutil.rmtree(self.tmp, ignore_errors=True)


def projector_def(setup, rep):
    try:
        text, src = projmod.extract(setup.interp[0].rw)
        rep.extra["projector_extracted_from_source"] = {"statement": src, "tla": text.strip()}
        return text, True
    except projmod.NotExtractable as e:
        rep.note("projector expression of summate_incompr could not be translated to TLA+ (%s): the identity is "
                 "checked on the documented projector only; the binding is the behavioural probing" % e)
        rep.extra["projector_extracted_from_source"] = None
        return "McProjSrc(q, c) == Proj(q, c)\n", False


def kernel_jobs(sc, kinds, cases, tier, projdef):
    jobs = []
    boxes = _boxes(tier)
    for kind in kinds:
        name = "MC_K_" + kind
        txt, cfg = mc_module(name, kind, cases.get(kind, []), boxes[kind], projdef)
        sc.write(name + ".tla", txt)
        jobs.append((("kernels", kind), sc, name, cfg, dict(workers=2, timeout=900, dump=("states", sc.path(name + ".dump")))))
    return jobs


def omp_jobs(sc, setup, rep, tier="quick", threads=3):
    """Extract the regions of the current .pyx, emit Omp_<kernel>, return TLC jobs + IR summaries."""
    jobs, regs_all = [], {}
    for fi, (rel, _m) in enumerate(KERNEL_FILES):
        I = setup.interp[fi]
        regs, failed = irmod.extract(I.rw)
        for fn, why in failed.items():
            rep.violation("%s:omp-model:unsupported" % fn,
                          "the parallel region of %s in the current %s is outside the modelled subset (%s): its schedule "
                          "independence cannot be established" % (fn, rel, why), {"function": fn, "reason": why})
        for fn in irmod.serial_kernels(I.rw):
            rep.extra.setdefault("serial_kernels_without_parallel_region", []).append(fn)
        for fn, reg in regs.items():
            regs_all[fn] = (fi, reg)
            variants = [("", MODEL_ARGS.get(fn))] + ([("_L", MODEL_ARGS_BIG.get(fn))] if tier == "thorough" and fn in MODEL_ARGS_BIG else [])
            for suffix, margs in variants:
                if margs is None:  # a kernel this driver does not know: every extent 2
                    margs = lambda fn=fn, I=I: {a: Z((2,) * I.rw.decls[fn][a].count(":")) for a in I.rw.args[fn]
                                                if "[" in I.rw.decls[fn].get(a, "")}
                module = "Omp_%s%s" % (fn, suffix)
                try:
                    env = emitmod.model_env(I, reg, margs())
                    mod, cfg, info = emitmod.emit(reg, env, module)
                except Exception as e:  # noqa: BLE001  (EmitError, or the prelude of a changed source fails)
                    rep.violation("%s:omp-model:unsupported" % fn,
                                  "no schedule model could be generated for the parallel region of %s (%r)" % (fn, e),
                                  {"function": fn, "reason": repr(e)})
                    continue
                sc.write(module + ".tla", mod)
                cfgt = cfg % threads + "".join("INVARIANT %s\n" % i for i in emitmod.INVARIANTS)
                jobs.append((("omp", fn, suffix), sc, module, cfgt, dict(workers=4 if (suffix or fn == "directional") else 2, timeout=1500)))
                rep.extra.setdefault("omp_models", {})[fn + suffix] = dict(reg.summary(), shapes=info["shapes"], threads=threads)
    return jobs, regs_all


def omp_verdicts(rep, sc, results, regs_all):
    for key, r in sorted(results.items()):
        if key[0] != "omp":
            continue
        _k, fn, suffix = key
        module = "Omp_%s%s" % (fn, suffix)
        tlc.must_pass(r, module)
        rep.add_tlc("%s[T=3]" % module, r)
        if r.error:
            # which of the invariants fail (one TLC run per invariant, they stop at the first violation)
            bad = [r.error[1]]
            cfg0 = ("CONSTANTS\n T = 3\n Program <- McProgram\n PrivProgram <- McPrivProgram\n WsPriv <- McWsPriv\n"
                    "INIT Init\nNEXT Next\n")
            for inv in emitmod.INVARIANTS:
                if inv in bad or inv == "PrivatesInitialised":  # constant: it would have been reported first
                    continue
                try:  # the state space of a racy program can be large: bounded effort, undetermined otherwise
                    r2 = tlc.run(sc, module, cfg0 + "INVARIANT %s\n" % inv, workers=2, timeout=40)
                except tlc.MachineryError:
                    continue
                if r2.error and r2.error[0] == "invariant":
                    bad.append(inv)
            bad = [i for i in emitmod.INVARIANTS if i in bad]
            trace = tlc.error_trace(r)
            rep.violation("%s:schedule:%s" % (fn, "+".join(bad) or r.error[1]),
                          "the parallel region of %s in the current .pyx is schedule dependent: TLC finds %s violated for 3 "
                          "threads (model %s extracted from the source at check time)" % (fn, ", ".join(bad) or r.error[1], module),
                          {"function": fn, "violated": bad, "ir": regs_all[fn][1].summary(),
                           "trace_tail": [{"action": t["action"], "th": t["state"].get("th"), "acc": t["state"].get("acc")} for t in trace[-3:]]})


def drift_checks(rep, setup, regs_all):
    for fi, (rel, _m) in enumerate(KERNEL_FILES):
        ct = setup.ctext[fi]
        if ct is None:
            continue
        base = os.path.basename(rel)
        stale, nemb = artefact.staleness(ct, setup.interp[fi].text, base)
        rep.extra.setdefault("embedded_source_lines", {})[rel] = {"embedded": nemb, "differing": len(stale)}
        if stale:
            rep.drift_msg("STALE-ARTEFACT %s: %d of %d source lines embedded in the generated C differ from the current .pyx, "
                          "first: line %d %r -> %r" % (rel, len(stale), nemb, stale[0][0], stale[0][1], stale[0][2]))
        prag = artefact.pragmas(ct, base)
        for fn, (fj, reg) in regs_all.items():
            if fj != fi:
                continue
            for msg in artefact.compare_classification(reg, prag.get(fn)):
                rep.drift_msg("PRAGMA %s: %s" % (rel, msg))
        for fn in prag:
            if fn not in regs_all:
                rep.drift_msg("PRAGMA %s: generated C has an OpenMP region for %s, the current .pyx has no prange there" % (rel, fn))


def read_blocks(sc, kind):
    """Raw text of the dumped states (parsed inside the workers)."""
    import re

    with open(sc.path("MC_K_%s.dump" % kind)) as fh:
        text = fh.read()
    return [b for b in re.split(r"(?m)^State \d+:\n", text) if b.strip()]


def lattice_tasks(sc, kind):
    blocks = list(enumerate(read_blocks(sc, kind)))
    return len(blocks), [(_task_lattice, ch) for ch in chunks(blocks, max(1, min(NPROC * 2, len(blocks) // 150 + 1)))]


def replay_pool(rep, setup, tasks):
    """tasks: list of (function, argument).  Runs them in worker processes, merges the results."""
    omp = setup.builds(rep)
    stats = {"n": 0, "threads_seen": 0, "slowest": 0.0}
    seen = {"lattice": 0, "random": 0}
    ctx = mp.get_context("fork")
    with ctx.Pool(NPROC, initializer=_worker_init, initargs=(omp,)) as pool:
        asyncs = [pool.apply_async(fn, (arg,)) for fn, arg in tasks]
        for a in asyncs:
            res = a.get(timeout=3000)
            stats["n"] += res["n"]
            rep.traces += res["n"]
            rep.evaluations += res["n"]
            rep.nontrivial |= res["nontrivial"]
            stats["threads_seen"] = max(stats["threads_seen"], res.get("threads_seen", 0))
            stats["slowest"] = max(stats["slowest"], res.get("wall", 0.0))
            for smp in res["samples"]:
                kind = "lattice" if "spec_input" in smp else "random"
                if seen[kind] < 5:
                    seen[kind] += 1
                    rep.sample(smp, cap=10)
            for key, what, rp in res["viol"]:
                rep.violation(key, what, rp)
    return stats


def chunks(lst, n):
    n = max(1, n)
    return [lst[i::n] for i in range(n) if lst[i::n]]


# ---------------------------------------------------------------------------
# callers: config.NUM_THREADS in {None, 1, 4} must give the same bytes; generator = formula(kernel)


def _caller_outputs(gs, seed):
    """label -> ndarray, or an exception text if the code under test raised.  Point sets from 1 point (fewer points /
    bins than threads, many modes) to a few dozen."""
    g = np.random.default_rng(seed)
    out = {}

    def put(label, thunk):
        try:
            with np.errstate(all="ignore"):
                out[label] = np.asarray(thunk())
        except Exception as e:  # noqa: BLE001  observable of the code under test
            out[label] = "%s: %s" % (type(e).__name__, e)

    for npts, modes in ((1, 1000), (2, 257), (3, 1000), (37, 24)):
        pts = {d: g.uniform(-5, 5, size=(d, npts)) for d in (1, 2, 3)}
        for d in (1, 2, 3):
            put("SRF/RandMeth/dim%d/%dpts" % (d, npts), lambda d=d: gs.SRF(gs.Exponential(dim=d, var=2.0, len_scale=1.5), seed=seed % 1000,
                                                                           mode_no=modes)(list(pts[d]), store=False))
            if d >= 2:
                put("SRF/VectorField/dim%d/%dpts" % (d, npts), lambda d=d: gs.SRF(
                    gs.Gaussian(dim=d, var=1.0, len_scale=2.0), generator="VectorField", seed=seed % 1000 + 1,
                    mode_no=modes)(list(pts[d]), store=False))
            if d <= 2:
                put("SRF/Fourier/dim%d/%dpts" % (d, npts), lambda d=d: gs.SRF(
                    gs.Gaussian(dim=d, var=1.0, len_scale=2.0), generator="Fourier", period=[8.0] * d,
                    mode_no=[4 if npts > 3 else 16] * d, seed=seed % 1000 + 2)(list(pts[d]), store=False))
        cpos = g.uniform(0, 4, size=(2, 31))
        cval = g.normal(size=31)

        def krig(var):
            k = gs.krige.Ordinary(gs.Gaussian(dim=2, var=1.5, len_scale=1.2), list(cpos), cval)
            r = k(list(pts[2]), return_var=var, store=False)
            return np.concatenate([np.asarray(x) for x in r if x is not None]) if isinstance(r, tuple) else r

        put("Krige/field+var/%dpts" % npts, lambda: krig(True))
        put("Krige/field/%dpts" % npts, lambda: krig(False))
    pts2 = g.uniform(-5, 5, size=(2, 37))
    fld = g.normal(size=37)
    fld[5] = np.nan

    def vario(edges, **kw):
        _bc, gam, cnt = gs.vario_estimate(list(pts2), fld, edges, return_counts=True, **kw)
        return np.concatenate([np.ravel(gam), np.ravel(cnt).astype(float)])

    for nb in (1, 2, 6):
        edges = np.linspace(0, 6, nb + 1)
        put("vario_estimate/unstructured/%dbins" % nb, lambda: vario(edges))
        put("vario_estimate/directional/%dbins" % nb, lambda: vario(edges, direction=[[1.0, 0.0], [0.0, 1.0]], angles_tol=0.6))
        put("vario_estimate/directional-obtuse/%dbins" % nb, lambda: vario(edges, direction=[[1.0, 0.0], [-3.0, 1.0], [1.0, 1.0]]))
    for shape in ((2, 30), (3, 9), (12, 7)):
        grid = g.normal(size=shape)
        put("vario_estimate_axis/structured/%dx%d" % shape, lambda: gs.vario_estimate_axis(grid, "x"))
        put("vario_estimate_axis/masked/%dx%d" % shape, lambda: gs.vario_estimate_axis(
            np.ma.array(grid, mask=np.random.default_rng(seed).random(size=grid.shape) < 0.2), "x"))
    return out


def callers_check(rep, seed, interp0):
    import gstools as gs
    from gstools import config
    from gstools.field import generator as gen

    old = config.NUM_THREADS
    outs = {}
    try:
        for nt in WRAPPER_THREADS:
            config.NUM_THREADS = nt
            outs[nt] = _caller_outputs(gs, seed)
    finally:
        config.NUM_THREADS = old
    n = 0
    for label, ref in outs[None].items():
        cls = label.split("/")[0]
        for nt in WRAPPER_THREADS:
            n += 1
            got = outs[nt][label]
            if isinstance(got, str):
                rep.violation("caller:%s:raises" % cls, "%s with config.NUM_THREADS=%s raised %s" % (label, nt, got),
                              {"kind": "caller", "label": label, "seed": seed, "num_threads": nt})
            elif not isinstance(ref, str) and not same_bytes(ref, got):
                rep.violation("caller:%s:num-threads" % cls,
                              "%s returns different bytes for config.NUM_THREADS=None and %s: max deviation %.3e"
                              % (label, nt, float(np.max(np.abs(np.nan_to_num(ref) - np.nan_to_num(got)))) if ref.shape == got.shape else float("nan")),
                              {"kind": "caller", "label": label, "seed": seed, "num_threads": nt, "a": ref, "b": got})
    rep.count(n)
    rep.traces += n
    # generator call = documented formula applied to the kernel sum over the generator's own samples
    g = np.random.default_rng(seed + 1)

    def rel_randmeth(d, modes, vs):
        rm = gen.RandMeth(gs.Exponential(dim=d, var=2.25 * vs, len_scale=0.8), mode_no=modes, seed=seed % 977)
        return rm, (lambda pos: rm(pos)), (lambda pos: math.sqrt(2.25 * vs / modes) * rewriter.call(
            interp0.summate, rm._cov_sample, rm._z_1, rm._z_2, pos)), "RandMeth(pos) != sqrt(var/N) * summate(own samples)"

    def rel_incompr(d, modes, vs):
        im = gen.IncomprRandMeth(gs.Gaussian(dim=d, var=0.25 * vs, len_scale=1.3), mean_velocity=2.0, mode_no=modes, seed=seed % 977)
        e1 = np.zeros((d, 1))
        e1[0] = 1.0
        return im, (lambda pos: im(pos) - 2.0 * e1), (lambda pos: 2.0 * math.sqrt(0.25 * vs / modes) * rewriter.call(
            interp0.summate_incompr, im._cov_sample, im._z_1, im._z_2, pos)), \
            "IncomprRandMeth(pos) - mean*e1 != mean*sqrt(var/N) * summate_incompr(own samples)"

    def rel_fourier(d, modes, vs):
        fm = gen.Fourier(gs.Gaussian(dim=d, var=1.0 * vs, len_scale=1.3), period=[6.0] * d, mode_no=[4 if modes < 100 else 12] * d, seed=seed % 977)
        return fm, (lambda pos: fm(pos)), (lambda pos: rewriter.call(
            interp0.summate_fourier, fm._spectrum_factor, fm._modes, fm._z_1, fm._z_2, pos)), "Fourier(pos) != summate_fourier(own samples)"

    rels = [("RandMeth", rel_randmeth, (1, 2, 3)), ("IncomprRandMeth", rel_incompr, (2, 3)), ("Fourier", rel_fourier, (1, 2))]
    for cls, build, dims in rels:
        for d in dims:
            for npts, modes, nt, vs in ((11, 12, None, 1.0), (2, 300, 8, 1.0), (1, 300, 2, 1.0), (3, 300, 16, 1.0),
                                        (7, 12, None, 1e-12), (7, 300, 4, 1e-18), (5, 12, None, 1e-150), (5, 12, 2, 1e12)):
                pos = g.uniform(-4, 4, size=(d, npts))
                config.NUM_THREADS = nt
                try:
                    _obj, call, formula, what = build(d, modes, vs)
                    with np.errstate(all="ignore"):
                        got = call(pos)
                except Exception as e:  # noqa: BLE001  the code under test raised
                    rep.violation("caller:%s:raises" % cls, "%s in dim %d on %d points with NUM_THREADS=%s raised %s: %s"
                                  % (cls, d, npts, nt, type(e).__name__, e), {"kind": "caller-relation", "class": cls, "dim": d})
                    continue
                finally:
                    config.NUM_THREADS = old
                try:
                    want = formula(pos)
                except AttributeError as e:
                    rep.note("generator internals renamed (%s): generator-vs-kernel relation not checked for %s" % (e, cls))
                    break
                except Exception as e:  # noqa: BLE001  the interpreted source fails: already reported by the kernel comparison
                    rep.note("generator-vs-kernel relation not evaluated for %s in dim %d: the interpreted kernel raised %r" % (cls, d, e))
                    continue
                # relative to the scale of the field (sqrt of the variance): tiny and huge variances alike
                scl = math.sqrt(vs)
                if cls == "IncomprRandMeth" and vs < 1e-6:
                    scl = 1.0  # the fluctuation is below the rounding of mean*e1 + fluctuation: absolute comparison
                got, want = np.asarray(got) / scl, np.asarray(want) / scl
                rep.count(1)
                rep.traces += 1
                if not close(got, want, 1e-12):
                    rep.violation("caller:%s:kernel-relation" % cls,
                                  "dim %d, %d points, %d modes, variance scale %g, NUM_THREADS=%s: %s (interpreted current .pyx as the kernel; "
                                  "values relative to sqrt of the variance scale): got %s, want %s"
                                  % (d, npts, modes, vs, nt, what, _short(got), _short(want)),
                                  {"kind": "caller-relation", "class": cls, "dim": d, "seed": seed, "got": got, "want": want})


def krige_relation(rep, seed, interp1):
    """Krige(pos) = post-processing of the kriging kernels' defining sums over the object's OWN system:
    raw field = calc_field_krige[_and_variance](krige_mat, rhs, krige_cond), krige_var = max(sill - error, 0),
    for Simple / Ordinary / Universal / external drift, compactly supported models with targets beyond the range
    (columns of the covariance block of the right-hand side exactly zero), with and without chunking / return_var."""
    import gstools as gs
    from gstools import config

    g = np.random.default_rng(seed + 2)
    old = config.NUM_THREADS
    kinds = ("simple", "ordinary", "universal", "extdrift")
    cnt = 0
    for ci, (name, dim) in enumerate((("Spherical", 2), ("Cubic", 1), ("Circular", 2), ("Gaussian", 2), ("Spherical", 3))):
        for kind in kinds:
            model = getattr(gs, name)(dim=dim, var=1.5, len_scale=1.0, nugget=0.25 if ci == 2 else 0.0)
            ncond = 6
            cpos = g.uniform(0, 4, size=(dim, ncond))
            cval = g.normal(size=ncond)
            tpos = g.uniform(0, 4, size=(dim, 9))
            tpos[:, 1] = 50.0 + g.uniform(0, 1, size=dim)  # beyond the range of every condition
            tpos[:, 4] = -60.0
            tpos[:, 8] = 75.0
            tpos[:, 6] = cpos[:, 2]  # exactly at a condition
            kw, ckw = {}, {}
            if kind == "extdrift":
                kw["ext_drift"] = g.normal(size=ncond)
                ckw["ext_drift"] = g.normal(size=9)
            for chunk in (None, 1, 4):
                for rv in (True, False):
                    nt = WRAPPER_THREADS[cnt % len(WRAPPER_THREADS)]
                    cnt += 1
                    what = "%s kriging, %s dim %d, chunk_size=%s, return_var=%s, NUM_THREADS=%s" % (kind, name, dim, chunk, rv, nt)
                    rp = {"kind": "krige-relation", "krige": kind, "model": name, "dim": dim, "seed": seed, "chunk_size": chunk, "return_var": rv}
                    config.NUM_THREADS = nt
                    try:
                        with np.errstate(all="ignore"):
                            if kind == "simple":
                                k = gs.krige.Simple(model, list(cpos), cval, mean=0.5)
                            elif kind == "ordinary":
                                k = gs.krige.Ordinary(model, list(cpos), cval)
                            elif kind == "universal":
                                k = gs.krige.Universal(model, list(cpos), cval, "linear")
                            else:
                                k = gs.krige.ExtDrift(model, list(cpos), cval, kw["ext_drift"])
                            r = k(list(tpos), chunk_size=chunk, return_var=rv, post_process=False, store=False, **ckw)
                    except Exception as e:  # noqa: BLE001
                        rep.violation("caller:Krige:raises", "%s raised %s: %s" % (what, type(e).__name__, e), rp)
                        continue
                    finally:
                        config.NUM_THREADS = old
                    try:
                        iso_pos, _shape = k.pre_pos(list(tpos), "unstructured")
                        ext = k._pre_ext_drift(9, ckw.get("ext_drift"))
                        rhs = k._get_krige_vecs(iso_pos, (0, None), ext, False)
                        raw, err = rewriter.call(interp1.calc_field_krige_and_variance, np.asarray(k._krige_mat, dtype=np.double),
                                                 np.asarray(rhs, dtype=np.double), np.asarray(k._krige_cond, dtype=np.double))
                        sill = k.model.sill
                    except AttributeError as e:
                        rep.note("Krige internals renamed (%s): caller-vs-kernel relation not checked" % e)
                        return
                    except Exception as e:  # noqa: BLE001  the interpreted source fails: reported by the kernel comparison
                        rep.note("Krige caller-vs-kernel relation not evaluated: %r" % e)
                        return
                    rep.count(1)
                    rep.traces += 1
                    got_f = np.asarray(r[0] if rv else r)
                    if not close(got_f, raw, 1e-12):
                        rep.violation("caller:Krige:kernel-relation:field",
                                      "%s: the raw field differs from the kriging kernel's defining sum over the object's own system at "
                                      "targets %s (targets 1, 4, 8 are beyond the range): got %s, want %s"
                                      % (what, np.flatnonzero(~np.isclose(got_f, raw, rtol=1e-12, atol=1e-12)).tolist(), _short(got_f, 9), _short(raw, 9)),
                                      dict(rp, got=got_f, want=raw))
                    if rv and not close(np.asarray(r[1]), np.maximum(sill - err, 0), 1e-12):
                        rep.violation("caller:Krige:kernel-relation:krige_var",
                                      "%s: krige_var differs from max(sill - error, 0) with the kernel's defining sum: got %s, want %s"
                                      % (what, _short(r[1], 9), _short(np.maximum(sill - err, 0), 9)), dict(rp, got=r[1], want=np.maximum(sill - err, 0)))


# ---------------------------------------------------------------------------
# C16


def probe_projector(fn, k):
    """Single mode z1 = 1, z2 = 0 at x = 0: the kernel returns p(k)."""
    d = len(k)
    with np.errstate(all="ignore"):
        r = fn(np.asarray(k, dtype=np.double).reshape(d, 1), np.ones(1), np.zeros(1), np.zeros((d, 1)))
    return np.asarray(r)[:, 0]


def _task_probe(job):
    """Random wave vectors: k . p(k) = 0 to 1e-13 |k| for every implementation."""
    seed, count = job
    g = np.random.default_rng(seed)
    viol, n = [], 0
    impls = {"compiled": _W["compiled"][0].summate_incompr, "interp": _W["interp"][0].ns.get("summate_incompr")}
    if _W["omp"][0] is not None:
        impls["omp"] = _W["omp"][0].summate_incompr
    worst = 0.0
    for i in range(count):
        d = 2 + (i % 2)
        scale = 10.0 ** g.integers(-3, 4)
        k = g.normal(size=d) * scale
        if i % 5 == 0:
            k[g.integers(0, d)] = 0.0  # axis-aligned components
        if not np.any(k):
            continue
        for name, fn in impls.items():
            if fn is None:
                continue
            p = probe_projector(fn, k)
            n += 1
            div = float(np.dot(k, p))
            kn = float(np.linalg.norm(k))
            worst = max(worst, abs(div) / kn)
            if not (abs(div) <= 1e-13 * kn) and not any(x[0].startswith("projector:%s" % name) for x in viol):
                viol.append(("projector:%s:not-solenoidal" % name,
                             "single-mode probe of summate_incompr (%s): k.p(k) = %.3e for k = %s, p = %s (|k| = %.3e)"
                             % (name, div, k.tolist(), p.tolist(), kn), {"kind": "probe", "k": k.tolist(), "p": p.tolist(), "impl": name}))
            # p.p = p_1 (projection of e1): a relation between outputs of the kernel, no external reference
            if not (abs(float(np.dot(p, p)) - p[0]) <= 1e-12) and not any(x[0].startswith("projector:%s" % name) for x in viol):
                viol.append(("projector:%s:not-a-projection" % name,
                             "single-mode probe of summate_incompr (%s): |p|^2 = %r but p_1 = %r for k = %s"
                             % (name, float(np.dot(p, p)), float(p[0]), k.tolist()), {"kind": "probe", "k": k.tolist(), "p": p.tolist(), "impl": name}))
    return {"viol": viol, "n": n, "nontrivial": {hash(("probe", seed, i)) for i in range(count)}, "samples": [],
            "worst": worst}


MODELS_C16 = ("Gaussian", "Exponential", "Matern", "Stable", "Rational", "Cubic", "Linear", "Circular", "Spherical",
              "HyperSpherical", "SuperSpherical", "JBessel", "TPLGaussian", "TPLExponential", "TPLStable", "TPLSimple", "Integral")


def _mk_model(gs, name, dim, var):
    kw = dict(dim=dim, var=var, len_scale=1.5)
    if name == "JBessel":
        kw["nu"] = 1.5
    return getattr(gs, name)(**kw)


def _task_fields(job):
    """Whole fields from SRF(generator="VectorField"): analytic divergence, mean, scaling."""
    import gstools as gs

    name, dim, seed, mode_no = job
    viol, n = [], 0
    samples = []

    def sink(key, what, rp):
        if not any(k == key for k, _w, _r in viol):
            viol.append((key, what, rp))

    g = np.random.default_rng(seed)
    pts = g.uniform(-7, 7, size=(dim, 23))
    pts[:, 0] = 0.0
    rp = {"kind": "field", "model": name, "dim": dim, "seed": seed, "mode_no": mode_no}
    try:
        model = _mk_model(gs, name, dim, 1.0)
        srf = gs.SRF(model, generator="VectorField", seed=seed, mode_no=mode_no, mean_velocity=1.0)
        u = srf(list(pts), store=False)
    except Exception as e:  # noqa: BLE001
        # a model whose spectrum cannot be sampled is outside the quantifier (not a property of the field)
        return {"viol": [], "n": 0, "nontrivial": set(), "samples": [], "skipped": "%s dim %d: %r" % (name, dim, e)}
    gen = srf.generator
    ks, z1, z2 = np.asarray(gen._cov_sample), np.asarray(gen._z_1), np.asarray(gen._z_2)
    N = ks.shape[1]
    # projector of every mode as the compiled kernel applies it
    P = np.stack([probe_projector(_W["compiled"][0].summate_incompr, ks[:, j]) for j in range(N)], axis=1)  # (dim, N)
    phase = ks.T @ pts  # (N, npts)
    amp = z1[:, None] * np.cos(phase) + z2[:, None] * np.sin(phase)
    fac = math.sqrt(model.var / N)
    assembled = np.zeros((dim, pts.shape[1]))
    assembled[0] += 1.0
    assembled += fac * (P @ amp)
    n += 1
    if not close(u, assembled, 1e-9):
        sink("VectorField:superposition", "%s dim %d: the field is not mean*e1 + mean*sqrt(var/N) * sum_j p(k_j)(z1 cos + z2 sin) "
             "over the generator's own modes: max deviation %.3e" % (name, dim, float(np.max(np.abs(u - assembled)))), rp)
    damp = -z1[:, None] * np.sin(phase) + z2[:, None] * np.cos(phase)
    kdotp = np.einsum("dj,dj->j", ks, P)
    div = fac * (kdotp[:, None] * damp).sum(axis=0)
    n += 1
    if not np.all(np.abs(div) <= 1e-9):
        sink("VectorField:divergence", "%s dim %d seed %d: analytic divergence of the generated field is %.3e at x = %s"
             % (name, dim, seed, float(np.max(np.abs(div))), pts[:, int(np.argmax(np.abs(div)))].tolist()), rp)
    samples.append({"model": name, "dim": dim, "seed": seed, "modes": N, "max_abs_divergence": float(np.max(np.abs(div))),
                    "max_abs_k_dot_p": float(np.max(np.abs(kdotp))), "u_at_origin": u[:, 0].tolist()})
    # one call with several thousand points (structured mesh): the same superposition, and the values do not depend
    # on how many other points are evaluated in the same call
    axes = [np.linspace(-6, 6, 70), np.linspace(-5, 7, 60)] if dim == 2 else [np.linspace(-6, 6, 20), np.linspace(-5, 7, 15), np.linspace(-4, 4, 14)]
    big = srf(axes, mesh_type="structured", store=False)
    gpts = np.stack([m.ravel() for m in np.meshgrid(*axes, indexing="ij")])
    bigf = np.asarray(big).reshape(dim, -1)
    n += 1
    if bigf.shape != (dim, gpts.shape[1]):
        sink("VectorField:big-call:shape", "%s dim %d: a structured call on %s axes returns shape %s" % (name, dim, [len(a) for a in axes], np.shape(big)), rp)
    else:
        ph = ks.T @ gpts
        asm = fac * (P @ (z1[:, None] * np.cos(ph) + z2[:, None] * np.sin(ph)))
        asm[0] += 1.0
        if not close(bigf, asm, 1e-9):
            sink("VectorField:superposition", "%s dim %d: a call with %d points is not mean*e1 + mean*sqrt(var/N) * sum_j p(k_j)(z1 cos + z2 sin) "
                 "over the generator's own modes: max deviation %.3e" % (name, dim, gpts.shape[1], float(np.max(np.abs(bigf - asm)))), dict(rp, points=gpts.shape[1]))
        sel = g.choice(gpts.shape[1], size=17, replace=False)
        small = srf(list(gpts[:, sel]), store=False)
        n += 1
        if not close(small, bigf[:, sel], 1e-12):
            sink("VectorField:batch-dependence", "%s dim %d: the values of a %d-point call differ from a 17-point call at the same points: "
                 "max deviation %.3e" % (name, dim, gpts.shape[1], float(np.max(np.abs(small - bigf[:, sel])))), dict(rp, points=gpts.shape[1]))
        d2 = fac * (kdotp[:, None] * (-z1[:, None] * np.sin(ph) + z2[:, None] * np.cos(ph))).sum(axis=0)
        if not np.all(np.abs(d2) <= 1e-9):
            sink("VectorField:divergence", "%s dim %d seed %d: analytic divergence on the %d-point mesh is %.3e" % (name, dim, seed, gpts.shape[1], float(np.max(np.abs(d2)))), rp)
    # mean: with a tiny variance the field is (mean_velocity, 0[, 0]) everywhere
    for mv in (0.5, 3.0, -2.0):
        tiny = gs.SRF(_mk_model(gs, name, dim, 2.0 ** -100), generator="VectorField", seed=seed, mode_no=mode_no, mean_velocity=mv)
        ut = tiny(list(pts), store=False)
        want = np.zeros_like(ut)
        want[0] = mv
        n += 1
        if not close(ut, want, 1e-12):
            sink("VectorField:mean", "%s dim %d: with var = 2^-100 and mean_velocity = %s the field is not (mean, 0[,0]): max deviation %.3e"
                 % (name, dim, mv, float(np.max(np.abs(ut - want)))), dict(rp, mean_velocity=mv))
    # fluctuation linear in mean_velocity and in sqrt(var) (dyadic values: exact scaling)
    e1 = np.zeros((dim, 1))
    e1[0] = 1.0
    base = u - e1
    scale0 = max(1.0, float(np.max(np.abs(base))))
    for mv, var in ((2.0, 1.0), (0.5, 1.0), (4.0, 1.0), (1.0, 4.0), (1.0, 0.25), (2.0, 0.0625)):
        s = gs.SRF(_mk_model(gs, name, dim, var), generator="VectorField", seed=seed, mode_no=mode_no, mean_velocity=mv)
        us = s(list(pts), store=False)
        fl = (us - mv * e1) / (mv * math.sqrt(var))
        n += 1
        if not np.all(np.abs(fl - base) <= 1e-12 * scale0 * max(1.0, 1.0 / math.sqrt(var))):
            sink("VectorField:scaling", "%s dim %d: (u - mean*e1)/(mean*sqrt(var)) changes with mean_velocity=%s, var=%s: max deviation %.3e"
                 % (name, dim, mv, var, float(np.max(np.abs(fl - base)))), dict(rp, mean_velocity=mv, var=var))
    return {"viol": viol, "n": n, "nontrivial": {hash((name, dim, seed))}, "samples": samples}


# dim 3 / other classes need MCMC sampling at every reseed (25..60 ms): one history in five in quick
HIST_MODELS = (("Gaussian", 2), ("Exponential", 2), ("Gaussian", 2), ("Exponential", 2), ("Gaussian", 3))
HIST_MODELS_THOROUGH = (("Gaussian", 2), ("Gaussian", 3), ("Exponential", 2), ("Exponential", 3), ("Matern", 2))


def _hist_settings(st):
    return dict(mean=float(st["mean"]), var=4.0 ** st["ve"], modes=int(st["modes"]), seed=int(st["seed"]))


def _hist_srf(gs, name, dim, cfg):
    return gs.SRF(_mk_model(gs, name, dim, cfg["var"]), generator="VectorField", seed=cfg["seed"], mode_no=cfg["modes"],
                  mean_velocity=cfg["mean"])


_FRESH = {}


def _settings_check(gs, name, dim, obj_gen, u, st, pts, what, sink, rp, done):
    """The field u must be the vector field of settings st: mean clause, Kraichnan formula over the generator's own
    modes, equality with a freshly built SRF.  -> False after reporting."""
    e1 = np.zeros((dim, 1))
    e1[0] = 1.0
    u = np.asarray(u)
    if st["var"] < 1e-20:
        want = np.zeros_like(u)
        want[0] = st["mean"]
        if not close(u, want, 1e-12):
            sink("VectorField:history:mean", "%s: the field is not (mean_velocity, 0[,0]): u(x0) = %s" % (what, u[:, 0].tolist()), dict(rp, upto=list(done)))
            return False
    ks, z1, z2 = np.asarray(obj_gen._cov_sample), np.asarray(obj_gen._z_1), np.asarray(obj_gen._z_2)
    if ks.shape[1] != st["modes"]:
        sink("VectorField:history:modes", "%s: the generator sums %d modes" % (what, ks.shape[1]), dict(rp, upto=list(done)))
        return False
    P = np.stack([probe_projector(_W["compiled"][0].summate_incompr, ks[:, j]) for j in range(ks.shape[1])], axis=1)
    phase = ks.T @ pts
    amp = z1[:, None] * np.cos(phase) + z2[:, None] * np.sin(phase)
    want = st["mean"] * e1 + st["mean"] * math.sqrt(st["var"] / st["modes"]) * (P @ amp)
    if not close(u, want, 1e-9 * max(1.0, abs(st["mean"]) * math.sqrt(st["var"]))):
        sink("VectorField:history:formula", "%s: the field is not mean*e1 + mean*sqrt(var/N)*sum_j p_j(...) for the current settings: "
             "max deviation %.3e" % (what, float(np.max(np.abs(u - want)))), dict(rp, upto=list(done)))
        return False
    key = (name, dim, tuple(sorted(st.items())), pts.tobytes())
    fresh = _FRESH.get(key)
    if fresh is None:  # the same few settings recur in many histories
        fresh = _FRESH[key] = _hist_srf(gs, name, dim, st)(list(pts), store=False)
    if not close(u, fresh, 1e-12 * max(1.0, abs(st["mean"]) * math.sqrt(st["var"]))):
        sink("VectorField:history:differs-from-fresh", "%s: the field differs from a freshly built SRF with these settings: max deviation %.3e"
             % (what, float(np.max(np.abs(u - fresh)))), dict(rp, upto=list(done)))
        return False
    return True


def _build_hist_object(gs, name, dim, cfg, how):
    """The object of a history in one of the spellings of its construction (how = 0..3).  -> (srf or None, generator)"""
    from gstools.field.generator import IncomprRandMeth

    model = _mk_model(gs, name, dim, cfg["var"])
    if how == 0:
        srf = gs.SRF(model, generator="VectorField", seed=cfg["seed"], mode_no=cfg["modes"], mean_velocity=cfg["mean"])
    elif how == 1:  # generator chosen afterwards
        srf = gs.SRF(model, seed=cfg["seed"])
        srf.set_generator("VectorField", mean_velocity=cfg["mean"], mode_no=cfg["modes"], seed=cfg["seed"])
    elif how == 2:  # keyword arguments in another order, through a dict
        srf = gs.SRF(model, **{"mean_velocity": cfg["mean"], "mode_no": cfg["modes"], "generator": "VectorField", "seed": cfg["seed"]})
    else:  # the generator class on its own
        return None, IncomprRandMeth(model, mean_velocity=cfg["mean"], mode_no=cfg["modes"], seed=cfg["seed"])
    return srf, srf.generator


def run_history(gs, name, dim, inp, out, pts, sink, how=0):
    """One history of Kernels.tla (kind vf_hist) on ONE object (an SRF with a VectorField generator, or the generator
    class itself); after every "gen" the field must be the field of the settings TLC lists for it; a deep copy taken on
    the way keeps the settings it was taken with.  -> number of generated fields checked."""
    import copy
    import pickle

    cfg0 = _hist_settings(inp["init"])
    rp = {"kind": "history", "model": name, "dim": dim, "init": inp["init"], "ops": inp["ops"], "how": how}
    done = ["construct[%d]" % how]
    try:
        srf, gen = _build_hist_object(gs, name, dim, cfg0, how)
    except Exception as e:  # noqa: BLE001
        sink("VectorField:history:raises", "%s dim %d: construction spelling %d raised %s: %s" % (name, dim, how, type(e).__name__, e), rp)
        return 0
    gens = iter(out["gens"])
    n = 0
    original = None  # (srf, gen) kept at the first independent copy
    pos = np.array(pts, dtype=np.double)

    def generate(srf, gen, spelling):
        if srf is not None and spelling == 0:
            return srf(list(pts), store=False)
        if srf is not None:
            gen.update(srf.model)  # what SRF.__call__ does before it evaluates its generator
        if spelling in (0, 1):
            return gen(pos)
        return gen(pos, add_nugget=(spelling == 3))

    for o in inp["ops"]:
        done.append("%s %s" % (o["op"], o["v"]) if o["op"] not in ("copy", "deepcopy", "pickle") else o["op"])
        try:
            if o["op"] == "mean":
                gen.mean_u = float(o["v"])
            elif o["op"] == "var":
                if srf is not None:
                    srf.model.var = 4.0 ** o["v"]
                else:
                    m = _mk_model(gs, name, dim, 4.0 ** o["v"])
                    gen.update(m)
            elif o["op"] == "modes":
                gen.mode_no = int(o["v"])
            elif o["op"] == "seed":
                gen.seed = int(o["v"])
            elif o["op"] in ("copy", "deepcopy", "pickle"):
                obj = srf if srf is not None else gen
                if o["op"] == "pickle":
                    try:
                        new = pickle.loads(pickle.dumps(obj))
                    except Exception:  # noqa: BLE001  pickling is not supported by this tree: the operation is skipped
                        done[-1] = "pickle (unsupported, skipped)"
                        if original is None:
                            original = False  # the spec's `orig` refers to this copy, which does not exist
                        continue
                else:
                    new = copy.copy(obj) if o["op"] == "copy" else copy.deepcopy(obj)
                if o["op"] != "copy" and original is None:
                    original = (srf, gen)
                srf, gen = (new, new.generator) if srf is not None else (None, new)
            else:
                u = generate(srf, gen, o["v"])
        except Exception as e:  # noqa: BLE001
            sink("VectorField:history:raises", "%s dim %d: history %s raised %s: %s" % (name, dim, done, type(e).__name__, e), rp)
            return n
        if o["op"] != "gen":
            continue
        st = _hist_settings(next(gens))
        n += 1
        what = "%s dim %d, after %s on one object (expected settings %s)" % (name, dim, done, st)
        if not _settings_check(gs, name, dim, gen, u, st, pts, what, sink, rp, done):
            return n
    if original and out.get("orig"):
        st = _hist_settings(out["orig"][0])
        osrf, ogen = original
        try:
            u = generate(osrf, ogen, 0)
        except Exception as e:  # noqa: BLE001
            sink("VectorField:history:raises", "%s dim %d: the original raised %s after %s: %s" % (name, dim, type(e).__name__, done, e), rp)
            return n
        n += 1
        what = "%s dim %d, the ORIGINAL after %s were applied to its deep copy (expected settings %s)" % (name, dim, done, st)
        _settings_check(gs, name, dim, ogen, u, st, pts, what, sink, rp, done)
    return n


def _fold_hist(inp):
    """(replay only) what Kernels.tla HistGens / HistOrig compute for a recorded history."""
    st, gens, orig = dict(inp["init"]), [], []
    for o in inp["ops"]:
        if o["op"] == "gen":
            gens.append(dict(st))
        elif o["op"] in ("deepcopy", "pickle"):
            if not orig:
                orig.append(dict(st))
        elif o["op"] != "copy":
            st[{"mean": "mean", "var": "ve", "modes": "modes", "seed": "seed"}[o["op"]]] = o["v"]
    return {"gens": gens, "orig": orig}


_HIST_PTS = {}


def _task_history(blocks):
    import gstools as gs

    viol, n, nontriv = [], 0, set()

    def sink(key, what, rp):
        if not any(k == key for k, _w, _r in viol):
            viol.append((key, what, rp))

    g = np.random.default_rng(12345)
    samples = []
    for idx, text in blocks:
        st = tlaval.parse_state(text)
        inp, out = st["inp"], st["out"]
        models = HIST_MODELS_THOROUGH if _W.get("tier") == "thorough" else HIST_MODELS
        name, dim = models[idx % len(models)]
        pts = _HIST_PTS.setdefault(dim, g.uniform(-6, 6, size=(dim, 5)))
        k = run_history(gs, name, dim, inp, out, pts, sink, how=(idx // len(models)) % 4)
        n += k
        if any(o["op"] != "gen" for o in inp["ops"]):
            nontriv.add(hash(tlaval.freeze(inp["ops"])))
        if not samples and idx % 11 == 3:
            samples.append({"history_on_one_object": ["%s %s" % (o["op"], o["v"]) for o in inp["ops"]], "init": inp["init"],
                            "model": name, "dim": dim, "tlc_expected_settings_per_gen": out["gens"]})
    return {"viol": viol, "n": n, "nontrivial": nontriv, "samples": samples}


# ---------------------------------------------------------------------------


def _replay_file(path):
    """Re-run one recorded violation and print what every implementation returns."""
    rp = json.load(open(path))["replay"]
    print("replaying", {k: v for k, v in rp.items() if k in ("kind", "kernel", "seed", "params", "model", "dim")})
    setup = Setup(None)
    try:
        omp = []
        for fut in setup.futures:
            omp.append(fut.result()[0] if fut is not None else None)
        _worker_init(omp)
        if rp.get("kind") == "lattice":
            for kernel, args, exp_of in case_calls(rp["spec_input"]):
                if kernel != rp["kernel"]:
                    continue
                print("  TLC expected:", _lst(exp_of(rp["spec_output"])))
                for name, (r, err) in run_impls(kernel, args).items():
                    print("  %-14s %s" % (name, err or _lst(r)))
        elif rp.get("kind") == "random":
            args, extra = random_args(rp["kernel"], rp["seed"], rp["params"])
            for name, (r, err) in run_impls(rp["kernel"], args, extra).items():
                print("  %-14s %s" % (name, err or _short(r, 8)))
        elif rp.get("kind") == "field":
            print(_task_fields((rp["model"], rp["dim"], rp["seed"], rp["mode_no"])))
        elif rp.get("kind") == "history":
            import gstools as gs
            inp = {"init": rp["init"], "ops": rp["ops"]}
            pts = np.random.default_rng(12345).uniform(-6, 6, size=(rp["dim"], 5))
            run_history(gs, rp["model"], rp["dim"], inp, _fold_hist(inp), pts, how=rp.get("how", 0), sink=
                        lambda k, w, _r: print("  %s: %s" % (k, w)))
        elif rp.get("kind") == "caller-directional":
            for kernel, args, exp_of in case_calls(rp["spec_input"]):
                caller_directional(rp["spec_input"], rp["spec_output"], exp_of(rp["spec_output"]),
                                   lambda k, w, _r: print("  %s: %s" % (k, w)), rp.get("num_threads"))
        else:
            print(json.dumps(rp)[:2000])
    finally:
        setup.close()
    return 0


def run(pid, tier, seed, replay=None):
    if replay:
        return _replay_file(replay)
    rep = Report(pid, tier, seed)
    rng = random.Random(seed)
    _W["tier"] = tier  # inherited by the forked workers
    setup = Setup(rep, want_omp=True)
    try:
        with tlc.Scratch() as sc:
            return _run_c15(rep, rng, tier, seed, setup, sc) if pid == "C15" else _run_c16(rep, rng, tier, seed, setup, sc)
    finally:
        setup.close()


def _run_c15(rep, rng, tier, seed, setup, sc):
    rep.assumptions += [
        "lattice: wave vectors (pi/2)*Z^d, positions Z^d, integer amplitudes/matrices/field values; the float images are exact "
        "up to 1e-15 per term, compared with TLC's exact results at 1e-9",
        "plain interpretation = harness/pyx/rewriter (typed declarations dropped, prange = range, libc math = math with C "
        "domain semantics, memoryviews = ndarrays); it cannot be compiled here (no Cython), so a changed .pyx is judged through it",
        "OpenMP semantics encoded in spec/OmpTemplate.tla: private copies for scalars assigned in the region, implicit barrier at the "
        "end of a worksharing loop and none at its start, redundant execution of the parallel block outside the prange, any "
        "iteration-to-thread assignment; cross-checked against the #pragma omp clauses of the generated C",
        "schedule model abstraction: both branches of data dependent conditions are taken, continue/break ignored (superset of the "
        "accesses of every concrete run); bodies of called cdef functions are not expanded; extents: worksharing 3, others <= 2, 3 threads",
        "the OpenMP executions use the Cython-generated C present next to the .pyx (built with gcc -fopenmp into a scratch directory); "
        "if it is stale w.r.t. the .pyx this is reported as DRIFT and the schedule model (from the current source) is what covers the source",
    ]
    cases = lattice_cases(rng, tier)
    projdef, _ok = projector_def(setup, rep)
    kinds = ["summate", "fourier", "incompr", "krige", "krige_far", "vario_u", "vario_s", "vario_d"]
    jobs = kernel_jobs(sc, kinds, cases, tier, projdef)
    ojobs, regs_all = omp_jobs(sc, setup, rep, tier)
    t0 = time.time()
    # the largest models first
    ojobs.sort(key=lambda j: (j[0][1] != "directional", j[0][2] == ""))
    results = tlc.run_many(ojobs + jobs, parallel=NTLC)
    print("TLC: %d jobs in %.1fs" % (len(jobs) + len(ojobs), time.time() - t0))
    for kind in kinds:
        r = results[("kernels", kind)]
        tlc.must_pass(r, "Kernels " + kind)
        rep.add_tlc("Kernels[%s]" % kind, r)
        if r.error:
            raise tlc.MachineryError("Kernels[%s]: unexpected TLC verdict %s\n%s" % (kind, r.error, r.stdout[-2000:]))
    omp_verdicts(rep, sc, results, regs_all)
    drift_checks(rep, setup, regs_all)
    # replay
    tasks = []
    nstates = 0
    for kind in kinds:
        cnt, tk = lattice_tasks(sc, kind)
        nstates += cnt
        tasks += tk
    rspecs = random_specs(rng, tier)
    # the slow ones first
    tasks = [(_task_random, s) for s in rspecs if not s[3]] + [(_task_random, s) for s in rspecs if s[3]] + tasks
    t0 = time.time()
    stats = replay_pool(rep, setup, tasks)
    print("replay: %d kernel inputs (%d TLC states, %d random) in %.1fs" % (stats["n"], nstates, len(rspecs), time.time() - t0))
    rep.extra["tlc_enumerated_inputs"] = nstates
    rep.extra["random_float_inputs"] = len(rspecs)
    rep.extra["openmp_build"] = {rel: ("built" if p else "not available") for (rel, _m), p in zip(KERNEL_FILES, setup.builds(rep))}
    rep.extra["openmp_thread_counts"] = [str(t) for t in THREADS]
    rep.extra["max_additional_os_threads_in_a_worker"] = stats["threads_seen"]
    if any(setup.builds(rep)) and stats["threads_seen"] < 15:
        rep.note("the OpenMP runtime never had 15 additional OS threads in one worker (%d seen): thread counts may be capped" % stats["threads_seen"])
    callers_check(rep, seed, setup.interp[0])
    krige_relation(rep, seed, setup.interp[1])
    return rep.finish(
        level="model_checking",
        rule="inputs = every initial state of Kernels.tla (seeded lattice cases of all shapes 0..4 x dims 1..4 per kernel + complete "
             "value boxes enumerated by TLC) + seeded random float inputs; each is run through compiled / wrapper x3 / interpreted "
             ".pyx / OpenMP x7 thread counts; distinct = distinct (kernel, input); non-trivial = the expected (or compiled) output has "
             "a non-zero entry",
        exhaustive=False)


def _run_c16(rep, rng, tier, seed, setup, sc):
    rep.assumptions += [
        "divergence is evaluated analytically: u = mean*e1 + mean*sqrt(var/N) sum_j p_j (z1_j cos k_j.x + z2_j sin k_j.x) is first "
        "confirmed against the SRF output (1e-9) with p_j probed from the compiled kernel, then div u = mean*sqrt(var/N) sum_j "
        "(k_j.p_j)(-z1_j sin + z2_j cos) must vanish (1e-9); cos/sin of the driver are auxiliary, the deciding quantity is k_j.p_j",
        "|k|^2 (k.p(k)) is a polynomial of degree <= 3 per variable: vanishing on (-2..2)^d proves the identity for all k",
        "the generator's modes are read from its private attributes _cov_sample, _z_1, _z_2",
        "not covered: the split of the component variances (an expectation over directions: statistical)",
    ]
    projdef, extracted = projector_def(setup, rep)
    cases = {"incompr": lattice_cases(rng, tier)["incompr"]}
    jobs = kernel_jobs(sc, ["projector", "incompr", "vf_hist"], cases, tier, projdef)
    results = tlc.run_many(jobs, parallel=NTLC)
    rh = tlc.must_pass(results[("kernels", "vf_hist")], "Kernels vf_hist")
    rep.add_tlc("Kernels[vf_hist]", rh)
    if rh.error:
        raise tlc.MachineryError("Kernels[vf_hist]: %s\n%s" % (rh.error, rh.stdout[-2000:]))
    for kind in ("projector", "incompr"):
        r = results[("kernels", kind)]
        tlc.must_pass(r, "Kernels " + kind)
        rep.add_tlc("Kernels[%s]" % kind, r)
        if r.error:
            if r.error[0] == "invariant" and r.error[1].startswith("Extracted"):
                import re
                m = re.search(r"(?s)violated by the initial state:\n(.*?)\n\s*\n", r.stdout)
                st = tlaval.parse_state(m.group(1)) if m else {}
                rep.violation("projector:source:%s" % r.error[1],
                              "the projector expression of the current summator.pyx violates %s in TLC (exact rationals) at k = (pi/2)*%s"
                              % (r.error[1], st.get("inp", {}).get("kv", "?")),
                              {"kind": "tlc", "invariant": r.error[1], "state": st,
                               "projector": rep.extra.get("projector_extracted_from_source")})
            elif r.error[0] == "invariant":
                rep.violation("design:%s" % r.error[1], "the documented projector violates %s" % r.error[1],
                              {"trace": tlc.error_trace(r)})
            else:
                raise tlc.MachineryError("Kernels[%s]: %s\n%s" % (kind, r.error, r.stdout[-2000:]))
    tasks = []
    for kind in ("projector", "incompr"):
        if results[("kernels", kind)].error:
            # the dump of a run stopped by an invariant is incomplete: enumerate without the extracted invariants
            txt, cfg = mc_module("MC_K2_" + kind, "none", cases.get(kind, []), _boxes(tier)[kind], "McProjSrc(q, c) == Proj(q, c)\n")
            sc.write("MC_K2_%s.tla" % kind, txt)
            r2 = tlc.must_pass(tlc.run(sc, "MC_K2_" + kind, cfg, workers=2, timeout=900,
                                       dump=("states", sc.path("MC_K_%s.dump" % kind))), "Kernels " + kind)
            rep.add_tlc("Kernels[%s, documented projector]" % kind, r2)
        tasks += lattice_tasks(sc, kind)[1]
    hblocks = list(enumerate(read_blocks(sc, "vf_hist")))
    reps = 1 if tier == "quick" else 3  # thorough: every history on every model
    for r_ in range(reps):
        for ch in chunks([(i + r_, t) for i, t in hblocks], NPROC * 2):
            tasks.append((_task_history, ch))
    nprobe = 40 if tier == "quick" else 400
    for _ in range(NPROC):
        tasks.append((_task_probe, (rng.randrange(2**31), nprobe)))
    names = MODELS_C16
    fjobs = []
    for name in names:
        for dim in (2, 3):
            for _ in range(2 if tier == "quick" else 6):
                fjobs.append((name, dim, rng.randrange(1, 2**31 - 1), rng.choice([1, 2, 7, 16]) if tier == "quick" else rng.choice([1, 2, 3, 7, 16, 50])))
    tasks = [(_task_fields, j) for j in fjobs] + tasks
    t0 = time.time()
    skipped = []
    omp = setup.builds(rep)
    ctx = mp.get_context("fork")
    worst = 0.0
    with ctx.Pool(NPROC, initializer=_worker_init, initargs=(omp,)) as pool:
        for a in [pool.apply_async(fn, (arg,)) for fn, arg in tasks]:
            res = a.get(timeout=3000)
            rep.traces += res["n"]
            rep.evaluations += res["n"]
            rep.nontrivial |= res["nontrivial"]
            worst = max(worst, res.get("worst", 0.0))
            if res.get("skipped"):
                skipped.append(res["skipped"])
            for smp in res["samples"]:
                rep.sample(smp, cap=8)
            for key, what, rp in res["viol"]:
                if key.split(":")[0] not in ("summate_incompr", "projector", "VectorField"):
                    continue
                rep.violation(key, what, rp)
    print("replay: %d evaluations in %.1fs" % (rep.evaluations, time.time() - t0))
    rep.extra["max_relative_k_dot_p_random_probes"] = worst
    rep.extra["vector_field_configurations"] = len(fjobs) - len(skipped)
    rep.extra["skipped_models"] = skipped
    rep.extra["projector_identity_on_extracted_source_expression"] = bool(extracted)
    return rep.finish(
        level="model_checking",
        rule="TLC states = all k in (-2..2)^d, d = 2,3 (projector identity + expected p(k)) and lattice inputs of summate_incompr; "
             "each replayed on compiled / interpreted / OpenMP kernels; + random single-mode probes; + SRF(VectorField) fields for "
             "every model class x dim 2,3 x seeds x mode numbers (superposition, analytic divergence, mean for 3 velocities, scaling "
             "for 6 (mean, var) pairs); distinct = distinct (kernel,input) / (model,dim,seed); non-trivial = non-zero expected output",
        exhaustive=False)
