"""C07: CondCache.tla bound to gstools.CondSRF / gstools.krige.*.

design check : TLC explores all histories of calls (new / kept positions and seeds), set_pos,
               set_condition (new data / refresh), in-place and re-assigned model changes, mean
               re-assignment and delete_fields, and checks that a call made in a refreshed state
               never uses a kriging result of another configuration or other positions.
spec -> code : behaviours (edge cover + simulation) are replayed on real CondSRF objects; after
               every call made while ~dirty the result, raw_krige and krige_var are compared with
               a freshly built object (the property's own oracle) and with the formula
               mean + krige + sqrt(krige_var / var) * unconditional field assembled from an
               independent Krige and an independent SRF object; the field must reproduce the data.
"""
PROPERTIES = ("C07",)

import os
import random
import warnings

import numpy as np

from .. import tlc, tlaval, paths
from ..report import Report

KEEP = 0
SEEDS = {1: 11, 2: 20170519}
LEN = {1: 1.0, 2: 2.5, 3: 1.7}
BIG = 6.5e5      # offset of the "big coordinates" variant: positions 1.5 apart are numpy.allclose there
MEAN = {1: 0.0, 2: 1.5}
MODE_NO = 8


OFF = [0.0]


def cond_pos(tok, dim):
    a = {1: [0.0, 2.0, 5.0], 2: [1.0, 3.0, 6.5]}[tok]
    if dim == 1:
        return [np.array(a) + OFF[0]]
    b = {1: [0.0, 1.0, 0.5], 2: [2.0, 0.0, 1.5]}[tok]
    return [np.array(a) + OFF[0], np.array(b) + OFF[0]]


def cond_val(tok):
    return np.array({1: [1.0, 2.0, 0.5], 2: [0.0, -1.0, 3.0]}[tok])


MESHSWITCH = [False]


def target(tok, dim, cpos_all):
    """Target points: a few free points plus every conditioning location of both tokens."""
    shift = 1.5 if tok == 3 and not MESHSWITCH[0] else 0.0      # token 3: token 1 moved by 1.5 (allclose to it under the BIG offset)
    tok = 1 if tok == 3 else tok
    free = {1: [0.5, 1.5, 4.0, 40.0], 2: [0.25, 2.75, 7.0, 60.0]}[tok]
    xs = [v + OFF[0] + shift for v in free] + [v + shift for cp in cpos_all for v in cp[0]]
    if dim == 1:
        return [np.array(xs)]
    free_y = {1: [0.3, 0.7, 1.1, 40.0], 2: [1.3, 0.2, 0.9, 60.0]}[tok]
    ys = [v + OFF[0] for v in free_y] + [v for cp in cpos_all for v in cp[1]]
    return [np.array(xs), np.array(ys)]


class Real:
    def __init__(self, gs, variant, dim, cfg, seed, nugget=0.0, opts=()):
        self.gs, self.variant, self.dim, self.nugget, self.opts = gs, variant, dim, nugget, set(opts)
        self.c = self.build(cfg, seed)

    def model(self, tok):
        kw = dict(dim=self.dim, var=2.0, len_scale=LEN[tok], nugget=self.nugget)
        if tok == 3 and self.dim > 1:
            kw.update(anis=0.4, angles=0.5)
        if "nearby" in self.opts:
            # model tokens differ by less than numpy.isclose resolves (relative changes of a few 1e-6)
            kw["len_scale"] = {1: 1.0, 2: 1.0 + 4e-6, 3: 1.0 + 8e-6}[tok]
            if tok == 3 and self.dim > 1:
                kw.update(anis=1.0 - 3e-6, angles=3e-9)
        if "stable" in self.opts:
            # model tokens 1 and 2 differ ONLY in the shape parameter
            kw.update(len_scale=LEN[1] if tok in (1, 2) else LEN[3], alpha=0.8 if tok == 2 else 1.5)
            return self.gs.Stable(**kw)
        return self.gs.Gaussian(**kw)

    def cond_val(self, tok):
        if "lognormal" in self.opts:    # positive data above the trend
            return np.array({1: [1.0, 2.0, 0.5], 2: [0.7, 1.5, 3.0]}[tok])
        return cond_val(tok)

    def krige(self, cfg):
        gs = self.gs
        kw = dict(cond_pos=cond_pos(cfg["cpos"], self.dim), cond_val=self.cond_val(cfg["cval"]))
        if "cond_err0" in self.opts:
            kw["cond_err"] = 0.0            # error-free data although the model has a nugget
        elif self.nugget > 0:
            kw["exact"] = True
        if "lognormal" in self.opts:
            kw.update(normalizer=gs.normalizer.LogNormal(), trend=0.3)
        if self.variant == "Simple":
            return gs.krige.Simple(self.model(cfg["model"]), mean=MEAN[cfg["mean"]], **kw)
        # ordinary kriging has no mean argument: the token drives a constant trend instead
        return gs.krige.Ordinary(self.model(cfg["model"]), trend=MEAN[cfg["mean"]], **kw)

    def build(self, cfg, seed):
        return self.gs.CondSRF(self.krige(cfg), seed=SEEDS[seed], mode_no=MODE_NO)

    def positions(self, tok, cpos_all):
        """Target positions for a token.  In buffer mode the caller keeps ONE float64 array and
        overwrites it in place for every new set of target points (as user code often does)."""
        t = target(tok, self.dim, cpos_all)
        if not getattr(self, "buffer_mode", False):
            return t
        arr = np.array(t, dtype=np.double)
        if getattr(self, "_buf", None) is None or self._buf.shape != arr.shape:
            self._buf = arr
        else:
            self._buf[...] = arr
        return self._buf

    def mesh_kw(self, tok):
        """meshswitch variant: position token 3 is the coordinate tuple of token 1 read as the axes of a
        structured grid (a position token of the spec = coordinate tuple AND mesh type)."""
        if "meshswitch" not in self.opts:
            return {}
        return {"mesh_type": "structured" if tok == 3 else "unstructured"}

    def apply(self, op, cpos_all):
        c, n = self.c, op["name"]
        if n == "Call":
            kw = {"store": bool(op.get("st", True)), "krige_store": bool(op.get("kst", True))}
            if op["s"] != KEEP:
                kw["seed"] = SEEDS[op["s"]]
            if op["p"] != KEEP:
                return c(self.positions(op["p"], cpos_all), **kw, **self.mesh_kw(op["p"]))
            return c(**kw)
        if n == "SetPos":
            c.set_pos(self.positions(op["p"], cpos_all), **self.mesh_kw(op["p"]))
        elif n == "SetCondition":
            if op["form"] == "none":
                c.krige.set_condition()
            elif op["form"] == "val":
                c.krige.set_condition(cond_val=self.cond_val(op["cv"]))
            elif op["form"] == "pos":
                c.krige.set_condition(cond_pos=cond_pos(op["cp"], self.dim))
            else:
                c.krige.set_condition(cond_pos(op["cp"], self.dim), self.cond_val(op["cv"]))
        elif n == "ChangeModel":
            if op["how"] == "inplace" and "stable" in self.opts:
                new = self.model(op["m"])
                c.model.len_scale = new.len_scale
                c.model.alpha = new.alpha
                if self.dim > 1:
                    c.model.anis = new.anis
                    c.model.angles = new.angles
            elif op["how"] == "inplace":
                new = self.model(op["m"])
                c.model.len_scale = new.len_scale
                if self.dim > 1:
                    c.model.anis = new.anis
                    c.model.angles = new.angles
            else:
                c.model = self.model(op["m"])
        elif n == "ChangeMean":
            if self.variant == "Simple":
                c.mean = MEAN[op["v"]]
            else:
                c.trend = MEAN[op["v"]]
        elif n == "KrigeCall":
            c.krige(self.positions(op["p"], cpos_all), **self.mesh_kw(op["p"]))
        elif n == "DeleteFields":
            c.delete_fields()
        else:
            raise AssertionError(n)
        return None


def since_last_compare(hist):
    """Coarse signature of what happened since the last compared call."""
    kinds = set()
    for op in reversed(hist[:-1]):
        if op["name"] == "Call" and op.get("compare"):
            break
        kinds.add(op["name"] + (".refresh" if op["name"] == "SetCondition" and op["refresh"] else ""))
    out = [k for k in ("SetCondition", "SetCondition.refresh", "SetPos", "KrigeCall", "DeleteFields") if k in kinds]
    if kinds & {"ChangeModel", "ChangeMean"}:
        out.append("Change")
    return "+".join(out) or "none"


def replay(col, gs, variant, dim, beh, origin, nugget=0.0, big=False, opts=()):
    buffer_mode = big == "buffer"
    big = big is True
    OFF[0] = BIG if big else 0.0
    MESHSWITCH[0] = "meshswitch" in opts
    st0 = beh[0]
    cpos_all = [cond_pos(1, dim), cond_pos(2, dim)]
    r = Real(gs, variant, dim, st0["cfg"], st0["seed"], nugget, opts)
    r.buffer_mode = buffer_mode
    hist, ncmp = [], 0
    vtag = "%s%s%s%s%s" % (variant, ":nugget" if nugget else "", ":bigcoords" if big else "", ":posbuffer" if buffer_mode else "",
                           "".join(":" + o for o in sorted(opts)))
    for st in beh[1:]:
        op = st["op"]
        hist.append(op)
        rp = {"variant": vtag, "dim": dim, "init": {"cfg": st0["cfg"], "seed": st0["seed"]}, "ops": list(hist), "origin": origin}
        raised = None
        try:
            out = r.apply(op, cpos_all)
        except Exception as e:  # noqa: BLE001 - the library refused an operation the specification enables
            raised = e
        if raised is not None and not (op["name"] == "Call" and op["compare"]):
            col.drift.append("CondSRF(%s, dim %d): %s raised %s: %s after %s" % (vtag, dim, op["name"], type(raised).__name__, raised,
                                                                                 [tlaval.to_tla(o) for o in hist[-4:-1]]))
            return ncmp
        if op["name"] != "Call" or not op["compare"]:
            continue
        ncmp += 1
        cfg, seed, ptok = op["cfg"], op["seed"], op["pos"]
        sig = "%s:%s" % (vtag, since_last_compare(hist))
        # (1) the property's own oracle: a freshly built object
        fresh = Real(gs, variant, dim, cfg, seed, nugget, opts)
        pos = target(ptok, dim, cpos_all)
        ff = np.array(fresh.c(pos, **fresh.mesh_kw(ptok)))
        if raised is not None:     # the fresh object returned a field for the same configuration, positions and seed
            col.violation("raised:%s" % sig,
                          "CondSRF(%s, dim %d): the call after %s raised %s (%s) where a freshly built object returns a field"
                          % (vtag, dim, [tlaval.to_tla(o) for o in hist[-4:]], type(raised).__name__, raised), rp)
            return ncmp
        f = np.array(out)
        pairs = []
        if op.get("st", True):      # stored fields are only compared when this call was asked to store them
            pairs.append(("raw_krige", np.array(r.c["raw_krige"]), np.array(fresh.c["raw_krige"])))
        if op.get("kst", True):
            pairs.append(("krige_var", np.array(r.c.krige["krige_var"]), np.array(fresh.c.krige["krige_var"])))
        if nugget == 0:
            # with a nugget the noise drawn depends on how often the stream was used before (C11: nugget-free clause)
            pairs.insert(0, ("field", f, ff))
        for name, a, b in pairs:
            if a.shape != b.shape or not np.allclose(a, b, rtol=0, atol=1e-9):
                col.violation("stale:%s:%s" % (name, sig),
                              "CondSRF(%s, dim %d): %s after %s differs from a freshly built object (max |d| = %.3g)"
                              % (vtag, dim, name, [tlaval.to_tla(o) for o in hist[-4:]],
                                 float(np.max(np.abs(a - b))) if a.shape == b.shape else float("nan")), rp)
                return ncmp
        if "meshswitch" in opts:      # the remaining oracles are written for point lists
            continue
        # (2) independent assembly (evaluated on the fresh object, whose noise stream position is known):
        #     mean + krige + sqrt(max(kvar - nugget, 0)/var) * unconditional field + scaled nugget noise
        k = fresh.krige(cfg)
        kf, kv = k(pos, post_process=False)
        model = fresh.model(cfg["model"])
        gen = gs.field.generator.RandMeth(model, mode_no=MODE_NO, seed=SEEDS[seed])
        raw = gen(model.isometrize(np.array(pos)), add_nugget=False)
        mean = MEAN[cfg["mean"]]   # constant mean (simple) resp. constant trend (ordinary) added back by post-processing
        if nugget > 0:
            vs = np.maximum(kv - nugget, 0)
            noise = gen.get_nugget(raw.shape)           # first draw of the stream, sqrt(nugget) * N(0, 1)
            expect = mean + kf + np.sqrt(vs / 2.0) * raw + np.sqrt((kv - vs) / nugget) * noise
        else:
            expect = mean + kf + np.sqrt(kv / 2.0) * raw
        if "lognormal" in opts:     # output = trend + denormalize(mean + conditioned raw field)
            expect = 0.3 + np.exp(expect)
        if not np.allclose(ff, expect, rtol=0, atol=1e-8):
            col.violation("formula:%s" % vtag,
                          "CondSRF(%s, dim %d): field != mean + krige + sqrt(krige_var/var) * unconditional field of the same seed (+ scaled nugget) (max |d| = %.3g)"
                          % (vtag, dim, float(np.max(np.abs(ff - expect)))), rp)
            return ncmp
        # (3) the data are honoured (zero measurement error / exact kriging)
        cp = cond_pos(cfg["cpos"], dim)
        cv = fresh.cond_val(cfg["cval"])
        P = np.array(pos)
        for i in range(len(cv) if "cond_err0" not in opts else 0):   # (with a nugget model the field carries nugget noise at the data)
            j = np.where(np.all(np.isclose(P.T, np.array([c[i] for c in cp]), rtol=0, atol=1e-9), axis=1))[0]
            if len(j) and abs(f[j[0]] - cv[i]) > 1e-6:
                col.violation("data-not-honoured:%s" % vtag,
                              "CondSRF(%s, dim %d): field at conditioning location %d is %r, data value %r"
                              % (vtag, dim, i, float(f[j[0]]), float(cv[i])), rp)
                return ncmp
        # (4) far from the data simple kriging tends to mean + unconditional field
        if variant == "Simple" and nugget == 0 and not opts:
            far = int(np.argmax(P[0]))
            if abs(f[far] - (mean + raw[far])) > 1e-6:
                col.violation("far-field:Simple", "CondSRF(Simple, dim %d): far from the data field - (mean + raw) = %.3g"
                              % (dim, float(f[far] - mean - raw[far])), rp)
                return ncmp
    return ncmp


def mc_text(name, clear=True, size="mc", own="both"):
    defs = {"ReuseToken": '"%s"' % own,
            "CPos": "{1, 2}", "CVal": "{1, 2}", "Models": "{1, 2, 3}", "Means": "{1, 2}", "Poss": "{1, 2, 3}",
            "Seeds": "{1, 2}", "ClearOnSetCondition": "TRUE" if clear else "FALSE"}
    if size == "gen":
        defs.update({"CVal": "{1}", "Seeds": "{1}"})
    if size == "mcquick":   # exhaustive design check of the quick tier
        defs.update({"CVal": "{1}", "Seeds": "{1}", "Models": "{1, 2}", "Poss": "{1, 2}"})
    mod = "---- MODULE %s ----\nEXTENDS CondCache\n" % name + "".join("Mc%s == %s\n" % kv for kv in defs.items())
    mod += 'DepthBound == TLCGet("level") <= 5\nGenInit == Init /\\ cfg = [cpos |-> 1, cval |-> 1, model |-> 1, mean |-> 1] /\\ seed = 1\n====\n'
    cfg = "CONSTANTS\n" + "".join(" %s <- Mc%s\n" % (k, k) for k in defs)
    return mod, cfg


class _Collect:
    def __init__(self):
        self.violations = []
        self.drift = []

    def violation(self, key, what, replay):
        if not any(k == key for k, _w, _r in self.violations):
            self.violations.append((key, what, replay))


def _work(job):
    variant, dim, nugget, big, opts, behs = job
    warnings.simplefilter("ignore")
    import gstools as gs

    col = _Collect()
    out = {"traces": 0, "cmp": 0, "nontrivial": set(), "samples": []}
    for origin, sts in behs:
        n = replay(col, gs, variant, dim, sts, origin, nugget, big, opts)
        out["traces"] += 1
        out["cmp"] += n
        if n:
            out["nontrivial"].add(hash((variant, dim, nugget, big, opts, tlaval.freeze([s["op"] for s in sts]))))
        if not out["samples"] and origin == "simulate" and n:
            out["samples"].append({"variant": variant, "dim": dim, "ops": [tlaval.to_tla(s["op"]) for s in sts[1:]][:10]})
    out["violations"] = col.violations
    out["drift"] = col.drift[:3]
    return out


RAISED = []     # exceptions raised by the library during recorded executions


def random_executions(gs, variant, dim, rng, n_exec, n_ops):
    """Random operations on real CondSRF objects (no TLC involved); logs whether each call re-ran the kriging."""
    OFF[0] = 0.0
    cpos_all = [cond_pos(1, dim), cond_pos(2, dim)]
    kcls = gs.krige.Krige
    orig = kcls.__call__
    count = [0]

    def counting(this, *a, **k):
        count[0] += 1
        return orig(this, *a, **k)

    events = []
    kcls.__call__ = counting
    try:
        for _x in range(n_exec):
            cfg = {"cpos": rng.choice([1, 2]), "cval": rng.choice([1, 2]), "model": rng.choice([1, 2, 3]), "mean": rng.choice([1, 2])}
            seed = rng.choice([1, 2])
            r = Real(gs, variant, dim, cfg, seed)
            events.append({"name": "Init", "cfg": dict(cfg), "seed": seed})
            have_pos = False
            for _i in range(n_ops):
                try:
                    k = rng.choice(["Call", "Call", "Call", "SetPos", "SetCondition", "ChangeModel", "ChangeMean", "KrigeCall", "DeleteFields"])
                    if k == "Call":
                        p = rng.choice([KEEP, 1, 2, 3]) if have_pos else rng.choice([1, 2, 3])
                        op = {"name": "Call", "p": p, "s": rng.choice([KEEP, 1, 2]), "st": rng.random() < 0.75, "kst": rng.random() < 0.75}
                        have_pos = True
                    elif k in ("SetPos", "KrigeCall"):
                        op = {"name": k, "p": rng.choice([1, 2, 3])}
                        have_pos = True
                    elif k == "SetCondition":
                        form = rng.choice(["both", "val", "pos", "none"])
                        cp = cfg["cpos"] if form in ("val", "none") else rng.choice([1, 2])
                        cv = cfg["cval"] if form in ("pos", "none") else rng.choice([1, 2])
                        op = {"name": k, "cp": cp, "cv": cv, "form": form, "refresh": cp == cfg["cpos"] and cv == cfg["cval"]}
                        cfg["cpos"], cfg["cval"] = cp, cv
                    elif k == "ChangeModel":
                        m = rng.choice([x for x in (1, 2, 3) if x != cfg["model"]])
                        op = {"name": k, "m": m, "how": rng.choice(["inplace", "assign"])}
                        cfg["model"] = m
                    elif k == "ChangeMean":
                        v = 3 - cfg["mean"]
                        op = {"name": k, "v": v}
                        cfg["mean"] = v
                    else:
                        op = {"name": k}
                    before = count[0]
                    r.apply(op, cpos_all)
                    if k == "Call":
                        op["reuse"] = count[0] == before
                    events.append(op)
                except Exception as e:  # noqa: BLE001 - the library refused an operation: the execution ends here
                    RAISED.append("%s: %s" % (type(e).__name__, e))
                    break
    finally:
        kcls.__call__ = orig
    return events


def trace_validation(rep, sc, tier, rng):
    import json
    import gstools as gs

    n_exec, n_ops = (60, 25) if tier == "quick" else (500, 40)
    jobs, meta = [], {}
    for variant, dim in (("Simple", 1), ("Ordinary", 2)):
        tag = "%s_%d" % (variant, dim)
        with warnings.catch_warnings():
            warnings.simplefilter("ignore")
            evs = random_executions(gs, variant, dim, rng, n_exec, n_ops)
        fn = sc.write("ctrace_%s.json" % tag, json.dumps(evs))
        name = "TR_" + tag
        mod, cfg = mc_text(name, True, "mc")
        mod = mod.replace("EXTENDS CondCache", "EXTENDS TraceCondCache")
        sc.write(name + ".tla", mod)
        cfgt = cfg + "SPECIFICATION TraceSpec\nINVARIANT TraceMatches\nINVARIANT NotStuck\nPOSTCONDITION TraceAccepted\nCHECK_DEADLOCK FALSE\n"
        jobs.append((tag, sc, name, cfgt, dict(workers=1, timeout=1800, env={"TRACE_FILE": fn})))
        meta[tag] = evs
    tag0 = jobs[0][0]
    evs0 = json.loads(json.dumps(meta[tag0]))
    k = next(i for i in range(len(evs0) // 2, len(evs0)) if evs0[i]["name"] == "Call")
    evs0[k]["reuse"] = not evs0[k]["reuse"]
    fn0 = sc.write("ctrace_corrupt.json", json.dumps(evs0))
    jobs.append(("__corrupt__", sc, jobs[0][2], jobs[0][3], dict(workers=1, timeout=1800, env={"TRACE_FILE": fn0})))
    res = tlc.run_many(jobs, parallel=3)
    rc = res.pop("__corrupt__")
    tlc.must_pass(rc, "corrupted trace")
    if rc.error is None:
        raise tlc.MachineryError("binding not demonstrated: a corrupted CondSRF trace was accepted")
    n_ev = n_ex = n_bad = 0
    for tag, r in sorted(res.items()):
        evs = meta[tag]
        tlc.must_pass(r, "trace " + tag)
        rep.add_tlc("TraceCondCache[%s]" % tag, r)
        n_ev += len(evs)
        n_ex += sum(1 for e in evs if e["name"] == "Init")
        if r.error:
            n_bad += 1
            tr = tlc.error_trace(r)
            l = tr[-1]["state"].get("l", 0) if tr else 0
            idx = max(0, l - 2)
            rep.drift_msg("recorded CondSRF execution (%s) is not explained by the reuse decision of CondCache.tla at event #%d %s (%s)"
                          % (tag, idx, evs[idx] if idx < len(evs) else "?", r.error[1]))
    if RAISED:
        rep.drift_msg("%d recorded executions ended with an exception raised by the library, first: %s" % (len(RAISED), RAISED[0]))
    rep.traces += n_ex
    rep.extra["trace_validation"] = {"executions": n_ex, "events": n_ev, "rejected_batches": n_bad,
                                     "observable": "whether Krige.__call__ ran during cond_srf() (cache reused or not), through a wrapper",
                                     "binding_demonstration": "a recorded execution with one flipped observation is rejected: %s %s" % rc.error}


def run(pid, tier, seed, replay=None):
    rep = Report(pid, tier, seed)
    rng = random.Random(seed)
    thorough = tier == "thorough"
    rep.assumptions += [
        "conservative reading: equality with a freshly built object is required only for calls made in a refreshed state "
        "(no model / mean change since the last set_condition()); calls made while dirty are executed but not compared",
        "tokens: 2 conditioning layouts x 2 value vectors x len_scale {1, 2.5} x mean {0 or None, 1.5} x 2 target sets x seeds {11, 20170519}; Gaussian model, var 2, nugget 0, mode_no 8",
        "the formula oracle uses independent Krige and SRF objects of the same library (pinned by C05/C11 checks)",
    ]
    if replay:
        import json
        print(json.dumps(json.load(open(replay))["replay"], indent=1))
        return 0
    with tlc.Scratch() as sc:
        os.makedirs(sc.path("sim"), exist_ok=True)
        jobs = []
        for nm, clear, own in (("MC_cc", True, "both"), ("NEG_cc", False, "both"), ("NEG2_cc", True, "none"), ("NEG3_cc", True, "kvar")):
            # exhaustive on the small constants (the full constants have > 3e7 distinct states: not exhaustible here)
            mod, cfg = mc_text(nm, clear, "mcquick", own=own)
            sc.write(nm + ".tla", mod)
            jobs.append((nm, sc, nm, cfg + "INIT Init\nNEXT Next\nVIEW View\nINVARIANT Coherent\nINVARIANT MatrixCurrent\n",
                         dict(workers=4, timeout=1800)))
        mod, cfg = mc_text("G_cc", True, "gen")
        sc.write("G_cc.tla", mod)
        jobs.append(("G_cc", sc, "G_cc", cfg + "INIT GenInit\nNEXT Next\nCONSTRAINT DepthBound\n",
                     dict(workers=4, timeout=1800, dump=("dot", sc.path("G_cc.dot")))))
        mod, cfg = mc_text("S_cc", True)
        sc.write("S_cc.tla", mod)
        jobs.append(("S_cc", sc, "S_cc", cfg + "INIT Init\nNEXT Next\n", dict(timeout=1800, simulate=dict(
            num=300 if thorough else 200, depth=24 if thorough else 18, seed=rng.randrange(1, 2**31), file=sc.path("sim/S_cc")))))
        res = tlc.run_many(jobs, parallel=4)
        for nm, r in res.items():
            tlc.must_pass(r, nm)
        if res["NEG_cc"].error is None or res["NEG2_cc"].error is None or res["NEG3_cc"].error is None:
            raise tlc.MachineryError("vacuity: CondCache does not detect stale reuse when a repaired defect is switched back on")
        rep.extra["non_vacuity"] = ("with ClearOnSetCondition = FALSE TLC reports %s %s; with ReuseToken = none: %s %s; with ReuseToken = kvar: %s %s"
                                    % (res["NEG_cc"].error + res["NEG2_cc"].error + res["NEG3_cc"].error))
        for nm in ("MC_cc", "G_cc", "S_cc"):
            rep.add_tlc("CondCache." + nm, res[nm])
        if res["MC_cc"].error:
            rep.violation("design:%s" % res["MC_cc"].error[1], "the code-shaped cache model violates %s" % res["MC_cc"].error[1],
                          {"trace": tlc.error_trace(res["MC_cc"])})
        nodes, edges, inits = tlc.read_dot(sc.path("G_cc.dot"))
        ps, _ = paths.edge_cover(nodes, edges, inits, rng=rng, merge=True)
        cap = 900 if thorough else 500
        if len(ps) > cap:
            ps = rng.sample(ps, cap)
        behs = [("state-graph edge cover", [nodes[i] for i in p]) for p in ps]
        behs += [("simulate", [s for _a, s in b]) for b in tlc.read_sim_traces(sc.path("sim"), "S_cc")]
        behs = [b for b in behs if any(s["op"]["name"] == "Call" and s["op"]["compare"] for s in b[1][1:])]
        trace_validation(rep, sc, tier, rng)
    work = []
    combos = [("Simple", 1, 0.0, False, ()), ("Ordinary", 2, 0.0, False, ()), ("Simple", 2, 0.3, False, ()), ("Ordinary", 1, 0.0, True, ()),
              ("Simple", 2, 0.0, True, ()), ("Simple", 1, 0.0, "buffer", ()), ("Ordinary", 2, 0.0, "buffer", ()),
              ("Simple", 1, 0.3, False, ("cond_err0",)), ("Simple", 2, 0.0, False, ("lognormal",)), ("Simple", 1, 0.0, False, ("stable",)),
              ("Ordinary", 2, 0.0, False, ("meshswitch",)), ("Simple", 2, 0.0, False, ("nearby",))]
    if thorough:
        combos += [("Ordinary", 1, 0.0, False, ()), ("Simple", 2, 0.0, False, ()), ("Ordinary", 2, 0.3, False, ()), ("Ordinary", 2, 0.0, True, ()),
                   ("Ordinary", 2, 0.3, False, ("cond_err0",)), ("Simple", 1, 0.0, False, ("lognormal",)), ("Ordinary", 2, 0.0, False, ("stable",)),
                   ("Simple", 2, 0.0, False, ("meshswitch",)), ("Simple", 1, 0.0, False, ("meshswitch",)),
                   ("Ordinary", 1, 0.0, False, ("nearby",)), ("Ordinary", 2, 0.3, False, ("nearby",))]
    for ci, (variant, dim, nugget, big, opts) in enumerate(combos):
        n = 6
        sub = behs[ci % 3::3] if thorough else behs[ci % 2::2]
        if "stable" in opts:        # spectral sampling of the Stable model is slow (MCMC): fewer behaviours,
            # first those in which ONLY the shape parameter changes (model tokens 1 <-> 2) before a compared call
            def shape_only(b):
                sts = b[1]
                for i in range(1, len(sts)):
                    o = sts[i]["op"]
                    if o["name"] == "ChangeModel" and {o["m"], sts[i - 1]["cfg"]["model"]} == {1, 2}:
                        return any(x["op"]["name"] == "Call" and x["op"]["compare"] for x in sts[i + 1:])
                return False
            rel = [b for b in sub if shape_only(b)]
            sub = rel[: (150 if thorough else 40)] + sub[:: (4 if thorough else 8)]
        for i in range(n):
            work.append((variant, dim, nugget, big, opts, sub[i::n]))
    import multiprocessing as mp

    with mp.get_context("fork").Pool(14) as pool:
        for o in pool.imap_unordered(_work, work):
            rep.traces += o["traces"]
            rep.evaluations += o["cmp"]
            rep.nontrivial |= o["nontrivial"]
            for s in o["samples"]:
                rep.sample(s, cap=4)
            for key, what, rp in o["violations"]:
                rep.violation(key, what, rp)
            for d in o.get("drift", ()):
                rep.drift_msg(d)
    return rep.finish(
        level="model_checking",
        rule="behaviours = edge cover of TLC's state graph (<= 4 operations) + TLC -simulate histories, replayed on CondSRF(Simple/Ordinary) in dim 1 and 2; "
             "evaluations = calls compared with a freshly built object; distinct = distinct (variant, dim, operation sequence) with at least one compared call",
        exhaustive=False)
