"""C11 / C17: Generator.tla bound to gstools.SRF (RandMeth, IncomprRandMeth, Fourier).

design check : TLC explores all histories of calls / in-place model changes / model
               re-assignment / generator setters over finite domains and checks Coherent,
               Periodic and IdentityIrrelevant on the code-shaped layer.
spec -> code : TLC behaviours (state-graph edge cover + simulation) are replayed on real SRF
               objects.  Oracles (all relational, as the property is):
               * calls with equal settings `want` agree on common points and agree with a
                 freshly constructed SRF of those settings (history independence),
               * one call evaluated as point list / permuted / subset / split in batches /
                 structured grid / meshio mesh / other storage name gives the same values,
               * the whole behaviour run with shared and with fresh equal-valued seed
                 objects gives bitwise equal outputs including nugget noise,
               * Fourier: f(x) = f(x + period_d * main_axis_d) at off-grid points (C17).
"""
PROPERTIES = ("C11", "C17")

import os
import random
import warnings

import numpy as np

from .. import tlc, tlaval, paths
from ..report import Report

KEEP = 0
SEED_SMALL, SEED_BIG, SEED_NEAR = 7, 20170519, 20170521   # NEAR: within numpy.isclose of BIG
VAR = {1: 1.0, 2: 2.0}
LEN = {1: 1.0, 2: 2.0}
ANIS = {1: 1.0, 2: 0.5, 3: 0.25}


ANIS_FULL = {1: [1.0, 1.0], 2: [0.5, 1.0], 3: [0.5, 0.25]}


def anis_of(tok, dim):
    """Per-axis ratios: token 2 changes only the first ratio, token 3 the first two differently."""
    if dim == 2:
        return [ANIS[tok]]
    return ANIS_FULL[tok][: dim - 1]


ANG = {0: 0.0, 1: 0.4}
NUG = {0: 0.0, 1: 0.5}
NEARBY = [False]
_WIDE = dict(VAR=dict(VAR), LEN=dict(LEN), ANIS=dict(ANIS), ANIS_FULL=dict(ANIS_FULL), ANG=dict(ANG), NUG=dict(NUG))
# "nearby" lattice: the values of a parameter differ by less than numpy.isclose resolves (small values, or
# relative changes of a few 1e-6); every one of them is a different model and must give a different field
_NEAR = dict(VAR={1: 1e-10, 2: 4e-10}, LEN={1: 1.0, 2: 1.0 + 4e-6}, ANIS={1: 1.0, 2: 1.0 - 3e-6, 3: 1.0 - 6e-6},
             ANIS_FULL={1: [1.0, 1.0], 2: [1.0 - 3e-6, 1.0], 3: [1.0 - 3e-6, 1.0 - 6e-6]}, ANG={0: 0.0, 1: 3e-9}, NUG={0: 0.0, 1: 4e-9})


def set_lattice(nearby):
    NEARBY[0] = bool(nearby)
    src = _NEAR if nearby else _WIDE
    for name, tab in (("VAR", VAR), ("LEN", LEN), ("ANIS", ANIS), ("ANIS_FULL", ANIS_FULL), ("ANG", ANG), ("NUG", NUG)):
        tab.clear()
        tab.update(src[name])
_SHARED = {SEED_SMALL: SEED_SMALL, SEED_BIG: SEED_BIG, SEED_NEAR: SEED_NEAR}


MODE_SCALE = [1]     # real mode number = spec token * MODE_SCALE[0] (32 in the "many modes" variant, where the
                     # MCMC sampler of the radial spectral density runs chains of different length for 128 / 192 modes)


def seed_obj(v, fresh):
    if v == KEEP:
        return np.nan
    return int(str(v)) if fresh else _SHARED[v]


FOURIER_ODD = [False]    # variant with (mode number, period) pairs for which a float arange over the wave numbers
                         # is prone to produce one element too many: 26 modes / period 8, 14 modes / period 17


def period_of(tok, dim):
    if FOURIER_ODD[0]:
        return [8.0] * dim if tok == 1 else [17.0, 8.0, 16.0][:dim]
    return [8.0] * dim if tok == 1 else [8.0, 16.0, 12.0][:dim]


MAX_DRAWS = 3        # spec constant MaxDraws: the modelled position of the noise stream saturates here
ODD_MODES = [3]      # an odd mode number (refused by the Fourier generator)


def fourier_modes(tok):
    return {4: 26, 6: 14}[tok] if FOURIER_ODD[0] else tok


def mc_text(name, kind, dim, size, seed_compare="value", dk_refresh=True, refused_atomic=True):
    small = size in ("gen",)
    anis = "{1}" if dim == 1 else "{1, 2, 3}"
    ang = "{0}" if dim == 1 else ("{0, 1}" if not small else "{0, 1}")
    defs = {
        "Kind": '"%s"' % kind, "SeedVals": "{%d, %d, %d}" % (SEED_SMALL, SEED_BIG, SEED_NEAR), "SmallSeeds": "{%d}" % SEED_SMALL,
        "VarVals": "{1, 2}", "LenVals": "{1, 2}", "AnisVals": anis, "AngVals": ang, "NugVals": "{0, 1}",
        "ModeNos": "{4, 6}", "Periods": "{1, 2}" if kind == "Fourier" else "{1}",
        "SeedCompare": '"%s"' % seed_compare, "DkRefresh": "TRUE" if dk_refresh else "FALSE",
        "MaxDraws": str(MAX_DRAWS), "RefusedAtomic": "TRUE" if refused_atomic else "FALSE",
        "UpdModels": ("{[var |-> 1, len |-> 2, anis |-> 1, ang |-> 0, nug |-> 0]}" if dim == 1 else
                      "{[var |-> 1, len |-> 1, anis |-> 3, ang |-> 0, nug |-> 0], [var |-> 2, len |-> 2, anis |-> 1, ang |-> 1, nug |-> 1]}"),
        "InitModels": ("{[var |-> 1, len |-> 1, anis |-> 1, ang |-> 0, nug |-> 0]}" if dim == 1 else
                       "{[var |-> 1, len |-> 1, anis |-> 1, ang |-> 0, nug |-> 0], [var |-> 2, len |-> 1, anis |-> 2, ang |-> 1, nug |-> 0]}")
        if small else "Model",
    }
    if size == "mcquick":   # exhaustive design check of the quick tier: two seeds, two anisotropy tokens
        defs["SeedVals"] = "{%d, %d}" % (SEED_SMALL, SEED_BIG)
        defs["AnisVals"] = "{1}" if dim == 1 else "{1, 2}"
        defs["LenVals"] = "{1}"
        defs["UpdModels"] = defs["UpdModels"].replace("len |-> 2", "len |-> 1")
    mod = "---- MODULE %s ----\nEXTENDS Generator\n" % name
    mod += "".join("Mc%s == %s\n" % kv for kv in defs.items())
    mod += 'DepthBound == TLCGet("level") <= %d\n====\n' % (4 if dim == 1 else 3)
    cfg = "CONSTANTS\n" + "".join(" %s <- Mc%s\n" % (k, k) for k in defs)
    return mod, cfg


INVS = ["Coherent", "Periodic", "IdentityIrrelevant"]


def cfg_mc(cfg):
    return cfg + "INIT Init\nNEXT Next\nVIEW View\n" + "".join("INVARIANT %s\n" % i for i in INVS)


def cfg_gen(cfg, depth=False):
    return cfg + "INIT Init\nNEXT Next\n" + ("CONSTRAINT DepthBound\n" if depth else "")


# ---------------------------------------------------------------------------


def grid_axes(dim):
    return [np.array([0.0, 1.5, 3.0]), np.array([0.5, 2.0]), np.array([1.0, 2.5])][:dim]


def grid_points(dim):
    ax = grid_axes(dim)
    mg = np.meshgrid(*ax, indexing="ij")
    return np.array([m.reshape(-1) for m in mg])


class Real:
    """One real SRF driven by spec operations."""

    def __init__(self, kind, cls, dim, st, fresh):
        import gstools as gs

        self.gs, self.kind, self.dim, self.fresh = gs, kind, dim, fresh
        self.cls = getattr(gs, cls)
        kw = dict(seed=seed_obj(st["seed"], fresh))
        if kind == "Fourier":
            per = period_of(st["period"], dim)
            kw.update(mode_no=[fourier_modes(st["modeNo"])] * dim, period=per[0] if (not fresh and len(set(per)) == 1) else per)
        else:
            kw.update(mode_no=st["modeNo"] * MODE_SCALE[0])
        gen = {"RandMeth": "RandMeth", "Fourier": "Fourier", "IncomprRandMeth": "IncomprRandMeth"}[kind]
        self.srf = gs.SRF(self.model(st["pm"]), generator=gen, **kw)

    def model(self, pm):
        kw = dict(dim=self.dim, var=VAR[pm["var"]], len_scale=LEN[pm["len"]], nugget=NUG[pm["nug"]])
        if self.dim > 1:
            kw["anis"] = anis_of(pm["anis"], self.dim)
            kw["angles"] = [ANG[pm["ang"]]] + [0.0] * (self.dim * (self.dim - 1) // 2 - 1)
        return self.cls(**kw)

    def apply(self, op):
        n, srf = op["name"], self.srf
        if n == "InPlace":
            f, v = op["fld"], op["v"]
            if f == "var":
                srf.model.var = VAR[v]
            elif f == "len":
                srf.model.len_scale = LEN[v]
            elif f == "nug":
                srf.model.nugget = NUG[v]
            elif f == "anis":
                srf.model.anis = anis_of(v, self.dim)
            elif f == "ang":
                srf.model.angles = [ANG[v]] + [0.0] * (self.dim * (self.dim - 1) // 2 - 1)
        elif n == "AssignModel":
            srf.model = self.model(op["m"])
        elif n == "GenModeNo":
            srf.generator.mode_no = [fourier_modes(op["v"])] * self.dim if self.kind == "Fourier" else op["v"] * MODE_SCALE[0]
        elif n == "GenPeriod":
            per = period_of(op["v"], self.dim)
            if self.fresh:                              # the two runs of a behaviour use different spellings
                srf.generator.period = per
            elif len(set(per)) == 1:
                srf.generator.period = per[0]           # one number for all axes
            else:                                       # the array handed out by the property, edited and assigned back
                cur = srf.generator.period
                cur[...] = per
                srf.generator.period = cur
        elif n == "GenSeed":
            srf.generator.seed = seed_obj(op["v"], self.fresh)
        elif n == "GenReset":
            srf.generator.reset_seed(seed_obj(op["v"], self.fresh))
        elif n == "GenUpdate":
            srf.model = self.model(op["m"])
            kw = {}
            if op["p"] != KEEP:
                per = period_of(op["p"], self.dim)
                kw["period"] = per[0] if (not self.fresh and len(set(per)) == 1) else per
            if op["n"] != KEEP:
                kw["mode_no"] = [fourier_modes(op["n"])] * self.dim
            srf.generator.update(model=srf.model, **kw)
        elif n == "GenRefused":
            self.refused(op)
        else:
            raise AssertionError(n)

    def refused(self, op):
        """A request the generator must refuse; the caller catches the error and goes on."""
        srf, gen = self.srf, self.srf.generator
        self.nref = getattr(self, "nref", 0) + 1
        has_m, has_p = "none" not in op["m"], op["p"] != KEEP
        odd = [ODD_MODES[0]] * self.dim
        try:
            if has_m or has_p:
                kw = {}
                if has_m:
                    kw["model"] = self.model(op["m"])
                if has_p:
                    kw["period"] = period_of(op["p"], self.dim)
                gen.update(mode_no=odd, **kw)
            elif self.nref % 3 == 1:
                gen.mode_no = odd
            elif self.nref % 3 == 2:
                gen.update(mode_no=odd[:1])
            else:
                gen.update(mode_no=odd, seed=SEED_NEAR + 5)
        except ValueError:
            return True
        return False

    def call(self, s, pos, **kw):
        return self.srf(pos, seed=seed_obj(s, self.fresh), **kw)


_REF = {}


def reference(kind, cls, dim, want, X, tag="grid"):
    """Field of a freshly constructed SRF with the settings `want` (nugget-free) at the positions X."""
    key = (kind, cls, dim, tlaval.freeze(want), tag, MODE_SCALE[0], FOURIER_ODD[0], NEARBY[0])
    if key not in _REF:
        st = {"seed": want["seed"], "modeNo": want["modeNo"], "period": want["period"],
              "pm": {"var": want["var"], "len": want["len"], "anis": want["anis"], "ang": want["ang"], "nug": 0}}
        r = Real(kind, cls, dim, st, fresh=True)
        _REF[key] = np.array(r.srf(X))
    return _REF[key]


def reference_noisy(kind, cls, dim, want, nug, d, X):
    """Field (with nugget noise) of the d-th identical call of a freshly constructed SRF with the settings `want`."""
    key = ("noisy", kind, cls, dim, tlaval.freeze(want), nug, MODE_SCALE[0], FOURIER_ODD[0], NEARBY[0])
    if key not in _REF:
        st = {"seed": want["seed"], "modeNo": want["modeNo"], "period": want["period"],
              "pm": {"var": want["var"], "len": want["len"], "anis": want["anis"], "ang": want["ang"], "nug": nug}}
        r = Real(kind, cls, dim, st, fresh=True)
        _REF[key] = [np.array(r.srf(X)) for _ in range(MAX_DRAWS - 1)]
    return _REF[key][d - 1]


def last_change(hist):
    """Coarse signature of what changed since the previous Call."""
    out = set()
    for op in reversed(hist[:-1]):
        if op["name"] == "Call":
            break
        if op["name"] == "InPlace":
            out.add("inplace-" + op["fld"])
        elif op["name"] in ("AssignModel", "GenUpdate"):
            out.add("model-assign")
            if op["name"] == "GenUpdate":
                out.add("GenUpdate")
        else:
            out.add(op["name"])
    if hist and hist[-1].get("seed", KEEP) != KEEP:
        out.add("seed-arg")
    return "+".join(sorted(out)) or "none"


def replay(col, kind, cls, dim, beh, origin, locality=True):
    """Replay one behaviour (list of spec states) in the two identity runs."""
    X = grid_points(dim)
    outs = {}
    ncalls = 0
    for fresh in (False, True):
        st0 = beh[0]
        r = Real(kind, cls, dim, st0, fresh)
        hist, outs[fresh] = [], []
        for st in beh[1:]:
            op = st["op"]
            hist.append(op)
            rp = {"kind": kind, "class": cls, "dim": dim, "init": {k: st0[k] for k in ("pm", "seed", "modeNo", "period")},
                  "ops": list(hist), "fresh_seed_objects": fresh, "origin": origin}
            if op["name"] == "GenRefused":
                if not r.refused(op):      # accepted: outside the modelled behaviours (not a property matter)
                    col.drift.append("%s/%s dim %d: request %s was not refused" % (kind, cls, dim, tlaval.to_tla(op)))
                    break
                continue
            if op["name"] != "Call":
                try:
                    r.apply(op)
                except Exception as e:  # noqa: BLE001 - the library refused an operation the specification enables
                    col.drift.append("%s/%s dim %d: %s raised %s: %s" % (kind, cls, dim, tlaval.to_tla(op), type(e).__name__, e))
                    return ncalls
                continue
            ncalls += 1
            want = op["want"]
            try:
                f = np.array(r.call(op["seed"], X))
            except Exception as e:  # noqa: BLE001
                reference(kind, cls, dim, want, X)     # a freshly built SRF with these settings returns a field
                col.violation("%s:raised:after-%s" % (kind, last_change(hist)),
                              "%s/%s dim %d: the call after %s raised %s (%s) where a freshly built SRF with the same settings returns a field"
                              % (kind, cls, dim, [tlaval.to_tla(o) for o in hist[-3:]], type(e).__name__, e), rp)
                return ncalls
            outs[fresh].append(f)
            nugfree = st["pm"]["nug"] == 0
            scale = np.sqrt(VAR[want["var"]])
            vec = f.ndim == 2
            if nugfree:
                ref = reference(kind, cls, dim, want, X)
                if not np.allclose(f, ref, rtol=0, atol=1e-12 * scale):
                    col.violation("%s:fresh-mismatch:after-%s" % (kind, last_change(hist)),
                                  "%s/%s dim %d: field after %s differs from a freshly built SRF with the same settings (max |d| = %.3g)"
                                  % (kind, cls, dim, [tlaval.to_tla(o) for o in hist[-3:]], float(np.max(np.abs(f - ref)))), rp)
                    return ncalls
                if kind == "Fourier":
                    bad = periodicity(r, st, X, scale)
                    if bad:
                        col.violation("Fourier:periodicity:after-%s" % last_change(hist),
                                      "Fourier/%s dim %d: field not periodic along main axis %d with period %s after %s (|d| = %.3g)"
                                      % (cls, dim, bad[0], bad[1], [tlaval.to_tla(o) for o in hist[-3:]], bad[2]), rp)
                        return ncalls
            else:
                # with a nugget: the noise stream restarts whenever the generator is re-seeded (spec variable `draws`
                # = number of noise draws since then), so the d-th call since then equals the d-th call of a fresh SRF
                d = st["draws"]["B" if fresh else "A"]
                if 1 <= d < MAX_DRAWS:
                    ref = reference_noisy(kind, cls, dim, want, st["pm"]["nug"], d, X)
                    if not np.allclose(f, ref, rtol=0, atol=1e-12 * scale):
                        col.violation("%s:fresh-mismatch:nugget-noise:after-%s" % (kind, last_change(hist)),
                                      "%s/%s dim %d: field with nugget after %s (call #%d since the generator was last re-seeded) differs from "
                                      "call #%d of a freshly built SRF with the same settings (max |d| = %.3g)"
                                      % (kind, cls, dim, [tlaval.to_tla(o) for o in hist[-3:]], d, d, float(np.max(np.abs(f - ref)))), rp)
                        return ncalls
            if nugfree:
                if locality and not fresh:
                    bad = arrangements(r, f, X, dim, scale, vec, kind, cls, want)
                    if bad:
                        col.violation("%s:locality:%s" % (kind, bad[0]),
                                      "%s/%s dim %d: value at a location depends on %s (max |d| = %.3g)" % (kind, cls, dim, bad[0], bad[1]), rp)
                        return ncalls
    # identity of the seed objects must not be observable (bitwise, incl. nugget noise)
    for i, (a, b) in enumerate(zip(outs[False], outs[True])):
        if a.tobytes() != b.tobytes():
            calls = [s["op"] for s in beh[1:]]
            col.violation("%s:seed-identity" % kind,
                          "%s/%s dim %d: call #%d differs between shared and fresh equal-valued seed objects (max |d| = %.3g)"
                          % (kind, cls, dim, i, float(np.max(np.abs(a - b)))),
                          {"kind": kind, "class": cls, "dim": dim, "init": {k: beh[0][k] for k in ("pm", "seed", "modeNo", "period")},
                           "ops": calls, "origin": origin})
            break
    return ncalls


def periodicity(r, st, X, scale):
    """f(x) == f(x + period_d * main_axis_d) at off-grid points; returns None or (axis, period, err)."""
    dim = r.dim
    per = period_of(st["period"], dim)
    axes = r.srf.model.main_axes() if dim > 1 else np.eye(1)
    P = X + 0.37
    base = np.array(r.call(KEEP, P, store=False))
    for d in range(dim):
        sh = P + per[d] * np.asarray(axes)[d, :].reshape(dim, 1)  # rows of main_axes() are the axes
        f2 = np.array(r.call(KEEP, sh, store=False))
        err = float(np.max(np.abs(f2 - base)))
        if err > 1e-9 * scale:
            return (d, per, err)
    return None


def arrangements(r, f, X, dim, scale, vec, kind, cls, want):
    """Same call evaluated in other arrangements (nugget-free state, seed kept)."""
    tol = 1e-12 * scale
    n = X.shape[1]
    perm = np.random.default_rng(n * 7 + dim).permutation(n)

    def pick(a, idx):
        return a[..., idx]

    g = np.array(r.call(KEEP, X[:, perm], store="other"))
    if np.max(np.abs(g - pick(f, perm))) > tol:
        return ("point order", float(np.max(np.abs(g - pick(f, perm)))))
    sub = perm[: max(1, n // 3)]
    g = np.array(r.call(KEEP, X[:, sub], store=False))
    if np.max(np.abs(g - pick(f, sub))) > tol:
        return ("which other points are requested (subset)", float(np.max(np.abs(g - pick(f, sub)))))
    h = n // 2
    g = np.concatenate([np.array(r.call(KEEP, X[:, :h])), np.array(r.call(KEEP, X[:, h:]))], axis=-1)
    if np.max(np.abs(g - f)) > tol:
        return ("batching", float(np.max(np.abs(g - f))))
    g = np.array(r.call(KEEP, tuple(grid_axes(dim)), mesh_type="structured"))
    g = g.reshape(f.shape)
    if np.max(np.abs(g - f)) > tol:
        return ("mesh type (structured)", float(np.max(np.abs(g - f))))
    # consecutive requests on nearly equal positions (large coordinates, shift far below allclose's
    # relative tolerance but larger than the correlation length) must each be answered at the points asked for
    off = 6.5e5
    near = (X + off, X + off + 3.0)
    ref = [reference(kind, cls, dim, want, p, tag=i) for i, p in enumerate(near)]
    got = [np.array(r.call(KEEP, p, store="near")) for p in near]
    for a, b in zip(got, ref):
        if np.max(np.abs(a - b)) > 1e-7 * scale:
            return ("the positions requested before (nearly equal large coordinates)", float(np.max(np.abs(a - b))))
    if dim >= 2 and not vec:
        import meshio

        pts = X.T
        cells = [("vertex", np.arange(n).reshape(-1, 1))]
        mesh = meshio.Mesh(pts, cells)
        r.srf.mesh(mesh, points="points", name="mfield", seed=np.nan)
        g = np.array(mesh.point_data["mfield"])
        if np.max(np.abs(g - f)) > tol:
            return ("mesh type (meshio points)", float(np.max(np.abs(g - f))))
        if dim == 2:
            # a 3-D mesh whose (z, x) resp. (y, x) coordinates carry the 2-D positions, selected by a direction string
            for dstr, cols in (("zx", (2, 0)), ("yx", (1, 0)), ("xz", (0, 2))):
                p3 = np.full((n, 3), 0.123)
                p3[:, cols[0]] = X[0]
                p3[:, cols[1]] = X[1]
                m3 = meshio.Mesh(p3, [("vertex", np.arange(n).reshape(-1, 1))])
                r.srf.mesh(m3, points="points", direction=dstr, name="mfield", seed=np.nan)
                g = np.array(m3.point_data["mfield"])
                if np.max(np.abs(g - f)) > tol:
                    return ("mesh direction string '%s'" % dstr, float(np.max(np.abs(g - f))))
        # cell centroids of a mesh whose vertex coordinates are stored as integers
        ipts = np.array([[0, 0, 0], [3, 0, 1], [0, 3, 2], [3, 3, 0], [5, 1, 4], [1, 2, 5]])[:, :dim]
        tri = np.array([[0, 1, 2], [1, 3, 2], [1, 4, 3], [2, 3, 5]])
        mi = meshio.Mesh(ipts, [("triangle", tri)])
        r.srf.mesh(mi, points="centroids", name="cfield", seed=np.nan)
        g = np.array(mi.cell_data["cfield"][0])
        cen = ipts[tri].astype(float).mean(axis=1).T
        h = np.array(r.call(KEEP, cen, store=False))
        if np.max(np.abs(g - h)) > tol:
            return ("mesh type (meshio centroids, integer vertex coordinates)", float(np.max(np.abs(g - h))))
    return None


class _Collect:
    def __init__(self):
        self.violations = []
        self.drift = []

    def violation(self, key, what, replay):
        if not any(k == key for k, _w, _r in self.violations):
            self.violations.append((key, what, replay))


def _work(job):
    tag, kind, speckind, cls, dim, scdir, cap, rseed, tier = job
    many_modes = tag.endswith("/manymodes")
    MODE_SCALE[0] = 32 if many_modes else 1
    FOURIER_ODD[0] = tag.endswith("/roundingprone")
    set_lattice(tag.endswith("/nearby"))
    warnings.simplefilter("ignore")
    rng = random.Random(rseed)
    col = _Collect()
    sdim = min(dim, 2)
    nodes, edges, inits = tlc.read_dot(os.path.join(scdir, "G_%s_%d.dot" % (speckind, sdim)))
    ps, _ = paths.edge_cover(nodes, edges, inits, rng=rng, merge=True)
    if cap and len(ps) > cap:
        # stratified: first one path per distinct operation signature (rare generator setters first), then random
        def sig(p):
            return tuple(sorted({nodes[i]["op"]["name"] + ("." + str(nodes[i]["op"].get("fld", ""))) for i in p[1:]}))
        rng.shuffle(ps)
        rare = ("GenRefused", "GenUpdate", "GenPeriod", "GenModeNo", "GenSeed", "GenReset", "AssignModel", "InPlace.anis", "InPlace.ang")
        ps.sort(key=lambda p: -sum(any(x.startswith(r) for x in sig(p)) for r in rare))
        seen, first, rest = set(), [], []
        for p in ps:
            (first if sig(p) not in seen else rest).append(p)
            seen.add(sig(p))
        ps = (first + rest)[:cap]
    behs = [("state-graph edge cover", [nodes[i] for i in p]) for p in ps]
    # every operation instance applied once to the richest initial state, followed by a call that keeps the seed
    succ = {}
    for a, b, _lab in edges:
        succ.setdefault(a, []).append(b)

    def richness(i):
        st = nodes[i]
        return (st["modeNo"], st["pm"]["anis"], st["pm"]["ang"], st["seed"], st["period"])
    init0 = max(inits, key=richness)
    for n1 in sorted(set(succ.get(init0, ()))):
        if nodes[n1]["op"]["name"] == "Call":
            continue
        calls = [n2 for n2 in succ.get(n1, ()) if nodes[n2]["op"]["name"] == "Call" and nodes[n2]["op"]["seed"] == KEEP]
        if calls:
            behs.append(("one operation, then call", [nodes[init0], nodes[n1], nodes[calls[0]]]))
    for beh in tlc.read_sim_traces(os.path.join(scdir, "sim"), "S_%s_%d" % (speckind, sdim)):
        behs.append(("simulate", [s for _a, s in beh]))
    out = {"traces": 0, "calls": 0, "nontrivial": set(), "samples": [], "tag": tag}
    if many_modes:      # expensive variant: only the systematic behaviours and a few random histories
        behs = [b for b in behs if b[0] == "one operation, then call"] + [b for b in behs if b[0] == "simulate"][:6]
    for origin, sts in behs:
        if not any(s["op"]["name"] == "Call" for s in sts[1:]):
            continue
        c = replay(col, kind, cls, dim, sts, origin, locality=(origin != "one operation, then call" and not many_modes))
        out["traces"] += 1
        out["calls"] += c
        out["nontrivial"].add(hash((tag, tlaval.freeze([s["op"] for s in sts]))))
        if len(out["samples"]) < 1 and origin == "simulate":
            out["samples"].append({"generator": kind, "class": cls, "dim": dim,
                                   "ops": [tlaval.to_tla(s["op"]) for s in sts[1:]][:12]})
    out["violations"] = col.violations
    out["drift"] = col.drift[:3]
    return out


# ---------------------------------------------------------------------------
# code -> spec: recorded random executions validated by TraceGenerator.tla


class DrawCounter:
    """Wrappers that expose the position of the nugget noise stream of a generator:
    number of nugget draws since its RNG was last (re)created."""

    def __init__(self, gs):
        self.gen = gs.field.generator
        self.saved = []

    def __enter__(self):
        for cls in (self.gen.RandMeth, self.gen.Fourier):
            orig_reset, orig_nug = cls.reset_seed, cls.get_nugget

            def reset_seed(this, seed=np.nan, _o=orig_reset):
                out = _o(this, seed)
                this._verif_draws = 0
                return out

            def get_nugget(this, shape, _o=orig_nug):
                out = _o(this, shape)
                if isinstance(out, np.ndarray):
                    this._verif_draws = getattr(this, "_verif_draws", 0) + 1
                return out

            self.saved.append((cls, orig_reset, orig_nug))
            cls.reset_seed, cls.get_nugget = reset_seed, get_nugget
        return self

    def __exit__(self, *a):
        for cls, r, n in self.saved:
            cls.reset_seed, cls.get_nugget = r, n


RAISED = []     # exceptions raised by the library during recorded executions


def random_executions(kind, cls, dim, rng, n_exec, n_ops):
    import gstools as gs

    X = grid_points(dim)
    seeds = [SEED_SMALL, SEED_BIG, SEED_NEAR]
    anis_toks = [1] if dim == 1 else [1, 2, 3]
    ang_toks = [0] if dim == 1 else [0, 1]
    events = []
    with DrawCounter(gs):
        for _x in range(n_exec):
            pm = {"var": rng.choice([1, 2]), "len": rng.choice([1, 2]), "anis": rng.choice(anis_toks),
                  "ang": rng.choice(ang_toks), "nug": rng.choice([0, 1])}
            st = {"pm": dict(pm), "seed": rng.choice(seeds), "modeNo": rng.choice([4, 6]),
                  "period": rng.choice([1, 2]) if kind == "Fourier" else KEEP}
            r = Real(kind, cls, dim, st, fresh=True)
            events.append(dict(name="Init", pm=dict(pm), seed=st["seed"], modeNo=st["modeNo"], period=st["period"], draws=0))
            for _i in range(n_ops):
                try:
                    k = rng.choice(["Call", "Call", "Call", "InPlace", "InPlace", "AssignModel", "GenModeNo", "GenSeed", "GenReset", "GenUpdate"]
                                   + (["GenPeriod", "GenRefused"] if kind == "Fourier" else []))
                    if k == "Call":
                        op = {"name": "Call", "seed": rng.choice([KEEP, KEEP] + seeds)}
                        r.call(op["seed"], X)
                    elif k == "InPlace":
                        fld = rng.choice(["var", "len", "nug"] + (["anis", "ang"] if dim > 1 else []))
                        dom = {"var": [1, 2], "len": [1, 2], "nug": [0, 1], "anis": anis_toks, "ang": ang_toks}[fld]
                        v = rng.choice([x for x in dom if x != pm[fld]])
                        op = {"name": "InPlace", "fld": fld, "v": v}
                        pm[fld] = v
                        r.apply(op)
                    elif k == "AssignModel":
                        m = {"var": rng.choice([1, 2]), "len": rng.choice([1, 2]), "anis": rng.choice(anis_toks),
                             "ang": rng.choice(ang_toks), "nug": rng.choice([0, 1])}
                        if m == pm:
                            continue
                        op = {"name": "AssignModel", "m": dict(m)}
                        pm = dict(m)
                        r.apply(op)
                    elif k == "GenUpdate":
                        m = {"var": rng.choice([1, 2]), "len": rng.choice([1, 2]), "anis": rng.choice(anis_toks),
                             "ang": rng.choice(ang_toks), "nug": rng.choice([0, 1])}
                        if m == pm:
                            continue
                        fo = kind == "Fourier"
                        op = {"name": k, "m": dict(m), "p": rng.choice([KEEP, 1, 2]) if fo else KEEP, "n": rng.choice([KEEP, 4, 6]) if fo else KEEP}
                        pm = dict(m)
                        r.apply(op)
                    elif k == "GenReset":
                        op = {"name": k, "v": rng.choice([KEEP] + seeds)}
                        r.apply(op)
                    elif k == "GenRefused":
                        fo = kind == "Fourier"
                        m = {"none": True}
                        if fo and rng.random() < 0.4:
                            m = {"var": rng.choice([1, 2]), "len": rng.choice([1, 2]), "anis": rng.choice(anis_toks),
                                 "ang": rng.choice(ang_toks), "nug": rng.choice([0, 1])}
                        op = {"name": k, "m": m, "p": rng.choice([KEEP, 1, 2]) if fo else KEEP}
                        if not r.refused(op):
                            break       # accepted: the execution leaves the modelled behaviours here
                    else:
                        op = {"name": k, "v": rng.choice({"GenModeNo": [4, 6], "GenSeed": seeds, "GenPeriod": [1, 2]}[k])}
                        r.apply(op)
                    op["draws"] = int(getattr(r.srf.generator, "_verif_draws", 0))
                    events.append(op)
                except Exception as e:  # noqa: BLE001 - the library refused an operation: the execution ends here
                    RAISED.append("%s: %s" % (type(e).__name__, e))
                    break
    return events


def trace_validation(rep, sc, tier, rng, kinds):
    import json

    n_exec, n_ops = (40, 20) if tier == "quick" else (400, 30)
    jobs, meta = [], {}
    for kind in kinds:
        sk = "Fourier" if kind == "Fourier" else "RandMeth"
        for dim in (1, 2, 3):
            if kind == "IncomprRandMeth" and dim == 1:
                continue
            tag = "%s_%d" % (kind, dim)
            evs = random_executions(kind, "Gaussian", dim, rng, n_exec, n_ops)
            fn = sc.write("gtrace_%s.json" % tag, json.dumps(evs))
            name = "TR_" + tag
            mod, cfg = mc_text(name, sk, dim, "mc")
            mod = mod.replace("EXTENDS Generator", "EXTENDS TraceGenerator").replace("McMaxDraws == 3", "McMaxDraws == 1000")
            sc.write(name + ".tla", mod)
            cfgt = cfg + "SPECIFICATION TraceSpec\nINVARIANT TraceMatches\nINVARIANT NotStuck\nPOSTCONDITION TraceAccepted\nCHECK_DEADLOCK FALSE\n"
            jobs.append((tag, sc, name, cfgt, dict(workers=1, timeout=1800, env={"TRACE_FILE": fn})))
            meta[tag] = (kind, dim, evs)
    # binding demonstration: a corrupted observation must be rejected
    tag0 = jobs[0][0]
    evs0 = json.loads(json.dumps(meta[tag0][2]))
    k = next(i for i in range(len(evs0) // 2, len(evs0)) if evs0[i]["name"] == "Call")
    evs0[k]["draws"] += 1
    fn0 = sc.write("gtrace_corrupt.json", json.dumps(evs0))
    jobs.append(("__corrupt__", sc, jobs[0][2], jobs[0][3], dict(workers=1, timeout=1800, env={"TRACE_FILE": fn0})))
    res = tlc.run_many(jobs, parallel=6)
    rc = res.pop("__corrupt__")
    tlc.must_pass(rc, "corrupted trace")
    if rc.error is None:
        raise tlc.MachineryError("binding not demonstrated: a corrupted generator trace was accepted")
    n_ev = n_ex = n_bad = 0
    for tag, r in sorted(res.items()):
        kind, dim, evs = meta[tag]
        tlc.must_pass(r, "trace " + tag)
        rep.add_tlc("TraceGenerator[%s,dim %d]" % (kind, dim), r)
        n_ev += len(evs)
        n_ex += sum(1 for e in evs if e["name"] == "Init")
        if r.error:
            n_bad += 1
            tr = tlc.error_trace(r)
            l = tr[-1]["state"].get("l", 0) if tr else 0
            idx = max(0, l - 2)
            rep.drift_msg("recorded execution of %s dim %d is not explained by the code-shaped layer of Generator.tla at event #%d %s (%s): "
                          "spec stream position %s" % (kind, dim, idx, evs[idx] if idx < len(evs) else "?", r.error[1],
                                                       tr[-1]["state"].get("draws") if tr else "?"))
    if RAISED:
        rep.drift_msg("%d recorded executions ended with an exception raised by the library, first: %s" % (len(RAISED), RAISED[0]))
    rep.traces += n_ex
    rep.extra["trace_validation"] = {"executions": n_ex, "events": n_ev, "rejected_batches": n_bad,
                                     "observable": "nugget draws since the RNG was (re)created, read through wrappers around reset_seed / get_nugget",
                                     "binding_demonstration": "a recorded execution with one corrupted observation is rejected: %s %s" % rc.error}


def run(pid, tier, seed, replay=None):
    rep = Report(pid, tier, seed)
    rng = random.Random(seed)
    thorough = tier == "thorough"
    rep.assumptions += [
        "value lattice: var {1,2}, len_scale {1,2}, anis {[1,1],[1/2,1],[1/2,1/4]}, first angle {0,0.4}, nugget {0,0.5}, seeds {7, 20170519, 20170521}, mode_no {4,6}, periods {8 / [8,16,12]}; plus a nearby lattice whose values numpy.isclose cannot tell apart (var 1e-10 / 4e-10, len_scale 1 / 1+4e-6, nugget 0 / 4e-9, angle 0 / 3e-9)",
        "`sampling` is not among the settings the property lists and is not modelled",
        "reference values come from freshly built SRF objects (the property's own oracle); the order of RNG draws is not pinned",
        "nugget noise is only compared between the two identity runs of the same behaviour (bitwise)",
    ]
    if replay:
        import json

        rp = json.load(open(replay))["replay"]
        beh = [dict(rp["init"], op={"name": "Init"})] + [{"op": o, "pm": None} for o in rp["ops"]]
        print("replay file lists the operations; re-run them with:", rp)
        return 0
    kinds = ["Fourier"] if pid == "C17" else ["RandMeth", "Fourier", "IncomprRandMeth"]
    classes = ["Gaussian", "Exponential"] if not thorough else ["Gaussian", "Exponential", "Stable"]
    with tlc.Scratch() as sc:
        os.makedirs(sc.path("sim"), exist_ok=True)
        jobs = []
        speckinds = sorted({("Fourier" if k == "Fourier" else "RandMeth") for k in kinds})
        for sk in speckinds:
            for dim in (1, 2):      # the spec constants of dim 3 equal those of dim 2: one TLC run serves both
                name = "MC_%s_%d" % (sk, dim)
                mod, cfg = mc_text(name, sk, dim, "mc" if thorough else "mcquick")
                sc.write(name + ".tla", mod)
                jobs.append((("mc", sk, dim), sc, name, cfg_mc(cfg), dict(workers=4, timeout=1800)))
                name = "G_%s_%d" % (sk, dim)
                mod, cfg = mc_text(name, sk, dim, "gen")
                sc.write(name + ".tla", mod)
                jobs.append((("g", sk, dim), sc, name, cfg_gen(cfg, depth=True),
                             dict(workers=2, timeout=1800, dump=("dot", sc.path(name + ".dot")))))
                name = "S_%s_%d" % (sk, dim)
                mod, cfg = mc_text(name, sk, dim, "mc")
                sc.write(name + ".tla", mod)
                jobs.append((("s", sk, dim), sc, name, cfg_gen(cfg), dict(
                    timeout=1800, simulate=dict(num=120 if thorough else 40, depth=30 if thorough else 16,
                                                seed=rng.randrange(1, 2**31), file=sc.path("sim/" + name)))))
        # the defects this spec was written against must be found by TLC when switched back on
        for sk, sc_, dk_, ra_, nm in (("RandMeth", "identity", True, True, "NEG"), ("Fourier", "value", False, True, "NEG"),
                                      ("Fourier", "value", True, False, "NEGR")):
            if sk in speckinds:
                name = "%s_%s" % (nm, sk)
                mod, cfg = mc_text(name, sk, 2, "mc", seed_compare=sc_, dk_refresh=dk_, refused_atomic=ra_)
                sc.write(name + ".tla", mod)
                jobs.append((("neg" if nm == "NEG" else "negrefused", sk, 2), sc, name, cfg_mc(cfg), dict(workers=2, timeout=1800)))
        import time as _t
        _t0 = _t.time()
        res = tlc.run_many(jobs, parallel=6)
        print("TLC: %d jobs in %.0fs: %s" % (len(jobs), _t.time() - _t0,
              ", ".join("%s/%s/%d %.0fs" % (k[0], k[1], k[2], r.wall) for k, r in sorted(res.items()))))
        for (k, sk, dim), r in sorted(res.items()):
            tlc.must_pass(r, "%s %s %d" % (k, sk, dim))
            if k in ("neg", "negrefused"):
                rep.extra.setdefault("non_vacuity", {})[sk + ("" if k == "neg" else ":refused-update-not-atomic")] = "TLC finds %s %s when the repaired defect is switched back on in the code-shaped layer" % (r.error or ("nothing", ""))
                if r.error is None:
                    raise tlc.MachineryError("vacuity: the %s spec does not detect its seeded defect" % sk)
                continue
            rep.add_tlc("Generator.%s[%s,dim %d]" % (k, sk, dim), r)
            if r.error:
                rep.violation("design:%s:%s" % (sk, r.error[1]),
                              "the code-shaped generator model violates %s (%s, dim %d)" % (r.error[1], sk, dim),
                              {"trace": tlc.error_trace(r)})
        work = []
        for kind in kinds:
            sk = "Fourier" if kind == "Fourier" else "RandMeth"
            for dim in (1, 2, 3):
                if kind == "IncomprRandMeth" and dim == 1:
                    continue
                for cls in classes:
                    if kind == "IncomprRandMeth" and cls != classes[0] and not thorough:
                        continue
                    work.append(("%s/%s/%d" % (kind, cls, dim), kind, sk, cls, dim, sc.dir,
                                 (400 if thorough else (300 if pid == "C17" else 120)), rng.randrange(2**31), tier))
        for dim in (1, 2):
            work.append(("Fourier/Gaussian/%d/roundingprone" % dim, "Fourier", "Fourier", "Gaussian", dim, sc.dir,
                         (150 if thorough else 60), rng.randrange(2**31), tier))
        # parameter values that numpy.isclose cannot tell apart
        for kind in kinds:
            if kind != "IncomprRandMeth" or thorough:
                work.append(("%s/Gaussian/2/nearby" % kind, kind, "Fourier" if kind == "Fourier" else "RandMeth", "Gaussian", 2, sc.dir,
                             (200 if thorough else 80), rng.randrange(2**31), tier))
        if pid == "C11":
            for kind in ("RandMeth", "IncomprRandMeth"):
                work.append(("%s/Gaussian/3/manymodes" % kind, kind, "RandMeth", "Gaussian", 3, sc.dir, 40, rng.randrange(2**31), tier))
        import multiprocessing as mp

        _t1 = _t.time()
        with mp.get_context("fork").Pool(14) as pool:
            for o in pool.imap_unordered(_work, work):
                print("  replayed %-40s %4d behaviours, %5d calls (%.0fs)" % (o["tag"], o["traces"], o["calls"], _t.time() - _t1))
                rep.traces += o["traces"]
                rep.evaluations += o["calls"]
                rep.nontrivial |= o["nontrivial"]
                for s in o["samples"]:
                    rep.sample(s, cap=6)
                for key, what, rp in o["violations"]:
                    rep.violation(key, what, rp)
                for d in o.get("drift", ()):
                    rep.drift_msg(d)
        trace_validation(rep, sc, tier, rng, kinds)
    return rep.finish(
        level="model_checking",
        rule="behaviours = edge cover of TLC's state graph (<= 3 operations from the initial states) + TLC -simulate histories, each replayed twice "
             "(shared / fresh seed objects) on real SRF objects; evaluations = real SRF calls compared; distinct = distinct (generator, class, dim, operation sequence) "
             "containing at least one Call",
        exhaustive=False)
