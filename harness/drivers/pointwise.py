"""C18 / C19: Pointwise.tla and Pipeline.tla bound to gstools normalizers, field objects and
transformations.

Pointwise.tla ("TLC computes, the code is replayed"): every initial state is a case whose
documented result TLC computed with exact integer / rational arithmetic
  * C19  array_discrete / binary / discrete / Field.transform: classes closed on the right,
         arithmetic / user / 'equal' (two classes) thresholds, wrapper defaults and flags,
  * C18  normalizer pairs that are rational functions (both directions), the domain table
         Valid / OutOfRange / NaN / Open of normalize and denormalize,
  * C19  array_force_moments (requested sample moments; exact result where rational).
Pipeline.tla (state machine over symbolic terms): TLC explores every configuration
(mean / normalizer / trend present, constant or callable; scalar / vector; mesh type; kriging
flavour) and every call history up to a bound and computes the documented result of every
call as a term  <<base, step, step, ...>>.  The driver replays every history on real objects
and compares each returned / stored array with the number obtained by applying the array-level
steps (normalizer.normalize / denormalize, +- mean, +- trend, gstools.transform.array_*) in
exactly the order of the term; the instances are non-commuting, so another order changes the
number.
  * C18  Field / SRF / Krige (simple, ordinary, universal) / CondSRF calls with post_process on
         and off, Krige.get_mean, only_mean, conditioning data, vario_estimate preprocessing,
  * C19  the ten Field.transform methods: process / keep_mean / store / field name.
Relations stated by the properties between two implementation functions (round trip
denormalize(normalize(x)) = x, Box-Cox transform inverts the BoxCox normalizer) are replayed
on the TLC-classified valid lattice points.  Finite-difference derivative comparisons are
auxiliary (never decide).
"""
PROPERTIES = ("C18", "C19")

import itertools
import json
import math
import os
import random
import re
import time
import warnings
import zlib

import numpy as np

from .. import tlc, tlaval
from ..report import Report

# ---------------------------------------------------------------------------
# Pointwise: value lattices (single source of truth; handed to TLC through an MC module)

QU = 4.0  # quarter units of the discrete sections


def _rat(q):
    """rational <<n, d>> as TLA+ text from a (n, d) pair"""
    return "<<%d, %d>>" % q


def _f(q):
    """float image of a TLC rational [n, d]; NaN token [0, 0]"""
    return float("nan") if q[1] == 0 else q[0] / q[1]


def pointwise_constants(tier):
    thorough = tier == "thorough"
    xgrid = [(-4, 1), (-2, 1), (-1, 1), (-1, 2), (-1, 4), (0, 1), (1, 4), (1, 2), (1, 1), (2, 1), (4, 1)]
    if thorough:
        xgrid = sorted(set(xgrid + [(-3, 1), (-3, 2), (-3, 4), (3, 4), (3, 2), (3, 1), (1, 8), (-1, 8)]),
                       key=lambda q: q[0] / q[1])
    rvals = [(0, 0), (-4, 1), (-5, 2), (-2, 1), (-3, 2), (-1, 1), (-3, 4), (-1, 2), (-1, 4), (0, 1), (1, 4),
             (1, 2), (3, 4), (1, 1), (3, 2), (2, 1), (5, 2), (4, 1)]
    if thorough:
        rvals += [(-8, 1), (-9, 4), (-7, 4), (-5, 4), (-9, 8), (-7, 8), (-1, 8), (1, 8), (7, 8), (9, 8), (5, 4),
                  (7, 4), (9, 4), (8, 1)]
    c = {
        "ValPool": "{-4, 0, 2, 8}" if not thorough else "{-4, 0, 2, 8, 6}",   # even: midpoints stay on the lattice
        "ThrPool": "{-6, -2, 1, 4, 10}" if not thorough else "{-6, -2, 1, 4, 7, 10}",
        "Grid": "[i \\in 1..21 |-> i - 9]",
        "EqGrids": "{<<0, 1, 2, 3>>, <<-8, 0, 4, 5, 9>>, <<0, 4, 8>>, <<2, 2, 2, 6>>, <<-3, 3>>}",
        "EqMeans": "{-2, 0, 3}",
        "EqSds": "{4, 8}",
        "MaxLen": "4",
        "WrapPos": "[i \\in 1..15 |-> i - 1]",
        "WrapData": "<<-9, -3, -2, -1, 0, 1, 2, 3, 4, 5, 6, 7, 8, 9, 12>>",
        "WrapMean": "8",
        "WrapSqrtSill": "8",
        "XGrid": "<<" + ", ".join(_rat(q) for q in xgrid) + ">>",
        "Lambdas": "{<<-1, 1>>, <<-1, 2>>, <<0, 1>>, <<1, 2>>, <<1, 1>>, <<2, 1>>}",
        "ExactLams": "{-1, 0, 1, 2, 3}",
        "Shifts": "{<<0, 1>>, <<1, 1>>, <<-1, 2>>}",
        "RangeVals": "{" + ", ".join(_rat(q) for q in rvals) + "}",
        "ForceVals": "{-1, 0, 1, 2}" if not thorough else "{-2, -1, 0, 1, 2}",
        "ForceLens": "{2, 3, 4}",
        "ForceMeans": "{<<0, 1>>, <<2, 1>>, <<-1, 2>>}",
        "ForceVars": "{<<1, 1>>, <<4, 1>>, <<2, 1>>, <<1, 4>>}",
        # samples with NaN and (for some normalizers) out-of-range entries at different places
        "LlfData": "{" + ", ".join("<<" + ", ".join(_rat(q) for q in d) + ">>" for d in LLF_DATA) + "}",
        "BoundMeans": "{<<0, 1>>, <<3, 2>>}",
        "BoundVarPool": "{<<1, 1>>, <<2, 1>>, <<8, 1>>, <<1, 2>>, <<15, 1>>, <<3, 5>>, <<12, 5>>}",
        "BoundAs": "{<<-1, 1>>, <<-7, 2>>, <<0, 1>>}",     # 0: a given, falsy bound
        "BoundBs": "{<<7, 1>>, <<9, 2>>, <<0, 1>>}",
        "InputShapes": '{"scalar", "zero_d", "list", "array1", "array2"}',
        "FitLams": "{<<-1, 2>>, <<0, 1>>, <<1, 2>>, <<2, 1>>, <<1, 1>>}",
        "FitShifts": "{<<0, 1>>, <<1, 2>>, <<1, 1>>}",
    }
    return c


NAN = (0, 0)
LLF_DATA = [
    [(1, 2), (1, 1), (2, 1), (4, 1), (1, 4)],
    [(1, 2), (1, 1), NAN, (2, 1), (4, 1), (1, 4)],
    [NAN, (1, 2), (1, 1), (2, 1), NAN, (4, 1), (1, 4), NAN],
    [(-1, 1), (1, 2), (2, 1), NAN, NAN, (3, 2), (4, 1)],
    [(-2, 1), (-1, 2), (0, 1), (1, 1), NAN, (5, 2)],
    [NAN, (3, 4), (3, 2), (-4, 1), (5, 2), (1, 4), NAN],
    [(0, 1), (1, 1), (3, 1), (1, 2), (-1, 2), (2, 1)],
]

PW_SECTIONS = {
    "Discrete": ["OnlyGivenValues", "ClosedOnTheRight", "ClassesMonotone"],
    "Wrap": ["WrapOnlyGivenValues"],
    "NormExact": ["ExactStrictlyIncreasing", "ExactRoundTrip", "ExactDerivativePositive"],
    "Llf": ["LlfCountsValidOnly"],
    "Bounds": ["BoundsHonoured"],
    "Fit": ["FitPartition"],
    "Range": ["ImageIsValid"],
    "Fix": ["FixInsideRanges"],
    "Force": ["ForceMomentsExact"],
}


def pointwise_jobs(sc, tier, sections):
    c = pointwise_constants(tier)
    mod = "---- MODULE MC_Pointwise ----\nEXTENDS Pointwise\n" + \
        "".join("Mc%s == %s\n" % kv for kv in c.items()) + "====\n"
    sc.write("MC_Pointwise.tla", mod)
    base = "CONSTANTS\n" + "".join(" %s <- Mc%s\n" % (k, k) for k in c)
    jobs = []
    for s in sections:
        cfg = base + "INIT Init%s\nNEXT Next\n" % s + "".join("INVARIANT %s\n" % i for i in PW_SECTIONS[s])
        jobs.append((("pw", s), sc, "MC_Pointwise", cfg,
                     dict(workers=1, timeout=900, heap="2g", dump=("states", sc.path("PW_%s.dump" % s)))))
    return jobs


class _Collect:
    """Stand-in for Report inside worker processes / sections."""

    def __init__(self):
        self.violations = []
        self.drift = []
        self.notes = {}
        self.evals = 0
        self.traces = 0
        self.nontrivial = set()
        self.samples = []
        self.extra = {}

    def violation(self, key, what, replay):
        if not any(k == key for k, _w, _r in self.violations):
            self.violations.append((key, what, replay))

    def drift_msg(self, msg):
        if len(self.drift) < 20:
            self.drift.append(msg)

    def note(self, key, n=1):
        self.notes[key] = self.notes.get(key, 0) + n

    def sample(self, obj, cap=3):
        if len(self.samples) < cap:
            self.samples.append(obj)

    def merge_into(self, rep, note_prefix=""):
        rep.evaluations += self.evals
        rep.traces += self.traces
        rep.nontrivial |= self.nontrivial
        for s in self.samples:
            rep.sample(s, cap=8)
        for key, what, rp in sorted(self.violations, key=lambda v: v[0]):
            # one defect usually shows under many signatures: report the first MAX_REPORTED, count the rest
            if len(rep.violations) + len(rep.known_hit) < MAX_REPORTED or key in rep.open_keys \
                    or any(k == key for k, _w, _p in rep.violations):
                rep.violation(key, what, rp)
            else:
                rep.extra.setdefault("further_violation_signatures_not_listed", [])
                if key not in rep.extra["further_violation_signatures_not_listed"]:
                    rep.extra["further_violation_signatures_not_listed"].append(key)
        for d in self.drift:
            rep.drift_msg(d)
        for k, v in self.notes.items():
            rep.extra.setdefault("open_or_degenerate_cases", {})
            rep.extra["open_or_degenerate_cases"][k] = rep.extra["open_or_degenerate_cases"].get(k, 0) + v
        for k, v in self.extra.items():
            rep.extra[k] = v


# ---------------------------------------------------------------------------
# C19: array_discrete

def _container(kind, seq):
    return np.array(seq, dtype=float) if kind == "ndarray" else [float(v) for v in seq]


def replay_discrete(col, states, tier):
    from gstools.transform import array_discrete

    for st in states:
        c = st["c"]
        mode, vals, thr, grid = c["mode"], c["vals"], c["thr"], c["grid"]
        f = np.array(grid, dtype=float) / QU
        exp = np.array(c["res"], dtype=float) / QU
        n = len(vals)
        variants = [("list", "list"), ("ndarray", "ndarray")]
        if mode == "user":
            variants += [("list", "ndarray"), ("ndarray", "list")]
        for vkind, tkind in variants:
            values = _container(vkind, [v / QU for v in vals])
            kw = {}
            if mode == "arithmetic":
                thresholds = "arithmetic"
            elif mode == "user":
                thresholds = _container(tkind, [t / QU for t in thr])
            elif mode == "equal":
                thresholds = "equal"
                kw = dict(mean=thr[0] / QU, var=(1.0, 4.0, 0.25)[(thr[0] + n) % 3])
            elif mode == "equal_n":   # 3 / 4 classes, thr = <<mean, sd>>
                thresholds = "equal"
                kw = dict(mean=thr[0] / QU, var=(thr[1] / QU) ** 2)
            else:  # equal_sample: the mean is the sample mean of the input
                thresholds = "equal"
                kw = dict(mean=None, var=(None, 1.0)[len(grid) % 2])
            rp = {"section": "discrete", "case": c, "values_as": vkind, "thresholds_as": tkind}
            col.evals += len(grid)
            mname = "user-thresholds" if mode == "user" else mode
            shapes = [f] if (tier == "quick" or len(f) % 3) else [f, f.reshape(3, -1)]
            for fin in shapes:
                try:
                    out = array_discrete(fin.copy(), values, thresholds, **kw)
                except Exception as e:  # noqa: BLE001
                    if n == 1:
                        # a single class: degenerate, the documentation does not promise it
                        col.note("discrete:single-value:exception(%s)" % type(e).__name__)
                        continue
                    col.violation("discrete:%s:%s:exception" % (mname, tkind if mode == "user" else vkind),
                                  "array_discrete(values=%r, thresholds=%r%s) raised %r"
                                  % (values, thresholds, "".join(", %s=%r" % kv for kv in kw.items()), e), rp)
                    continue
                out = np.asarray(out, dtype=float).reshape(-1)
                if not np.array_equal(out, exp):
                    bad = int(np.flatnonzero(out != exp)[0])
                    only = set(out.tolist()) <= set(v / QU for v in vals)
                    col.violation("discrete:%s:%s" % (mname, "partition" if only else "foreign-value"),
                                  "array_discrete(values=%r, thresholds=%r%s): input %r gives %r, documented %r "
                                  "(classes are thr[k-1] < f <= thr[k])"
                                  % (values, thresholds, "".join(", %s=%r" % kv for kv in kw.items()),
                                     float(f[bad]), float(out[bad]), float(exp[bad])), rp)
            if n > 1:
                col.nontrivial.add(("discrete", mode, tuple(vals), tuple(thr)))
        col.traces += 1
        if mode == "user" and n == 3 and len(set(vals)) == 3 and vals[0] > vals[1]:
            col.sample({"section": "discrete", "values": [v / QU for v in vals], "thresholds": [t / QU for t in thr],
                        "inputs": f.tolist(), "documented_result": exp.tolist()}, cap=1)


# ---------------------------------------------------------------------------
# C19: binary / discrete wrappers on a field with integer mean and trend (no normalizer)

def replay_wrap(col, states, tier):
    import gstools as gs
    from gstools.field import Field

    model = gs.Gaussian(dim=1, var=3.0, nugget=1.0, len_scale=2.0)   # sill 4
    for st in states:
        c = st["c"]
        cf = c["cfg"]
        x = np.array(c["pos"], dtype=float)
        stored = np.array(c["stored"], dtype=float) / QU
        mean = {"const": 2.0, "zero": 0.0}.get(cf["meanKind"], (lambda x: 2.0 + x))
        trend = {"none": None, "const": 1.0, "call": (lambda x: 3.0 * x)}[cf["trendKind"]]
        vals = [v / QU for v in c["vals"]]
        thr = [t / QU for t in c["thr"]]
        method = cf["method"]
        kws = []
        label = method
        if method == "binary":
            # every optional number: not given / given as a (falsy) zero in several spellings / another value
            name, kws = "binary", []
            spec = {"divide": (cf["divide"], thr[0]), "lower": (cf["lower"], vals[0]), "upper": (cf["upper"], vals[1])}
            zeros = [a for a, (sp, _v) in spec.items() if sp == "zero"]
            for zero in ((0.0, 0, np.float64(0.0)) if zeros else (0.0,)):
                kws.append({a: (zero if sp == "zero" else v) for a, (sp, v) in spec.items() if sp != "default"})
            label = "binary:" + ("zero=" + "+".join(zeros) if zeros else
                                 ("defaults" if not kws[0] else "given=" + "+".join(sorted(kws[0]))))
        elif method == "discrete_arithmetic":
            name, kws = "discrete", [dict(values=vals, thresholds="arithmetic"),
                                     dict(values=np.array(vals), thresholds="arithmetic")]
        elif method == "discrete_user":
            name, kws = "discrete", [dict(values=vals, thresholds=thr),
                                     dict(values=np.array(vals), thresholds=np.array(thr))]
        else:
            name, kws = "discrete", [dict(values=vals, thresholds="equal")]
        exp = None if c["rejected"] else np.array(c["res"], dtype=float) / QU
        sig = "wrap:%s:process=%d:keep_mean=%d" % (label, cf["process"], cf["keepMean"])
        for kw, entry in itertools.product(kws, ("Field.transform", "gstools.transform")):
            fld = Field(model, mean=mean, trend=trend)
            fld([x], field=stored.copy(), post_process=False)
            col.evals += len(x)
            rp = {"section": "wrap", "case": c, "entry": entry, "kwargs": {k: (v.tolist() if hasattr(v, "tolist") else v)
                                                                          for k, v in kw.items()}}
            isarr = any(isinstance(v, np.ndarray) for k, v in kw.items() if k == "thresholds")
            try:
                if entry == "Field.transform":
                    out = fld.transform(name, store=False, process=cf["process"], keep_mean=cf["keepMean"], **kw)
                else:
                    out = getattr(gs.transform, name)(fld, store="out", process=cf["process"],
                                                      keep_mean=cf["keepMean"], **kw)
            except Exception as e:  # noqa: BLE001
                if c["rejected"] and isinstance(e, ValueError):
                    continue
                key = "wrap:discrete:user-thresholds:ndarray:exception" if isarr else sig + ":exception"
                col.violation(key, "%s(%r, %s, process=%s, keep_mean=%s) on a field with mean=%s trend=%s raised %r"
                              % (entry, name, kw, cf["process"], cf["keepMean"], cf["meanKind"], cf["trendKind"], e), rp)
                continue
            if c["rejected"]:
                col.violation(sig + ":not-rejected",
                              "%s(%r) without process needs a normal field (trend=%s, mean=%s) but was accepted"
                              % (entry, name, cf["trendKind"], cf["meanKind"]), rp)
                continue
            out = np.asarray(out, dtype=float)
            if out.shape != exp.shape or not np.allclose(out, exp, rtol=0, atol=1e-12):
                col.violation(sig + ":value",
                              "%s(%r, %s, process=%s, keep_mean=%s), mean=%s, trend=%s, sill=4: stored field %s gives %s, "
                              "documented %s" % (entry, name, kw, cf["process"], cf["keepMean"], cf["meanKind"],
                                                 cf["trendKind"], stored.tolist(), out.tolist(), exp.tolist()), rp)
        col.traces += 1
        col.nontrivial.add(("wrap", tlaval.freeze(cf)))
        if method == "binary" and cf["divide"] == "zero" and cf["lower"] == "default" and cf["upper"] == "val" \
                and cf["process"] and cf["keepMean"] and cf["trendKind"] == "call":
            col.sample({"section": "wrap", "cfg": cf, "positions": x.tolist(), "stored_field": stored.tolist(),
                        "documented_result": exp.tolist()}, cap=1)


# ---------------------------------------------------------------------------
# C18: normalizers

def make_norm(name, lam, shift):
    import gstools.normalizer as gn

    if name == "LogNormal":
        return gn.LogNormal()
    if name == "BoxCoxShift":
        return gn.BoxCoxShift(lmbda=lam, shift=shift)
    return getattr(gn, name)(lmbda=lam)


def lamclass(name, lam):
    if name == "LogNormal":
        return "-"
    return "lmbda<0" if lam < 0 else ("lmbda=0" if lam == 0 else "lmbda>0")


def _relclose(a, b, tol):
    a, b = np.asarray(a, dtype=float), np.asarray(b, dtype=float)
    return np.abs(a - b) <= tol * np.maximum(1.0, np.maximum(np.abs(a), np.abs(b)))


def replay_exact(col, states, pid):
    from gstools.transform import array_boxcox

    for st in states:
        c = st["c"]
        name, k, s = c["norm"], c["lam"], _f(c["shift"])
        xs = np.array([_f(q) for q in c["xs"]])
        ys = np.array([_f(q) for q in c["ys"]])
        rp = {"section": "exact", "case": c}
        if pid == "C19":
            # Box-Cox transform inverts the BoxCox normalizer (exact pairs)
            if name != "BoxCox":
                continue
            col.evals += len(xs)
            col.traces += 1
            # shift: "the field will be shifted by that value before transformation"
            for sh in (0.0, 1.0, -0.5):
                with warnings.catch_warnings():
                    warnings.simplefilter("ignore")
                    out = array_boxcox(ys - sh, lmbda=float(k), shift=sh) if sh else array_boxcox(ys.copy(), lmbda=float(k))
                ok = _relclose(out, xs, 1e-12)
                if not ok.all():
                    i = int(np.flatnonzero(~ok)[0])
                    col.violation("boxcox-inverts:lmbda=%d:%s" % (k, "shifted-value" if sh else "value"),
                                  "array_boxcox(%r, lmbda=%d, shift=%r) = %r, but %s/%s = BoxCox(lmbda=%d).normalize(%r) exactly"
                                  % (float(ys[i] - sh), k, sh, float(out[i]), c["ys"][i][0], c["ys"][i][1], k, float(xs[i])), rp)
            col.nontrivial.add(("boxcox-exact", k))
            continue
        nrm = make_norm(name, float(k), s)
        col.evals += 2 * len(xs)
        col.traces += 1
        out = nrm.normalize(xs.copy())
        ok = _relclose(out, ys, 1e-12)
        if not ok.all():
            i = int(np.flatnonzero(~ok)[0])
            col.violation("exact:%s:lmbda=%d:normalize" % (name, k),
                          "%r.normalize(%r) = %r, documented formula gives exactly %s/%s"
                          % (nrm, float(xs[i]), float(out[i]), c["ys"][i][0], c["ys"][i][1]), rp)
        elif len(out) > 1 and not np.all(np.diff(out) > 0):
            col.violation("monotone:%s:lmbda=%d" % (name, k),
                          "%r.normalize is not strictly increasing on %s: %s" % (nrm, xs.tolist(), out.tolist()), rp)
        dys = np.array([_f(q) for q in c["dys"]])
        der = nrm.derivative(xs.copy())
        ok = _relclose(der, dys, 1e-12)
        col.evals += len(xs)
        if not ok.all():
            i = int(np.flatnonzero(~ok)[0])
            col.violation("exact:%s:lmbda=%d:derivative" % (name, k),
                          "%r.derivative(%r) = %r, the derivative of the documented formula is exactly %s/%s"
                          % (nrm, float(xs[i]), float(der[i]), c["dys"][i][0], c["dys"][i][1]), rp)
        back = nrm.denormalize(ys.copy())
        ok = _relclose(back, xs, 1e-12)
        if not ok.all():
            i = int(np.flatnonzero(~ok)[0])
            col.violation("exact:%s:lmbda=%d:denormalize" % (name, k),
                          "%r.denormalize(%s/%s = %r) = %r, documented inverse gives exactly %r"
                          % (nrm, c["ys"][i][0], c["ys"][i][1], float(ys[i]), float(back[i]), float(xs[i])), rp)
        col.nontrivial.add(("exact", name, k, tuple(c["shift"])))
        if name == "YeoJohnson" and k == -1:
            col.sample({"section": "exact", "normalizer": repr(nrm), "x": xs.tolist(),
                        "exact_y": ["%d/%d" % tuple(q) for q in c["ys"]]}, cap=1)


def replay_fix(col, states):
    """reference points x0 |-> 0: exact also for the transcendental pairs"""
    for st in states:
        c = st["c"]
        lam, sh, x = _f(c["lam"]), _f(c["shift"]), _f(c["x"])
        nrm = make_norm(c["norm"], lam, sh)
        rp = {"section": "fix", "case": c}
        col.evals += 2
        col.traces += 1
        y = float(nrm.normalize(np.array([x]))[0])
        if not abs(y) <= 1e-12:
            col.violation("exact:%s:%s:reference-point:normalize" % (c["norm"], lamclass(c["norm"], lam)),
                          "%r.normalize(%r) = %r, the documented formula gives exactly 0" % (nrm, x, y), rp)
        b = float(nrm.denormalize(np.array([0.0]))[0])
        if not abs(b - x) <= 1e-12:
            col.violation("exact:%s:%s:reference-point:denormalize" % (c["norm"], lamclass(c["norm"], lam)),
                          "%r.denormalize(0.0) = %r, the documented inverse gives exactly %r" % (nrm, b, x), rp)
        col.nontrivial.add(("fix", c["norm"], tuple(c["lam"]), tuple(c["shift"])))


LLF_CONST = -0.5 * (math.log(2.0 * math.pi) + 1.0)   # documented additive constant per valid entry


def replay_llf(col, states):
    """log-likelihood counts the valid entries only (relations between implementation outputs,
    the valid entries and their number are TLC's)"""
    for st in states:
        c = st["c"]
        lam, sh = _f(c["lam"]), _f(c["shift"])
        nrm = make_norm(c["norm"], lam, sh)
        data = np.array([_f(q) for q in c["data"]])
        valid = np.array([_f(q) for q in c["valid"]])
        n = c["nValid"]
        lc = lamclass(c["norm"], lam)
        rp = {"section": "llf", "case": c}
        col.evals += 6
        col.traces += 1
        with warnings.catch_warnings():
            warnings.simplefilter("ignore")
            l_d, l_v = float(nrm.loglikelihood(data.copy())), float(nrm.loglikelihood(valid.copy()))
            k_d, k_v = float(nrm.kernel_loglikelihood(data.copy())), float(nrm.kernel_loglikelihood(valid.copy()))
            lik = float(nrm.likelihood(data.copy()))
            y = np.asarray(nrm.normalize(valid.copy()), dtype=float).tolist()
            dy = np.asarray(nrm.derivative(valid.copy()), dtype=float).tolist()
        tol = lambda ref: 1e-10 * max(1.0, abs(ref))  # noqa: E731
        dirty = len(data) != n
        what = "%r, data %s (entries that count: %s)" % (nrm, data.tolist(), valid.tolist())
        if abs(l_d - l_v) > tol(l_v):
            col.violation("loglikelihood:%s:%s:invalid-entries-count" % (c["norm"], lc),
                          "%s: loglikelihood(data) = %r but loglikelihood(valid entries) = %r" % (what, l_d, l_v), rp)
        if abs(k_d - k_v) > tol(k_v):
            col.violation("kernel_loglikelihood:%s:%s:invalid-entries-count" % (c["norm"], lc),
                          "%s: kernel_loglikelihood(data) = %r but on the valid entries %r" % (what, k_d, k_v), rp)
        if abs(lik - math.exp(l_d)) > 1e-12 * max(abs(lik), math.exp(l_d)):
            col.violation("likelihood:%s:%s:exp" % (c["norm"], lc),
                          "%s: likelihood = %r, exp(loglikelihood) = %r" % (what, lik, math.exp(l_d)), rp)
        if abs((l_d - k_d) - n * LLF_CONST) > 1e-9 * max(1.0, abs(n * LLF_CONST)):
            col.violation("loglikelihood:%s:%s:constant" % (c["norm"], lc),
                          "%s: loglikelihood - kernel_loglikelihood = %r, documented -n/2 (log(2 pi) + 1) = %r for the "
                          "n = %d valid entries" % (what, l_d - k_d, n * LLF_CONST, n), rp)
        # the maximum-likelihood definition, from the implementation's own normalize / derivative
        mu = math.fsum(y) / n
        var = math.fsum((v - mu) ** 2 for v in y) / n
        ml = n * LLF_CONST - 0.5 * n * math.log(var) + math.fsum(math.log(d) for d in dy)
        if abs(l_d - ml) > 1e-9 * max(1.0, abs(ml)):
            col.violation("loglikelihood:%s:%s:ml-definition" % (c["norm"], lc),
                          "%s: loglikelihood = %r, -n/2 (log(2 pi) + 1) - n/2 log(var(y)) + sum(log(dy/dx)) = %r with the "
                          "object's own normalize / derivative" % (what, l_d, ml), rp)
        col.nontrivial.add(("llf", c["norm"], tuple(c["lam"]), tuple(c["shift"]), tuple(map(tuple, c["data"])), dirty))
        if dirty and c["norm"] == "BoxCox" and lam == 0.5:
            col.sample({"section": "llf", "normalizer": repr(nrm), "data": [repr(v) for v in data.tolist()],
                        "classes": c["cls"], "valid_entries": valid.tolist()}, cap=1)


FIT_DATA = {
    "positive": np.array([3.0, 4.0, 4.5, 5.0, 6.0, 6.5, 8.0, 9.0, 12.0, 5.5, 7.0, 3.5]),
    "skewed": np.array([0.5, 1.0, 1.5, 2.0, 3.0, 4.0, 6.0, 8.0, 2.5, 0.75, 1.25, 5.0]),
    "both-signs": np.array([-2.5, -1.0, -0.5, 0.25, 0.5, 1.0, 1.5, 2.0, 3.0, 4.5, -0.25, 0.75]),
}


def _same(a, b):
    """bit-wise equality of two parameter values (NaN equals NaN)"""
    a, b = float(a), float(b)
    return a == b or (a != a and b != b)


def replay_fit(col, states):
    """Normalizer.fit: the split into fitted / frozen parameters is TLC's; frozen parameters keep
    their bits, the returned dict names every parameter, nothing to fit = no-op, and a converged
    fit does not lower the log-likelihood of the start parameters (relations between outputs)."""
    import gstools.normalizer as gn

    for st in states:
        c = st["c"]
        l0, s0 = _f(c["lam0"]), _f(c["shift0"])
        names, fitted, frozen, skip = list(c["names"]), list(c["fitted"]), set(c["frozen"]), sorted(c["skip"])
        for dname, data in FIT_DATA.items():
            if dname == "both-signs" and c["norm"] in ("LogNormal", "BoxCox", "BoxCoxShift"):
                continue
            nrm = make_norm(c["norm"], l0, s0)
            start = {n: float(getattr(nrm, n)) for n in names}
            rp = {"section": "fit", "case": c, "data": dname}
            sig = "fit:%s:skip=%s" % (c["norm"], "+".join(skip) or "none")
            col.evals += 1
            kw = {}
            if len(fitted) == 1:   # Brent starts at the start value: its result cannot be worse
                kw = dict(bracket=(start[fitted[0]], start[fitted[0]] + 1.0))
            with warnings.catch_warnings():
                warnings.simplefilter("ignore")
                with np.errstate(all="ignore"):
                    llf0 = float(nrm.loglikelihood(data.copy()))
                    try:
                        ret = nrm.fit(data.copy(), skip=list(skip), **kw)
                    except Exception as e:  # noqa: BLE001
                        col.violation(sig + ":exception", "%r.fit(%s data, skip=%s) raised %r" % (nrm, dname, skip, e), rp)
                        continue
                    llf1 = float(nrm.loglikelihood(data.copy()))
            what = "%s(%s).fit(%s data, skip=%s)" % (c["norm"], ", ".join("%s=%r" % i for i in start.items()), dname, skip)
            for n in sorted(frozen):
                if not _same(getattr(nrm, n), start[n]):
                    col.violation(sig + ":skipped-parameter-changed",
                                  "%s: the skipped parameter %s changed from %r to %r" % (what, n, start[n], float(getattr(nrm, n))), rp)
            if c["noop"]:
                if ret != {} or any(not _same(getattr(nrm, n), start[n]) for n in names):
                    col.violation(sig + ":noop", "%s: nothing to fit, but it returned %r / parameters now %s"
                                  % (what, ret, {n: float(getattr(nrm, n)) for n in names}), rp)
                continue
            if sorted(ret) != sorted(names) or any(not _same(ret[n], getattr(nrm, n)) for n in names):
                col.violation(sig + ":returned-values", "%s returned %r but the parameters are %s"
                              % (what, ret, {n: float(getattr(nrm, n)) for n in names}), rp)
            ok = bool(getattr(getattr(nrm, "_opti", None), "success", False)) and math.isfinite(llf1)
            if not ok:
                col.note("fit-not-converged:%s:skip=%s" % (c["norm"], "+".join(skip) or "none"))
            elif llf1 < llf0 - 1e-9 * max(1.0, abs(llf0)):
                col.violation(sig + ":loglikelihood-decreased",
                              "%s: converged to %s with log-likelihood %r, below %r at the start parameters"
                              % (what, {n: float(getattr(nrm, n)) for n in names}, llf1, llf0), rp)
            if c["norm"] == "BoxCoxShift" and fitted == ["lmbda"]:
                # with the shift frozen the objective is the Box-Cox one of the shifted data
                ref = gn.BoxCox(lmbda=l0)
                with warnings.catch_warnings():
                    warnings.simplefilter("ignore")
                    ref.fit(data + s0, **kw)
                if abs(float(ref.lmbda) - float(nrm.lmbda)) > 1e-6 * max(1.0, abs(float(ref.lmbda))):
                    col.violation(sig + ":differs-from-BoxCox-on-shifted-data",
                                  "%s gives lmbda = %r, BoxCox(lmbda=%r).fit(data + %r) gives %r"
                                  % (what, float(nrm.lmbda), l0, s0, float(ref.lmbda)), rp)
            col.nontrivial.add(("fit", c["norm"], tuple(skip), tuple(c["lam0"]), tuple(c["shift0"]), dname))
        col.traces += 1
        if c["norm"] == "BoxCoxShift" and skip == ["lmbda"] and l0 == -0.5:
            col.sample({"section": "fit", "normalizer": c["norm"], "start": {"lmbda": l0, "shift": s0}, "skip": skip,
                        "fitted": fitted, "frozen": sorted(frozen)}, cap=1)


def replay_bounds(col, states):
    """uniform / arcsine / U-quadratic: a given bound is the bound, a missing one takes its default;
    the normal quantiles 0, 1/2, 1 map to lo, (lo + hi)/2, hi"""
    import gstools as gs
    import gstools.transform as gt
    from gstools.field import Field

    for st in states:
        c = st["c"]
        m, v = _f(c["mean"]), _f(c["var"])
        lo, hi, mid = _f(c["lo"]), _f(c["hi"]), _f(c["mid"])
        sd = math.sqrt(v)
        method = c["method"]
        names = ("low", "high") if method == "uniform" else ("a", "b")
        kw = {}
        if c["aGiven"]:
            kw[names[0]] = _f(c["a"])
        if c["bGiven"]:
            kw[names[1]] = _f(c["b"])
        full = {names[0]: lo, names[1]: hi}            # every bound passed explicitly
        # asymmetric: the sample mean differs from the given mean (an explicit mean of 0 must be used)
        inner = m + sd * np.array([-2.0, -1.0, -0.5, -0.25, 0.25, 0.5, 1.0, 2.0, 3.0, 2.5])
        x = np.concatenate(([m - 40.0 * sd, m, m + 40.0 * sd], inner))
        fn = {"uniform": gt.array_to_uniform, "arcsin": gt.array_to_arcsin, "uquad": gt.array_to_uquad}[method]
        fld = Field(gs.Gaussian(dim=1, var=0.75 * v, nugget=0.25 * v, len_scale=1.0), mean=m)
        fld([np.arange(len(x), dtype=float)], field=x.copy(), post_process=False)
        rp = {"section": "bounds", "case": c}
        sig = "bounds:%s:%s" % (method, "+".join(n for n, g in zip(names, (c["aGiven"], c["bGiven"])) if g) or "defaults")
        scale = max(1.0, abs(lo), abs(hi))
        for entry in ("array", "Field.transform"):
            col.evals += len(x)
            if entry == "array":
                out = np.asarray(fn(x.copy(), mean=m, var=v, **kw), dtype=float)
                ref = np.asarray(fn(x.copy(), mean=m, var=v, **full), dtype=float)
            else:
                out = np.asarray(fld.transform("normal_to_" + method, store=False, **kw), dtype=float)
                ref = np.asarray(fld.transform("normal_to_" + method, store=False, **full), dtype=float)
            call = "%s normal_to_%s(%s), mean=%r, var=%r" % (entry, method, ", ".join("%s=%r" % i for i in kw.items()), m, v)
            exact = [(0, lo, "the lowest input (quantile 0)"), (2, hi, "the highest input (quantile 1)")]
            if method != "uquad":   # the U-quadratic quantile function has infinite slope at 1/2
                exact.append((1, mid, "the mean (quantile 1/2)"))
            for i, e, what in exact:
                if abs(out[i] - e) > 1e-12 * scale:
                    col.violation(sig + ":quantile-image", "%s maps %s to %r, documented bounds [%r, %r] give %r"
                                  % (call, what, float(out[i]), lo, hi, e), rp)
            if out.min() < lo - 1e-12 * scale or out.max() > hi + 1e-12 * scale:
                col.violation(sig + ":range", "%s: output range [%r, %r] leaves [%r, %r]"
                              % (call, float(out.min()), float(out.max()), lo, hi), rp)
            if not np.allclose(out, ref, rtol=1e-12, atol=1e-12 * scale):
                col.violation(sig + ":defaults-relation", "%s differs from the call with both bounds passed explicitly (%s)"
                              % (call, full), rp)
        col.traces += 1
        col.nontrivial.add(("bounds", method, tuple(c["mean"]), tuple(c["var"]), c["aGiven"], c["bGiven"],
                            tuple(c["a"]), tuple(c["b"])))
        if method == "arcsin" and c["aGiven"] and not c["bGiven"]:
            col.sample({"section": "bounds", "method": method, "mean": m, "var": v, "given": kw,
                        "documented_bounds": [lo, hi]}, cap=1)


def replay_range(col, states, tier):
    """domain table for every way of handing a value over (python number, 0-d array, list, 1-d and
    2-d array) + the round-trip relation on the TLC-classified valid points"""
    groups = {}
    for st in states:
        c = st["c"]
        groups.setdefault((c["norm"], tuple(c["lam"]), tuple(c["shift"]), c["dir"], c["shape"]), []).append(c)
    for (name, lam, shift, direction, shape), cases in sorted(groups.items()):
        lamf, sf = lam[0] / lam[1], shift[0] / shift[1]
        nrm = make_norm(name, lamf, sf)
        fn = getattr(nrm, direction)
        inv = {"normalize": nrm.denormalize, "denormalize": nrm.normalize}.get(direction)
        cases = sorted(cases, key=lambda c: (c["v"][1] == 0, _f(c["v"]) if c["v"][1] else 0.0))
        v = np.array([_f(c["v"]) for c in cases])
        cls = [c["cls"] for c in cases]
        lc = lamclass(name, lamf)
        sig = "range:%s:%s:%s" % (name, lc, direction)
        rng_name = "denormalize_range" if direction == "denormalize" else "normalize_range"
        rp = {"section": "range", "normalizer": name, "lmbda": lamf, "shift": sf, "direction": direction,
              "input_as": shape, "values": v.tolist(), "classes": cls}
        # the inputs in the shape TLC dictates: (argument, classes of its elements in C order)
        if shape == "array1":     # the whole vector (NaN, out-of-range and valid mixed), then 1-element arrays
            batches = [(v.copy(), cls)] + [(v[i:i + 1].copy(), cls[i:i + 1]) for i in range(len(v))]
        elif shape == "list":
            batches = [(v.tolist(), cls)]
        elif shape == "array2":
            batches = [(np.stack([v, v[::-1]]), cls + cls[::-1])]
        elif shape == "scalar":
            batches = [(float(x), [k]) for x, k in zip(v, cls)]
        else:
            batches = [(np.array(float(x)), [k]) for x, k in zip(v, cls)]
        for arg, cl in batches:
            shown = arg.tolist() if isinstance(arg, np.ndarray) else arg
            with warnings.catch_warnings(record=True) as wlist:
                warnings.simplefilter("always")
                try:
                    out = np.asarray(fn(arg), dtype=float).reshape(-1)
                except Exception as e:  # noqa: BLE001
                    col.violation(sig + ":" + shape + ":exception",
                                  "%r.%s(%r) (input as %s, element classes %s) raised %r" % (nrm, direction, shown, shape, cl, e), rp)
                    continue
            col.evals += len(cl)
            if len(out) != len(cl):
                col.violation(sig + ":" + shape + ":shape", "%r.%s(%r) returned %d values for %d inputs"
                              % (nrm, direction, shown, len(out), len(cl)), rp)
                continue
            warned = any(issubclass(w.category, UserWarning) and "out of range" in str(w.message) for w in wlist)
            if warned != ("OutOfRange" in cl):
                col.drift_msg("%r.%s(%r, as %s): out-of-range warning %s although the table %s an out-of-range entry"
                              % (nrm, direction, shown, shape, "emitted" if warned else "missing",
                                 "has" if "OutOfRange" in cl else "has no"))
            flat = np.asarray(arg, dtype=float).reshape(-1).tolist()
            for x, o, k in zip(flat, out.tolist(), cl):
                if k in ("NaN", "OutOfRange"):
                    if not np.isnan(o):
                        col.violation(sig + (":nan-in" if k == "NaN" else ":out-of-range"),
                                      "%r.%s(%r) = %r (input as %s), documented: %s input gives NaN (valid range %s)"
                                      % (nrm, direction, x, o, shape, k, tuple(float(e) for e in getattr(nrm, rng_name))), rp)
                elif k == "Valid":
                    if not np.isfinite(o):
                        col.violation(sig, "%r.%s(%r) = %r (input as %s) although %r lies inside the documented range"
                                      % (nrm, direction, x, o, shape, x), rp)
                else:
                    col.note("%s:%s:denormalize-outside-image(undocumented)" % (name, lc))
            # the relation of the property: inverse(direction(x)) = x on the valid elements
            if inv is not None and any(k == "Valid" for k in cl):
                other = "denormalize" if direction == "normalize" else "normalize"
                with warnings.catch_warnings():
                    warnings.simplefilter("ignore")
                    try:
                        back = np.asarray(inv(fn(arg)), dtype=float).reshape(-1)
                    except Exception as e:  # noqa: BLE001
                        col.violation("roundtrip:%s:%s:%s:%s:exception" % (name, lc, other, shape),
                                      "%r: %s(%s(%r)) (input as %s) raised %r" % (nrm, other, direction, shown, shape, e), rp)
                        continue
                sel = np.array([k == "Valid" for k in cl])
                want = np.array(flat)[sel]
                ok = _relclose(back[sel], want, 1e-9)
                col.evals += int(sel.sum())
                if not ok.all():
                    i = int(np.flatnonzero(~ok)[0])
                    col.violation("roundtrip:%s:%s:%s" % (name, lc, other),
                                  "%r: %s(%s(%r)) = %r instead of %r (input as %s)"
                                  % (nrm, other, direction, float(want[i]), float(back[sel][i]), float(want[i]), shape), rp)
        col.traces += 1
        col.nontrivial.add(("range", name, lam, shift, direction, shape))
        if name == "BoxCoxShift" and lamf < 0 and sf > 0 and direction == "denormalize" and shape == "array2":
            col.sample({"section": "range", "normalizer": repr(nrm), "direction": direction, "input_as": shape,
                        "values": [repr(x) for x in v.tolist()], "classes": cls}, cap=1)


def aux_finite_difference(col):
    """auxiliary, never decides: reported derivative vs central difference, sampled monotonicity"""
    rng = np.linspace(0.3, 5.0, 48)
    worst = {}
    for name, lam, s in [("LogNormal", 1, 0)] + [(n, l, 0) for n in ("BoxCox", "YeoJohnson", "Modulus", "Manly")
                                                 for l in (-1.0, -0.5, 0.0, 0.5, 1.0, 2.0)] + \
            [("BoxCoxShift", l, 1.0) for l in (-1.0, 0.0, 0.5, 2.0)]:
        nrm = make_norm(name, lam, s)
        x = rng if name in ("LogNormal", "BoxCox", "BoxCoxShift") else np.concatenate((-rng[::-1], rng))
        h = 1e-6
        fd = (nrm.normalize(x + h) - nrm.normalize(x - h)) / (2 * h)
        d = nrm.derivative(x)
        dev = float(np.max(np.abs(fd - d) / np.maximum(1.0, np.abs(d))))
        inc = bool(np.all(np.diff(nrm.normalize(x)) > 0))
        worst["%r" % nrm] = {"max_rel_dev_derivative_vs_central_difference": dev, "increasing_on_sample": inc}
    col.extra["aux_numeric"] = worst


# ---------------------------------------------------------------------------
# C19: force_moments

def replay_force(col, states):
    from gstools.transform import array_force_moments

    for st in states:
        c = st["c"]
        f = np.array(c["f"], dtype=float)
        m, v = _f(c["mean"]), _f(c["var"])
        out = np.asarray(array_force_moments(f.copy(), mean=m, var=v), dtype=float)
        n = len(out)
        mu = math.fsum(out.tolist()) / n
        s2 = math.fsum(((o - mu) ** 2 for o in out.tolist())) / n
        rp = {"section": "force", "case": c}
        col.evals += 1
        col.traces += 1
        if abs(mu - m) > 1e-12 * max(1.0, abs(m)):
            col.violation("force_moments:sample-mean", "array_force_moments(%s, mean=%r, var=%r) has sample mean %r"
                          % (f.tolist(), m, v, mu), rp)
        if abs(s2 - v) > 1e-12 * max(1.0, abs(v)):
            col.violation("force_moments:sample-variance",
                          "array_force_moments(%s, mean=%r, var=%r) has sample variance %r" % (f.tolist(), m, v, s2), rp)
        if c["out"]:
            exp = np.array([_f(q) for q in c["out"]])
            if not _relclose(out, exp, 1e-12).all():
                col.violation("force_moments:value", "array_force_moments(%s, mean=%r, var=%r) = %s, exactly %s"
                              % (f.tolist(), m, v, out.tolist(), exp.tolist()), rp)
            col.nontrivial.add(("force-exact", tuple(c["f"]), tuple(c["mean"]), tuple(c["var"])))
        else:
            col.nontrivial.add(("force", tuple(c["f"]), tuple(c["mean"]), tuple(c["var"])))
        if c["out"] and len(c["f"]) == 3:
            col.sample({"section": "force", "field": c["f"], "mean": m, "var": v,
                        "exact_result": ["%d/%d" % tuple(q) for q in c["out"]]}, cap=1)


def relation_explicit_zero_mean(col):
    """an explicitly given mean of 0 (falsy) is THE mean: every array function that takes the mean of the
    normal input is invariant under shifting input and mean together (Zinn-Harvey: the output shifts
    along); the sample mean of the input is far from 0.  Relation between implementation outputs."""
    import gstools.transform as gt

    x = np.array([0.25, 0.5, 1.0, 1.5, 2.0, 3.0, -0.5, 4.0, 2.5, 0.75])      # sample mean 1.5
    c = 2.0
    for name, fn, kw, shifts in (("array_zinnharvey(conn=high)", gt.array_zinnharvey, dict(conn="high"), True),
                                 ("array_zinnharvey(conn=low)", gt.array_zinnharvey, dict(conn="low"), True),
                                 ("array_to_uniform", gt.array_to_uniform, dict(low=0.0, high=2.0), False),
                                 ("array_to_arcsin", gt.array_to_arcsin, dict(a=0.0, b=3.0), False),
                                 ("array_to_uquad", gt.array_to_uquad, dict(a=-1.0, b=0.0), False),
                                 ("array_discrete(equal)", lambda f, mean, var: gt.array_discrete(
                                     f, [0.0, 1.0, 5.0], "equal", mean=mean, var=var), {}, False)):
        for var in (1.0, 2.25):
            a = np.asarray(fn(x.copy(), mean=0.0, var=var, **kw), dtype=float)
            b = np.asarray(fn(x + c, mean=c, var=var, **kw), dtype=float) - (c if shifts else 0.0)
            col.evals += len(x)
            col.traces += 1
            if not np.allclose(a, b, rtol=1e-10, atol=1e-10):
                col.violation("zero-mean:%s" % name.split("(")[0],
                              "%s(x, mean=0.0, var=%r) = %s differs from the call with input and mean shifted by %r: %s "
                              "(x = %s, sample mean 1.5)" % (name, var, a.tolist(), c, b.tolist(), x.tolist()),
                              {"section": "zero-mean", "function": name})
            col.nontrivial.add(("zero-mean", name, var))


def relation_boxcox(col, range_states, fix_states):
    """Box-Cox transform inverts the Box-Cox normalizers.  array_boxcox(f, lmbda, shift) shifts the
    field by `shift` "before transformation", i.e. it is BoxCox(lmbda).denormalize(f + shift);
    BoxCoxShift(lmbda, t) adds t to the data first.  Hence for every valid x
        array_boxcox(BoxCoxShift(lmbda, t).normalize(x) - s, lmbda, shift=s) = x + t
    for every s, through the array function and Field.transform("boxcox") (relation on the
    TLC-classified valid points; exact at TLC's reference points x0 |-> 0, also for lmbda = 0)."""
    import gstools as gs
    from gstools.field import Field
    from gstools.transform import array_boxcox

    groups = {}
    for st in range_states:
        c = st["c"]
        if c["norm"] in ("BoxCox", "BoxCoxShift") and c["dir"] == "normalize" and c["cls"] == "Valid" \
                and c.get("shape", "array1") == "array1":
            groups.setdefault((c["norm"], tuple(c["lam"]), tuple(c["shift"])), []).append(_f(c["v"]))
    exact = {}
    for st in fix_states:
        c = st["c"]
        if c["norm"] in ("BoxCox", "BoxCoxShift"):
            exact[(c["norm"], tuple(c["lam"]), tuple(c["shift"]))] = _f(c["x"])
    model = gs.Gaussian(dim=1, var=1.0, len_scale=1.0)
    for (name, lamq, tq), xs in sorted(groups.items()):
        lam, t = lamq[0] / lamq[1], tq[0] / tq[1]
        nrm = make_norm(name, lam, t)
        x = np.array(sorted(xs))
        y = nrm.normalize(x.copy())
        x0 = exact.get((name, lamq, tq))
        for sh in (0.0, 1.0, -0.5):
            for entry in ("array_boxcox", "Field.transform"):
                for data, want, tol, obs in ((y - sh, x + t, 1e-9, "relation"),
                                            (np.array([0.0 - sh]), None if x0 is None else np.array([x0 + t]), 1e-12,
                                             "reference-point")):
                    if want is None:
                        continue
                    with warnings.catch_warnings():
                        warnings.simplefilter("ignore")
                        if entry == "array_boxcox":
                            back = np.asarray(array_boxcox(data.copy(), lmbda=lam, shift=sh), dtype=float)
                        else:
                            fld = Field(model, mean=0.0)
                            fld([np.arange(len(data), dtype=float)], field=data.copy(), post_process=False)
                            back = np.asarray(fld.transform("boxcox", lmbda=lam, shift=sh, store=False), dtype=float)
                    col.evals += len(data)
                    ok = _relclose(back, want, tol)
                    if not ok.all():
                        i = int(np.flatnonzero(~ok)[0])
                        col.violation("boxcox-inverts:%s:%s:%s" % (lamclass(name, lam), "shifted" if sh else "unshifted", obs),
                                      "%s(%r, lmbda=%r, shift=%r) = %r, but %r.normalize(%r) = %r, so the inverse of the "
                                      "shifted field is %r"
                                      % (entry, float(data[i]), lam, sh, float(back[i]), nrm, float(want[i] - t),
                                         float(data[i] + sh), float(want[i])), {"section": "boxcox-relation", "normalizer": name,
                                                                               "lmbda": lam, "normalizer_shift": t, "shift": sh})
        col.traces += 1
        col.nontrivial.add(("boxcox-relation", name, lamq, tq))


# ---------------------------------------------------------------------------
# Pipeline: MC modules

ALL_METHODS = [("identity", "-"), ("function", "-"), ("binary", "default"), ("binary", "given"),
               ("discrete", "arithmetic"), ("discrete", "user"), ("discrete", "equal"), ("boxcox", "-"),
               ("zinnharvey", "-"), ("force_moments", "-"), ("lognormal", "-"), ("uniform", "-"),
               ("arcsin", "-"), ("uquad", "-")]
PL_INVARIANTS = ["InverseOrder", "PreInvertsPost", "HonoursData", "DocumentedForm", "IdentityIsNoop",
                 "MeanArgConsistent", "StoreDiscipline"]


def _sset(xs):
    return "{" + ", ".join('"%s"' % x for x in xs) + "}"


def _mset(ms):
    return "{" + ", ".join('<<"%s", "%s">>' % m for m in ms) + "}"


def pipeline_module(name, kind, maxcalls, maxtrans, vtypes=("scalar",), meshes=("unstructured",), ktypes=("-",),
                    means=("none", "const", "call"), norms=(True, False), trends=("none", "const", "call"),
                    m1=ALL_METHODS, m2=(("lognormal", "-"), ("binary", "default")), nspells=("instance", "none")):
    d = {
        "Kind": '"%s"' % kind, "MeanKinds": _sset(means),
        "NormKinds": "{" + ", ".join("TRUE" if n else "FALSE" for n in norms) + "}",
        "TrendKinds": _sset(trends), "VTypes": _sset(vtypes), "Meshes": _sset(meshes), "KTypes": _sset(ktypes),
        "NSpells": _sset(nspells),
        "MaxCalls": str(maxcalls), "MaxTrans": str(maxtrans), "Methods1": _mset(m1), "Methods2": _mset(m2),
    }
    mod = "---- MODULE %s ----\nEXTENDS Pipeline\n" % name + "".join("Mc%s == %s\n" % kv for kv in d.items()) + "====\n"
    cfg = "CONSTANTS\n" + "".join(" %s <- Mc%s\n" % (k, k) for k in d) + "INIT Init\nNEXT Next\n" + \
        "".join("INVARIANT %s\n" % i for i in PL_INVARIANTS) + "PROPERTY EarlierFieldsUntouched\n"
    return mod, cfg


def pipeline_plan(pid, tier):
    """list of (tag, kind, module kwargs, history length, phase)"""
    thorough = tier == "thorough"
    plan = []
    both = ("unstructured", "structured")
    if pid == "C18":
        nc = 3 if thorough else 2
        for kind in ("Field", "SRF"):
            for vt in ("scalar", "vector"):
                plan.append(("%s_%s" % (kind, vt), kind, dict(maxcalls=nc, maxtrans=0, vtypes=(vt,), meshes=both), nc))
        for kt in ("simple", "ordinary", "universal"):
            for mesh in both:
                plan.append(("Krige_%s_%s" % (kt, mesh[:2]), "Krige",
                             dict(maxcalls=3 if thorough else 2, maxtrans=0, ktypes=(kt,), meshes=(mesh,)),
                             3 if thorough else 2))
        plan.append(("CondSRF", "CondSRF", dict(maxcalls=nc, maxtrans=0, ktypes=("simple", "ordinary"), meshes=both), nc))
        plan.append(("Vario", "Vario", dict(maxcalls=1, maxtrans=0, vtypes=("scalar", "vector"), meshes=both), 1))
        # the normalizer spelled as a class (or the identity class): call, change a sibling object built
        # with the same spelling (parameters set / fitted by the library), call again
        cls = ("class", "baseclass")
        tr = ("none", "call") if not thorough else ("none", "const", "call")
        mn = ("const",) if not thorough else ("none", "const", "call")
        plan.append(("Field_spell", "Field", dict(maxcalls=3, maxtrans=0, nspells=cls, means=mn, trends=tr), 3))
        plan.append(("SRF_spell", "SRF", dict(maxcalls=3, maxtrans=0, nspells=cls, means=mn, trends=tr,
                                              meshes=("structured",)), 3))
        plan.append(("Krige_spell", "Krige", dict(maxcalls=3, maxtrans=0, nspells=cls if thorough else ("class",),
                                                  norms=(True, False) if thorough else (True,), means=("const",),
                                                  trends=tr[:2], ktypes=("ordinary",)), 3))
        plan.append(("CondSRF_spell", "CondSRF", dict(maxcalls=3, maxtrans=0, nspells=cls, means=("const",), trends=tr[:2],
                                                      ktypes=("simple",)), 3))
        plan.append(("Vario_spell", "Vario", dict(maxcalls=1, maxtrans=0, nspells=cls, meshes=both), 1))
    else:
        for kind in ("Field", "SRF"):
            for vt, mesh in (("scalar", "unstructured"), ("scalar", "structured"), ("vector", "unstructured"),
                             ("vector", "structured")):
                if not thorough and (kind, vt, mesh) in (("Field", "vector", "structured"), ("SRF", "vector", "unstructured")):
                    continue
                plan.append(("%s_%s_%s" % (kind, vt, mesh[:2]), kind,
                             dict(maxcalls=1, maxtrans=1, vtypes=(vt,), meshes=(mesh,)), 2))
        # histories with two transformations (a transformed / renamed field is transformed again)
        if thorough:
            for kind in ("Field", "SRF"):
                for mean in ("none", "const", "call"):
                    plan.append(("%s_t2_%s" % (kind, mean), kind,
                                 dict(maxcalls=1, maxtrans=2, means=(mean,), m2=(("lognormal", "-"), ("binary", "default"))), 3))
        else:
            plan.append(("SRF_t2", "SRF", dict(maxcalls=1, maxtrans=2, means=("const",), norms=(True, False),
                                               trends=("none", "call"), m2=(("lognormal", "-"),)), 3))
            plan.append(("Field_t2", "Field", dict(maxcalls=1, maxtrans=2, means=("const",), norms=(False,),
                                                   trends=("none",), m2=(("binary", "default"),)), 3))
    phase = "calls" if pid == "C18" else "transforms"
    plan = [p + (phase,) for p in plan]
    if pid == "C18":
        # transform(process=True) = PreProcess, function, PostProcess: pre-processing must invert
        # post-processing on real objects and leave the stored source alone (two consecutive
        # processed transformations of the same source)
        two = (("identity", "-"), ("function", "-"))
        for kind in ("Field", "SRF"):
            plan.append(("%s_tr" % kind, kind,
                         dict(maxcalls=1, maxtrans=2, means=("const", "call") if not thorough else ("none", "const", "call"),
                              trends=("none", "call") if not thorough else ("none", "const", "call"),
                              meshes=("unstructured",) if kind == "Field" else ("structured",),
                              m1=two, m2=two), 3, "transforms"))
    return plan


# ---------------------------------------------------------------------------
# Pipeline: numeric instances (non-commuting) and term evaluation

UX = np.array([0.0, 1.0, 2.0, 3.0, 1.0, 4.0, 2.0, 0.0, 3.0])
UY = np.array([0.0, 2.0, 1.0, 3.0, 3.0, 0.0, 4.0, 1.0, 1.0])
AX = np.array([0.0, 1.0, 2.0, 3.0])
AY = np.array([0.0, 1.0, 2.0])
COND = [(0.0, 0.0), (2.0, 1.0), (3.0, 2.0), (1.0, 2.0), (3.0, 0.0)]
KOFF = [(1.0, 1.0), (0.0, 2.0), (2.0, 0.0), (4.0, 1.0), (2.5, 1.5)]
CONDZ = np.array([0.5, -0.25, 1.0, -1.0, 0.25])      # conditioning values before post-processing
SEED = 20240519
_PAR = int(os.environ.get("VERIF_PAR", "14"))   # development: VERIF_PAR=4
MAX_REPORTED = 16
SILL = 2.25
FLAVOURS = ("LogNormal", "YeoJohnson", "Modulus")
BIN_EDGES = [0.0, 1.5, 3.0, 4.5, 6.0]
FN = lambda a: a ** 2 + 1.0  # noqa: E731
IDENT = lambda a: a  # noqa: E731
KW = {  # keyword arguments of the real transformation calls
    "identity": ("function", dict(function=IDENT)),
    "function": ("function", dict(function=FN)),
    "binary:default": ("binary", {}),
    "binary:given": ("binary", dict(divide=0.33, upper=3.0, lower=-1.0)),
    "discrete:arithmetic": ("discrete", dict(values=[1.5, -1.2, 3.3])),
    "discrete:user": ("discrete", dict(values=[2.0, 5.0, -1.0], thresholds=[-0.42, 1.13])),
    "discrete:equal": ("discrete", dict(values=[1.0, 4.0], thresholds="equal")),
    "boxcox": ("boxcox", dict(lmbda=0.5, shift=1.0)),
    "zinnharvey": ("zinnharvey", dict(conn="low")),
    "force_moments": ("normal_force_moments", {}),
    "lognormal": ("normal_to_lognormal", {}),
    "uniform": ("normal_to_uniform", dict(low=1.0, high=3.0)),
    "arcsin": ("normal_to_arcsin", {}),
    "uquad": ("normal_to_uquad", dict(a=-1.0, b=2.0)),
}


def array_fn(method, variant, mean_arg, data, cmean):
    """the array-level function the wrapper documents, with the mean the spec dictates"""
    import gstools.transform as gt

    m = {"zero": 0.0, "const": cmean, "none": None, "-": None}[mean_arg]
    s = math.sqrt(SILL)
    if method == "function":
        return FN(data)
    if method == "binary":
        if variant == "default":
            return gt.array_discrete(data, values=[m - s, m + s], thresholds=[m])
        return gt.array_discrete(data, values=[-1.0, 3.0], thresholds=[0.33])
    if method == "discrete":
        if variant == "arithmetic":
            return gt.array_discrete(data, values=[1.5, -1.2, 3.3], thresholds="arithmetic")
        if variant == "user":
            return gt.array_discrete(data, values=[2.0, 5.0, -1.0], thresholds=[-0.42, 1.13])
        return gt.array_discrete(data, values=[1.0, 4.0], thresholds="equal", mean=m, var=SILL)
    if method == "boxcox":
        return gt.array_boxcox(data, lmbda=0.5, shift=1.0)
    if method == "zinnharvey":
        return gt.array_zinnharvey(data, conn="low", mean=m, var=SILL)
    if method == "force_moments":
        return gt.array_force_moments(data, mean=m, var=SILL)
    if method == "lognormal":
        return gt.array_to_lognormal(data)
    if method == "uniform":
        return gt.array_to_uniform(data, mean=m, var=SILL, low=1.0, high=3.0)
    if method == "arcsin":
        return gt.array_to_arcsin(data, mean=m, var=SILL)
    if method == "uquad":
        return gt.array_to_uquad(data, mean=m, var=SILL, a=-1.0, b=2.0)
    raise KeyError(method)


class Instance:
    """real objects + the driver's own evaluation of mean / trend / normalizer steps for one
    (kind, configuration, normalizer flavour)"""

    def __init__(self, kind, cfg, flavour, phase):
        import gstools as gs
        import gstools.normalizer as gn

        self.kind, self.cfg, self.flavour = kind, cfg, flavour
        self.vector = cfg["vtype"] == "vector" and kind in ("Field", "SRF")
        self.stacked = cfg["vtype"] == "vector" and kind == "Vario"
        self.mesh = cfg["mesh"]
        self.gs = gs
        self.norm = None
        self.nspell = cfg.get("nspell", "instance" if cfg["norm"] else "none")
        # self.norm is the driver's OWN normalizer with the configured parameters: it evaluates the
        # documented steps and is never handed to the library
        if cfg["norm"] and self.nspell == "class":   # default parameters of the class
            self.norm = {"LogNormal": gn.LogNormal, "YeoJohnson": gn.Manly, "Modulus": gn.BoxCox}[flavour]()
        elif cfg["norm"]:
            self.norm = {"LogNormal": gn.LogNormal(), "YeoJohnson": gn.YeoJohnson(lmbda=0.5),
                         "Modulus": gn.Modulus(lmbda=2.0)}[flavour]
        # a scalar mean is handed to array functions by the transformations
        vecmean = self.vector and phase == "calls"
        self.cmean = 2.0
        if cfg["mean"] == "none":
            self.mean = None
        elif cfg["mean"] == "const":
            self.mean = [2.0, 0.5] if vecmean else 2.0
        elif self.vector:
            self.mean = lambda x, y: np.array([2.0 + 0.5 * x, 0.5 - 0.25 * y])
        else:
            self.mean = lambda x, y: 2.0 + 0.5 * x - 0.25 * y
        if cfg["trend"] == "none":
            self.trend = None
        elif cfg["trend"] == "const":
            self.trend = [1.0, -3.0] if self.vector else 1.0
        elif self.vector:
            self.trend = lambda x, y: np.array([3.0 * x + y, x - 2.0 * y])
        else:
            self.trend = lambda x, y: 3.0 * x + y
        # target points
        if kind in ("Krige", "CondSRF"):
            if self.mesh == "unstructured":
                pts = COND + KOFF
                self.pos = [np.array([p[0] for p in pts]), np.array([p[1] for p in pts])]
                self.XX, self.YY = self.pos
                self.at = (np.arange(len(COND)),)
            else:
                self.pos = [AX.copy(), AY.copy()]
                self.XX, self.YY = np.meshgrid(AX, AY, indexing="ij")
                self.at = (np.array([int(p[0]) for p in COND]), np.array([int(p[1]) for p in COND]))
        elif self.mesh == "unstructured":
            self.pos = [UX.copy(), UY.copy()]
            self.XX, self.YY = self.pos
        else:
            self.pos = [AX.copy(), AY.copy()]
            self.XX, self.YY = np.meshgrid(AX, AY, indexing="ij")
        self.CX = np.array([p[0] for p in COND])
        self.CY = np.array([p[1] for p in COND])
        shape = self.XX.shape
        self.shape = ((2,) + shape) if (self.vector or self.stacked) else shape
        self.bases = {}
        self._build(phase)

    # -- the driver's own evaluation of mean and trend (independent of eval_func) ----------
    def _mt(self, what, X, Y):
        v = self.mean if what == "mean" else self.trend
        if callable(v):
            return v(X, Y)
        if np.size(v) > 1:
            return np.asarray(v, dtype=float).reshape((2,) + (1,) * np.ndim(X))
        return float(v)

    def step(self, tok, arr, X, Y):
        if tok == "addmean":
            return arr + self._mt("mean", X, Y)
        if tok == "submean":
            return arr - self._mt("mean", X, Y)
        if tok == "addtrend":
            return arr + self._mt("trend", X, Y)
        if tok == "subtrend":
            return arr - self._mt("trend", X, Y)
        if tok == "denorm":
            return self.norm.denormalize(np.array(arr, dtype=float, copy=True))
        if tok == "norm":
            return self.norm.normalize(np.array(arr, dtype=float, copy=True))
        if tok.startswith("fn:"):
            _fn, method, variant, mean_arg = tok.split(":")
            data = np.array(arr, dtype=float, copy=True)
            out = np.array(array_fn(method, variant, mean_arg, data, self.cmean), dtype=float)
            if method in ("binary", "discrete") and np.isnan(data).any():
                # array_discrete leaves the result of NaN inputs uninitialised: unspecified positions
                self.undef = np.isnan(data) if self.undef is None else (self.undef | np.isnan(data))
                out[np.isnan(data)] = np.nan
            return out
        raise KeyError(tok)

    def evaluate(self, term, at=False):
        base = self.bases[term[0]]
        arr = base() if callable(base) else base
        X, Y = (self.CX, self.CY) if at else (self.XX, self.YY)
        if self.stacked:
            return np.array([self._eval1(a, term, X, Y) for a in arr])
        return self._eval1(arr, term, X, Y)

    undef = None   # positions whose value the documentation leaves unspecified (set by step)

    def _eval1(self, arr, term, X, Y):
        arr = np.array(arr, dtype=float, copy=True)
        for tok in term[1:]:
            arr = self.step(tok, arr, X, Y)
        return arr

    # -- real objects -------------------------------------------------------------------
    def norm_arg(self):
        """the normalizer argument in the spelling TLC dictates"""
        import copy
        import gstools.normalizer as gn

        if self.nspell == "class":
            return type(self.norm)
        if self.nspell == "baseclass":
            return gn.Normalizer
        if self.nspell == "none" or self.norm is None:
            return None
        return copy.deepcopy(self.norm)     # an instance of its own with the configured parameters

    def _common(self):
        return dict(mean=self.mean, normalizer=self.norm_arg(), trend=self.trend)

    def _krige(self, model):
        gs, kt = self.gs, self.cfg["ktype"]
        cpos = [self.CX.copy(), self.CY.copy()]
        kw = dict(normalizer=self.norm_arg(), trend=self.trend)
        if kt == "simple":
            if self.mean is None:
                return gs.krige.Krige(model, cpos, self.cond_val.copy(), unbiased=False, **kw)
            return gs.krige.Simple(model, cpos, self.cond_val.copy(), mean=self.mean, **kw)
        if kt == "ordinary":
            if self.mean is None:
                return gs.krige.Ordinary(model, cpos, self.cond_val.copy(), **kw)
            return gs.krige.Krige(model, cpos, self.cond_val.copy(), mean=self.mean, **kw)
        if self.mean is None:
            return gs.krige.Universal(model, cpos, self.cond_val.copy(), "linear", **kw)
        return gs.krige.Krige(model, cpos, self.cond_val.copy(), drift_functions="linear", mean=self.mean, **kw)

    def _build(self, phase):
        gs, kind = self.gs, self.kind
        from gstools.field import Field

        with warnings.catch_warnings():
            warnings.simplefilter("ignore")
            if kind == "Field":
                # sill = var + nugget: the wrappers must hand over the sill, not the variance
                self.model = gs.Gaussian(dim=2, var=SILL - 0.25, nugget=0.25, len_scale=[2.0, 1.0], angles=0.5)
                n = int(np.prod(self.shape))
                # residues mod 1/4 avoid those of every threshold of KW (0, .08, .13, .15): no value sits on a class
                # boundary after adding / removing the (quarter-valued) mean and trend
                vals = np.array([-1.05, -0.55, 0.1, 0.3, 0.47, 0.95, 1.43, 1.93, -0.8, 0.72, 1.2, -0.3])
                self.bases["in"] = vals[(np.arange(n) * 5) % len(vals)].reshape(self.shape)
                if phase == "calls" and self.cfg["mean"] == "none":
                    # a field object without covariance model
                    self.make = lambda: Field(dim=2, value_type=self.cfg["vtype"], **self._common())
                else:
                    self.make = lambda: Field(self.model, value_type=self.cfg["vtype"], **self._common())
            elif kind == "SRF":
                self.model = gs.Gaussian(dim=2, var=SILL, len_scale=[2.0, 1.0], angles=0.5)
                gen = dict(generator="VectorField") if self.vector else {}
                self.make = lambda: gs.SRF(self.model, seed=SEED, mode_no=16, **gen, **self._common())
                raw0 = gs.SRF(self.model, mean=None, seed=SEED, mode_no=16, **gen)
                self.bases["raw"] = np.array(raw0(self.pos, seed=SEED, mesh_type=self.mesh, post_process=False,
                                                  store=False), copy=True)
            elif kind in ("Krige", "CondSRF"):
                self.model = gs.Exponential(dim=2, var=SILL, len_scale=2.0)   # analytic mode sampling, well conditioned
                # conditioning values: a valid output of the pipeline, so that pre-processing is defined
                self.bases["cond"] = None
                z = CONDZ.copy()
                for tok, on in (("addmean", self.mean is not None), ("denorm", self.norm is not None),
                                ("addtrend", self.trend is not None)):
                    if on:
                        z = self.step(tok, z, self.CX, self.CY)
                self.cond_val = z
                self.bases["cond"] = self.cond_val
                k0 = self._krige(self.model)
                kraw, kvar = k0(self.pos, mesh_type=self.mesh, post_process=False, store=False)
                self.bases["kraw"], self.bases["kvar"] = np.array(kraw, copy=True), np.array(kvar, copy=True)
                if kind == "Krige":
                    self.bases["est"] = np.array(k0(self.pos, mesh_type=self.mesh, only_mean=True, post_process=False,
                                                    store=False), copy=True)
                    self.est_scalar = k0.get_mean(post_process=False)
                    self.make = lambda: self._krige(self.model)
                else:
                    self.make = lambda: gs.CondSRF(self._krige(self.model), seed=SEED, mode_no=16)
                    c0 = gs.CondSRF(self._krige(self.model), seed=SEED, mode_no=16)
                    craw = c0(self.pos, seed=SEED, mesh_type=self.mesh, post_process=False, store=True)
                    self.bases["craw"] = np.array(craw, copy=True)
                    self.bases["gen"] = np.array(c0["raw_field"], copy=True)
            elif kind == "Vario":
                z = np.array([0.5, -0.25, 1.0, -1.0, 0.25, 0.75, -0.5, 1.5, 0.0, 1.25, -0.75, 0.125])
                n = int(np.prod(self.XX.shape))
                fields = []
                for j in range(2 if self.stacked else 1):
                    f = z[(np.arange(n) * (5 + 2 * j)) % len(z)].reshape(self.XX.shape)
                    for tok, on in (("addmean", self.mean is not None), ("denorm", self.norm is not None),
                                    ("addtrend", self.trend is not None)):
                        if on:
                            f = self.step(tok, f, self.XX, self.YY)
                    fields.append(f)
                self.bases["in"] = np.array(fields) if self.stacked else fields[0]


def _stv(st):
    return True if st == "T" else (False if st == "F" else st)


def cfgclass(cfg):
    return "mean=%s,norm=%d,trend=%s" % (cfg["mean"], cfg["norm"], cfg["trend"])


def _cmp(a, b, rtol):
    a, b = np.asarray(a, dtype=float), np.asarray(b, dtype=float)
    if a.shape != b.shape:
        return False
    scale = max(1.0, float(np.nanmax(np.abs(b))) if np.isfinite(b).any() else 1.0)
    return bool(np.allclose(a, b, rtol=rtol, atol=rtol * scale, equal_nan=True))


def _finite_share(a):
    a = np.asarray(a, dtype=float)
    return float(np.isfinite(a).mean()) if a.size else 0.0


def replay_history(col, kind, cfg, hist, flavour, phase, inst_cache, verbose=False):
    """execute one TLC history on real objects; returns the number of executed steps"""
    key = (kind, tlaval.freeze(cfg), flavour, phase)
    inst = inst_cache.get(key)
    if inst is None:
        inst = inst_cache[key] = Instance(kind, cfg, flavour, phase)
    gs = inst.gs
    obj = inst.make() if kind != "Vario" else None
    mine = {}      # snapshots of every stored field, taken when the field was bound
    unspec = {}    # name -> positions whose value is unspecified (a discrete transformation of NaN)
    steps = 0
    ctx = "%s[%s,%s,%s,%s%s%s]" % (kind, cfgclass(cfg), cfg["vtype"], cfg["mesh"], flavour if cfg["norm"] else "no-normalizer",
                                   "," + cfg["ktype"] if cfg["ktype"] != "-" else "",
                                   ",normalizer spelled as " + cfg["nspell"] if cfg.get("nspell") else "")
    hkey = lambda i: (kind, tlaval.freeze(cfg), flavour, tlaval.freeze([{k: v for k, v in r.items() if k in
                      ("op", "pp", "st", "only", "src", "method", "process", "keepMean")} for r in hist[:i + 1]]))

    def rp(i):
        return {"section": "pipeline", "kind": kind, "cfg": cfg, "flavour": flavour, "phase": phase,
                "hist": hist[:i + 1]}

    def sig(rec, obs):
        # signature = operation kind : configuration class (which components are present) : observable
        present = "+".join(n for n, on in (("mean", cfg["mean"] != "none"), ("normalizer", cfg["norm"]),
                                           ("trend", cfg["trend"] != "none")) if on) or "plain"
        if cfg.get("nspell") in ("class", "baseclass"):
            present += "(normalizer given as %s)" % ("class" if cfg["nspell"] == "class" else "the identity class")
        if rec["op"] == "transform":
            return "transform:%s:process=%d,keep_mean=%d:%s:%s" % (
                rec["method"], rec["process"], rec["keepMean"], present, obs)
        return "%s:%s:post_process=%d:%s:%s" % (rec["op"] + ("-only_mean" if rec["only"] else ""), kind, rec["pp"],
                                                present, obs)

    def check_value(i, rec, got, entry, what, obs):
        """compare a real array with the documented term(s)"""
        ok = True
        off = entry["off"] if isinstance(entry, dict) else entry
        exp = inst.evaluate(off)
        if verbose:
            print("    %s: term %s\n      real     %s\n      expected %s" % (what, off, np.asarray(got).tolist(),
                                                                           np.asarray(exp).tolist()))
        if not _cmp(got, exp, 1e-10):
            col.violation(sig(rec, obs), "%s: %s after %s differs from the documented value %s: real %s, documented %s"
                          % (ctx, what, _describe(hist[:i + 1]), " -> ".join(off), np.asarray(got).tolist(),
                             np.asarray(exp).tolist()), rp(i))
            ok = False
        if isinstance(entry, dict) and entry["at"] != entry["off"]:
            expc = inst.evaluate(entry["at"], at=True)
            gotc = np.asarray(got)[inst.at]
            if verbose:
                print("      at the conditioning points: term %s real %s expected %s" % (entry["at"], gotc.tolist(),
                                                                                         np.asarray(expc).tolist()))
            if not _cmp(gotc, expc, 1e-7):
                col.violation(sig(rec, obs + "-at-conditions"),
                              "%s: %s at the conditioning points after %s: real %s, documented %s = %s"
                              % (ctx, what, _describe(hist[:i + 1]), gotc.tolist(), " -> ".join(entry["at"]),
                                 np.asarray(expc).tolist()), rp(i))
                ok = False
        if ok and _finite_share(exp) >= 0.5:
            col.nontrivial.add(hkey(i))
        return ok

    def check_store(i, rec, names_of, getter, ret):
        names = set(names_of())
        if names != set(rec["names"]):
            col.violation(sig(rec, "stored-names"), "%s: stored fields after %s are %s, documented %s"
                          % (ctx, _describe(hist[:i + 1]), sorted(names), sorted(rec["names"])), rp(i))
            return
        if rec["save"] and rec["status"] == "ok" and rec["name"] in names and ret is not None:
            stored = getter(rec["name"])
            if not _cmp(stored, ret, 1e-15):
                col.violation(sig(rec, "stored-value"), "%s: field stored as %r after %s differs from the returned one"
                              % (ctx, rec["name"], _describe(hist[:i + 1])), rp(i))

    def check_untouched(i, rec):
        """StoreDiscipline on the real arrays: every stored field the call was not asked to (re)bind
        (rec["bound"], dictated by the spec) is exactly what it was when it was bound - so it still is
        its documented term and a later transformation of it starts from the same values"""
        for n in obj.field_names:
            if n in rec["bound"] or n not in mine:
                mine[n] = np.array(obj[n], dtype=float, copy=True)
            elif not np.array_equal(np.asarray(obj[n], dtype=float), mine[n], equal_nan=True):
                col.violation(sig(rec, "earlier-field-changed"),
                              "%s: %s changed the stored field %r although it was not asked to replace it: it was %s "
                              "(its documented value), now it is %s"
                              % (ctx, _describe(hist[:i + 1]), n, mine[n].tolist(), np.asarray(obj[n]).tolist()), rp(i))
                return False
        return True

    with warnings.catch_warnings():
        warnings.simplefilter("ignore")
        for i, rec in enumerate(hist):
            op = rec["op"]
            steps += 1
            col.evals += 1
            if verbose:
                print("  step %d: %s" % (i + 1, _describe([rec])))
            try:
                if op == "vario":
                    fin = inst.bases["in"]
                    pre = inst.evaluate(rec["res"])
                    kw = dict(bin_edges=BIN_EDGES, mesh_type=inst.mesh, return_counts=True)
                    real = gs.vario_estimate(inst.pos, np.array(fin, copy=True), mean=inst.mean, normalizer=inst.norm_arg(),
                                             trend=inst.trend, **kw)
                    ref = gs.vario_estimate(inst.pos, np.array(pre, copy=True), **kw)
                    if verbose:
                        print("    term %s\n      real %s\n      on the driver-preprocessed field %s"
                              % (rec["res"], real[1].tolist(), ref[1].tolist()))
                    if not (_cmp(real[1], ref[1], 1e-10) and np.array_equal(real[2], ref[2])):
                        col.violation(sig(rec, "estimate"),
                                      "%s: vario_estimate with mean/normalizer/trend gives %s (counts %s) but the estimate of "
                                      "the field pre-processed as %s is %s (counts %s)"
                                      % (ctx, real[1].tolist(), real[2].tolist(), " -> ".join(rec["res"]), ref[1].tolist(),
                                         ref[2].tolist()), rp(i))
                    elif _finite_share(ref[1]) >= 0.5:
                        col.nontrivial.add(hkey(i))
                    continue
                if op == "sibling":
                    # a second object built with the same spelling, then its normalizer is changed
                    how = rec["src"]
                    sib = inst.make()
                    pars = sorted(sib.normalizer.default_parameter)
                    try:
                        if how == "set":
                            for pn in pars:
                                setattr(sib.normalizer, pn, float(getattr(sib.normalizer, pn)) + 0.75)
                        else:   # fitted by the library: fit_normalizer=True with the same spelling, and fit()
                            line, dat = [np.arange(12.0)], FIT_DATA["skewed"]
                            gs.vario_estimate(line, dat.copy(), bin_edges=[0.0, 2.0, 4.0, 6.0], normalizer=inst.norm_arg(),
                                              fit_normalizer=True)
                            gs.krige.Ordinary(gs.Exponential(dim=1, len_scale=2.0), line, dat.copy(),
                                              normalizer=inst.norm_arg(), fit_normalizer=True)
                            sib.normalizer.fit(dat.copy())
                    except Exception as e:  # noqa: BLE001  (the sibling's own trouble is not this object's)
                        col.note("sibling-%s-raised:%s" % (how, type(e).__name__))
                    own = obj.normalizer
                    ref = inst.norm if inst.norm is not None else own
                    bad = [pn for pn in sorted(own.default_parameter) if not _same(getattr(own, pn), getattr(ref, pn))]
                    if bad or type(own) is not type(ref):
                        col.violation(sig(rec, "normalizer-parameters-changed"),
                                      "%s: after a sibling object built with normalizer=%r had its normalizer %s, this object's "
                                      "normalizer is %r instead of %r" % (ctx, inst.norm_arg(), "parameters assigned" if how == "set"
                                                                          else "fitted", own, ref), rp(i))
                    if not check_untouched(i, rec):
                        break
                    continue
                if op == "getmean":
                    got = obj.get_mean(post_process=rec["pp"])
                    if rec["status"] == "none":
                        if got is not None:
                            col.violation(sig(rec, "not-none"), "%s: get_mean(post_process=%s) = %r, documented None "
                                          "(no constant mean)" % (ctx, rec["pp"], got), rp(i))
                        continue
                    term = rec["res"]["off"]
                    exp = inst.est_scalar
                    for tok in term[1:]:
                        exp = inst.step(tok, np.array([exp], dtype=float), None, None)[0]
                    if verbose:
                        print("    term %s real %r expected %r" % (term, got, exp))
                    if got is None or not _cmp(got, exp, 1e-10):
                        col.violation(sig(rec, "value"), "%s: get_mean(post_process=%s) = %r, documented %s = %r"
                                      % (ctx, rec["pp"], got, " -> ".join(term), exp), rp(i))
                    else:
                        col.nontrivial.add(hkey(i))
                    continue
                if op == "call":
                    stv = _stv(rec["st"])
                    if kind == "Field":
                        ret = obj(inst.pos, field=np.array(inst.bases["in"], copy=True), mesh_type=inst.mesh,
                                  post_process=rec["pp"], store=stv)
                    elif kind == "SRF":
                        ret = obj(inst.pos, seed=SEED, mesh_type=inst.mesh, post_process=rec["pp"], store=stv)
                    elif kind == "Krige":
                        out = obj(inst.pos, mesh_type=inst.mesh, only_mean=rec["only"], post_process=rec["pp"], store=stv)
                        ret = out if rec["only"] else out[0]
                        if not rec["only"] and not _cmp(out[1], inst.bases["kvar"], 1e-10):
                            col.violation(sig(rec, "krige_var"), "%s: the kriging variance depends on post_process/store"
                                          % ctx, rp(i))
                    else:
                        ret = obj(inst.pos, seed=SEED, mesh_type=inst.mesh, post_process=rec["pp"], store=stv)
                    check_value(i, rec, ret, rec["res"], "the returned field", "value")
                    check_store(i, rec, lambda: obj.field_names, lambda n: obj[n], ret)
                    if kind == "CondSRF":
                        aux = rec["aux"]
                        if aux["off"]:
                            check_value(i, rec, obj.krige.field, aux, "krige.field", "krige-field")
                        for nm, b in (("raw_field", "gen"), ("raw_krige", "kraw")):
                            if nm in obj.field_names and not _cmp(obj[nm], inst.bases[b], 1e-10):
                                col.violation(sig(rec, nm), "%s: stored %s is not the unprocessed field" % (ctx, nm), rp(i))
                    if not check_untouched(i, rec):
                        break
                    continue
                # transformation
                src, stv = rec["src"], _stv(rec["st"])
                name, kw = KW[rec["method"] if rec["method"].split(":")[0] in ("binary", "discrete")
                              else rec["method"].split(":")[0]]
                h = zlib.crc32(repr((i, rec["method"], rec["st"], cfgclass(cfg))).encode())
                kw = dict(kw)
                if "thresholds" in kw and isinstance(kw["thresholds"], list) and h % 3 == 0:
                    kw["thresholds"] = np.array(kw["thresholds"])
                try:
                    if h % 2:
                        ret = obj.transform(name, field=src, store=stv, process=rec["process"], keep_mean=rec["keepMean"], **kw)
                    else:
                        fname = "apply_function" if name == "function" else name
                        ret = getattr(gs.transform, fname)(obj, field=src, store=stv, process=rec["process"],
                                                           keep_mean=rec["keepMean"], **kw)
                    err = None
                except Exception as e:  # noqa: BLE001
                    ret, err = None, e
                if verbose:
                    print("    status %s, raised %r" % (rec["status"], err))
                if rec["status"] == "open":
                    col.note("transform-with-%s-mean-argument:%s" % (rec["meanArg"], "exception" if err else "value"))
                    break   # the documentation leaves this call open: the history ends here
                if rec["status"] == "keyerror":
                    if not isinstance(err, KeyError):
                        col.violation(sig(rec, "missing-field-accepted"), "%s: transforming the missing field %r gave %r"
                                      % (ctx, src, err if err else "a value"), rp(i))
                elif rec["status"] == "rejected":
                    if not isinstance(err, ValueError):
                        col.violation(sig(rec, "not-rejected"),
                                      "%s: %s without process needs a normal field but %s" % (
                                          ctx, rec["method"], "raised %r" % err if err else "was accepted"), rp(i))
                        if err is None:
                            break
                elif err is not None:
                    col.violation(sig(rec, "exception"), "%s: %s raised %r" % (ctx, _describe(hist[:i + 1]), err), rp(i))
                    break
                else:
                    # 1. the documented steps applied literally to the stored source array
                    inst.undef = None
                    lit = inst._eval1(mine[src], [None] + list(rec["toks"]), inst.XX, inst.YY)
                    und, retm = inst.undef, ret
                    if unspec.get(src) is not None:
                        und = unspec[src] if und is None else (und | unspec[src])
                    if und is not None:
                        col.note("discrete-transformation-of-NaN-data:positions-unspecified", int(und.sum()))
                        lit = np.where(und, np.nan, lit)
                        retm = np.where(und, np.nan, np.asarray(ret, dtype=float))
                    if rec["save"]:
                        unspec[rec["name"]] = und
                    if verbose:
                        print("    steps %s on the stored %r\n      real     %s\n      expected %s"
                              % (rec["toks"], src, np.asarray(ret).tolist(), lit.tolist()))
                    if not _cmp(retm, lit, 1e-10):
                        col.violation(sig(rec, "value"),
                                      "%s: %s returned %s, but the documented steps %s applied to the stored field %s give %s"
                                      % (ctx, _describe(hist[:i + 1]), np.asarray(ret).tolist(), " -> ".join(rec["toks"]) or "(none)",
                                         mine[src].tolist(), lit.tolist()), rp(i))
                    else:
                        # 2. the same value from the base through the cancelled term, wherever every
                        #    intermediate step is defined (pre-processing inverts post-processing)
                        #    (not after a second thresholding step: a class boundary may then coincide with a
                        #    value of the first transformation up to rounding)
                        fns = [t for t in rec["res"][1:] if t.startswith("fn:")]
                        if any(t.split(":")[1] in ("binary", "discrete") for t in fns[1:]):
                            continue_term = False
                        else:
                            continue_term = True
                        term = inst.evaluate(rec["res"]) if continue_term else lit
                        fin = np.isfinite(lit)
                        if verbose:
                            print("      term %s -> %s" % (rec["res"], term.tolist()))
                        if term.shape != lit.shape or not _cmp(np.where(fin, retm, 0.0), np.where(fin, term, 0.0), 1e-8):
                            col.violation(sig(rec, "value-vs-term"),
                                          "%s: %s returned %s, the documented term %s evaluates to %s"
                                          % (ctx, _describe(hist[:i + 1]), np.asarray(ret).tolist(), " -> ".join(rec["res"]),
                                             term.tolist()), rp(i))
                        elif fin.mean() >= 0.5:
                            col.nontrivial.add(hkey(i))
                check_store(i, rec, lambda: obj.field_names, lambda n: obj[n], ret)
                if not check_untouched(i, rec):
                    break
            except Exception as e:  # noqa: BLE001
                if isinstance(e, (MemoryError, KeyboardInterrupt)):
                    raise
                col.violation(sig(rec, "exception"), "%s: %s raised %r" % (ctx, _describe(hist[:i + 1]), e), rp(i))
                break
    return steps


def _describe(hist):
    out = []
    for r in hist:
        if r["op"] == "call":
            out.append("call(post_process=%s, store=%r%s)" % (r["pp"], _stv(r["st"]), ", only_mean=True" if r["only"] else ""))
        elif r["op"] == "getmean":
            out.append("get_mean(post_process=%s)" % r["pp"])
        elif r["op"] == "vario":
            out.append("vario_estimate")
        elif r["op"] == "sibling":
            out.append("sibling object with the same normalizer spelling: normalizer %s"
                       % ("parameters assigned" if r["src"] == "set" else "fitted (fit_normalizer=True)"))
        else:
            out.append("transform(%s, field=%r, store=%r, process=%s, keep_mean=%s)"
                       % (r["method"], r["src"], _stv(r["st"]), r["process"], r["keepMean"]))
    return "; ".join(out)


_KEY = re.compile(r'([A-Za-z_]\w*) \|->')
_VAR = re.compile(r'(?m)^/\\ (\w+) = ')


def read_pipeline_dump(path):
    """TLC state dump -> list of dicts.  The Pipeline states only contain records, tuples, sets of
    strings, strings and booleans, so the text maps 1:1 onto JSON (sets become lists); anything
    unexpected falls back to the generic parser."""
    with open(path) as fh:
        text = fh.read()
    try:
        t = text.replace("{", "\x01").replace("}", "\x02").replace("[", "{").replace("]", "}")
        t = t.replace("<<", "[").replace(">>", "]").replace("\x01", "[").replace("\x02", "]")
        t = _KEY.sub(r'"\1":', t).replace("TRUE", "true").replace("FALSE", "false")
        out = []
        for block in re.split(r"(?m)^State \d+:\n", t):
            block = block.strip()
            if block:
                out.append(json.loads("{" + _VAR.sub(r', "\1": ', block)[1:] + "}"))
        return out
    except ValueError:
        return tlc.read_state_dump(path)


def _pipeline_worker(job):
    tag, kind, dump, length, phase, tier, seed, cap, part, parts = job
    states = read_pipeline_dump(dump)
    full = [s for s in states if len(s["hist"]) == length]
    rng = random.Random(zlib.crc32(tag.encode()) ^ seed)
    # canonical order: the sample must not depend on the order in which TLC wrote the states
    full.sort(key=lambda st: json.dumps([st["cfg"], st["hist"]], sort_keys=True, default=sorted))
    if cap and len(full) > cap:
        full = rng.sample(full, cap)
    full = full[part::parts]      # large dumps are shared between several workers
    col = _Collect()
    cache = {}
    steps = 0
    for s in full:
        cfg = s["cfg"]
        if cfg["norm"]:
            # the longest histories (two transformations, three kriging calls) get one flavour each
            if tier == "thorough" and not (length > 2 and (phase == "transforms" or kind == "Krige")):
                flavours = FLAVOURS
            else:
                flavours = (FLAVOURS[zlib.crc32(repr(tlaval.freeze(s["hist"])).encode()) % len(FLAVOURS)],)
        else:
            flavours = ("-",)
        for fl in flavours:
            steps += replay_history(col, kind, cfg, s["hist"], fl, phase, cache)
            col.traces += 1
        if len(cache) > 400:
            cache.clear()
    if full:
        s = full[len(full) // 2]
        col.sample({"section": "pipeline", "object": kind, "configuration": s["cfg"],
                    "history": [{"call": _describe([r]), "documented_result_term": r["res"], "status": r["status"],
                                 "stored_afterwards": sorted(r["names"])} for r in s["hist"]]}, cap=1)
    return {"tag": tag, "col": col, "steps": steps, "histories": len(full), "states": len(states), "part": part}


# ---------------------------------------------------------------------------

ASSUME_C18 = [
    "NOT covered: strict monotonicity and derivative = true derivative as analytic statements (covered: strict increase and the "
    "exact derivative of the rational pairs on the lattice; an auxiliary finite-difference comparison that never decides)",
    "normalizer values are the float images of TLC's rationals; exact pairs are compared at 1e-12, relations at 1e-9; every "
    "value of the domain table is handed over as python number, 0-d array, list, 1-d and 2-d array (same class expected)",
    "normalizer argument spellings: own instance, class (default parameters: LogNormal, Manly(1), BoxCox(1)), None, the identity "
    "class; a sibling object built with the same spelling whose normalizer is assigned / fitted (vario_estimate and Krige with "
    "fit_normalizer=True, fit()) must not change this object: its parameters are compared bit-wise and later calls with the "
    "documented term evaluated by the driver's own, never shared, normalizer",
    "YeoJohnson / Modulus with lmbda < 0 document no denormalize range although the image of normalize is bounded: such "
    "inputs are classified Open (any result accepted, counted under open_or_degenerate_cases)",
    "pipeline steps are uninterpreted in the spec; the binding uses non-commuting real instances (LogNormal, YeoJohnson(1/2), "
    "Modulus(2); mean 2 or 2 + x/2 - y/4; trend 1 or 3x + y) and composes normalize/denormalize, +-mean, +-trend in the order "
    "TLC computed; without a normalizer mean and trend commute, so their order is then unobservable",
    "raw fields (SRF, kriging, conditioned) are taken from an independent object of the same configuration called with "
    "post_process=False; the conditioning-point view relies on exact interpolation (nugget 0), compared at 1e-7",
    "after every call every stored field the call was not asked to (re)bind is compared byte-wise with the snapshot taken "
    "when it was bound (it was checked against its documented term then); caller arrays are handed over as copies",
    "log-likelihood: relations between implementation outputs (data vs its valid entries, likelihood = exp, documented "
    "constant for TLC's valid count, ML definition from the object's own normalize / derivative); fit(): which parameters are "
    "fitted / frozen is TLC's, frozen parameters keep their bits, a converged fit does not lower the log-likelihood of the start "
    "parameters, BoxCoxShift with frozen shift = BoxCox on the shifted data; that the result IS the ML optimum is not covered "
    "(fits that do not converge - the shift of BoxCoxShift is documented as hard to fit - are only counted)",
]
ASSUME_C19 = [
    "NOT covered: the distribution laws (log-normal, uniform, arcsine, U-quadratic, Zinn-Harvey marginal) - statements about "
    "distributions; 'equal' thresholds are covered for 2 classes (threshold = mean, exact) and for 3 / 4 classes through the "
    "enclosures 0.4307 < z(2/3) < 0.4308, 0.6744 < z(3/4) < 0.6745 of the normal quantiles (a mathematical assumption of the spec)",
    "discrete/binary cases live on the quarter-unit lattice and are compared exactly; every optional number of the binary wrapper "
    "is not given / given as 0 (0.0, 0, np.float64(0)) / given otherwise, the field mean is 2, a configured 0 or callable; bounds "
    "a, b, low, high include a given 0; an explicit mean of 0 is checked by shift relations of the array functions",
    "NaN input of a discrete/binary transformation is outside the statement (array_discrete leaves those positions "
    "uninitialised); such positions are masked and counted under open_or_degenerate_cases",
    "value lists of length 1 (a single class) are degenerate: an exception is recorded as a note, not a violation",
    "a callable mean (or, for the binary defaults and force_moments, no mean) cannot be handed to an array function: "
    "such calls are Open (history ends there, outcome counted under open_or_degenerate_cases)",
    "transformation wrappers are checked against gstools.transform.array_* composed by the driver in the order and with the "
    "mean argument TLC computed; the array functions themselves are pinned exactly only for discrete/binary/force_moments/boxcox",
    "after every transformation every stored field it was not asked to (re)bind is compared byte-wise with its snapshot",
    "target bounds: the images of the quantiles 0, 1/2 (not U-quadratic: infinite slope), 1, the output range and the relation "
    "to the call with both bounds explicit are checked for every combination of given / default bounds; not the law in between",
]


def _do_replay(pid, path):
    rp = json.load(open(path))["replay"]
    sec = rp.get("section")
    print("replaying section", sec)
    col = _Collect()
    if sec == "pipeline":
        print(" %s %s flavour=%s" % (rp["kind"], rp["cfg"], rp["flavour"]))
        for r in rp["hist"]:
            r["names"] = set(r["names"])
        replay_history(col, rp["kind"], rp["cfg"], rp["hist"], rp["flavour"], rp["phase"], {}, verbose=True)
    elif sec == "discrete":
        replay_discrete(col, [{"c": rp["case"]}], "quick")
    elif sec == "wrap":
        replay_wrap(col, [{"c": rp["case"]}], "quick")
    elif sec == "exact":
        replay_exact(col, [{"c": rp["case"]}], pid)
    elif sec == "force":
        replay_force(col, [{"c": rp["case"]}])
    elif sec == "fix":
        replay_fix(col, [{"c": rp["case"]}])
    elif sec == "llf":
        replay_llf(col, [{"c": rp["case"]}])
    elif sec == "fit":
        rp["case"]["skip"], rp["case"]["frozen"] = set(rp["case"]["skip"]), set(rp["case"]["frozen"])
        replay_fit(col, [{"c": rp["case"]}])
    elif sec == "bounds":
        replay_bounds(col, [{"c": rp["case"]}])
    elif sec == "range":
        print(" re-run the check; the replay object lists the values and classes:", rp)
    for k, w, _r in col.violations:
        print(" VIOLATION", k, "\n   ", w)
    if not col.violations:
        print(" no violation reproduced")
    return 0


def run(pid, tier, seed, replay=None):
    if replay:
        return _do_replay(pid, replay)
    rep = Report(pid, tier, seed)
    rep.assumptions += ASSUME_C18 if pid == "C18" else ASSUME_C19
    thorough = tier == "thorough"
    sections = ["NormExact", "Range", "Fix", "Llf", "Fit"] if pid == "C18" else \
        ["Discrete", "Wrap", "Force", "Bounds", "NormExact", "Range", "Fix"]
    t0 = time.time()
    with tlc.Scratch() as sc:
        jobs = pointwise_jobs(sc, tier, sections)
        plan = pipeline_plan(pid, tier)
        for tag, kind, kw, _length, _phase in plan:
            mod, cfg = pipeline_module("MC_PL_" + tag, kind, **kw)
            sc.write("MC_PL_%s.tla" % tag, mod)
            jobs.append((("pl", tag), sc, "MC_PL_" + tag, cfg,
                         dict(workers=1, timeout=3000, heap="3g", dump=("states", sc.path("PL_%s.dump" % tag)))))
        results = tlc.run_many(jobs, parallel=max(1, _PAR))   # many small models: one worker each
        print("TLC: %d jobs in %.1fs" % (len(jobs), time.time() - t0))
        for (what, tag), r in sorted(results.items()):
            tlc.must_pass(r, "%s %s" % (what, tag))
            spec = "Pointwise.%s" % tag if what == "pw" else "Pipeline.%s" % tag
            if what == "pw" and tag in ("NormExact", "Range", "Fix") and pid == "C19":
                spec += "(shared with C18; here only the BoxCox pairs are used)"
            rep.add_tlc(spec, r)
            if r.error:
                rep.violation("design:%s:%s" % (spec.split("(")[0], r.error[1]),
                              "the specification violates its own %s %s" % r.error, {"trace": tlc.error_trace(r)})
        # -- Pointwise replays (cheap, in-process) --
        col = _Collect()
        dumps = {s: tlc.read_state_dump(sc.path("PW_%s.dump" % s)) for s in sections}
        if pid == "C18":
            replay_exact(col, dumps["NormExact"], pid)
            replay_range(col, dumps["Range"], tier)
            replay_fix(col, dumps["Fix"])
            replay_llf(col, dumps["Llf"])
            replay_fit(col, dumps["Fit"])
            aux_finite_difference(col)
        else:
            replay_discrete(col, dumps["Discrete"], tier)
            replay_wrap(col, dumps["Wrap"], tier)
            replay_force(col, dumps["Force"])
            replay_bounds(col, dumps["Bounds"])
            replay_exact(col, dumps["NormExact"], pid)
            relation_boxcox(col, dumps["Range"], dumps["Fix"])
            relation_explicit_zero_mean(col)
        col.merge_into(rep)
        rep.extra["pointwise_cases"] = {s: len(d) for s, d in dumps.items()}
        print("Pointwise replays done at %.1fs" % (time.time() - t0))
        # -- Pipeline replays --
        import multiprocessing as mp

        work = []
        for tag, kind, _kw, length, phase in plan:
            cap = None
            if not thorough and pid == "C19":
                cap = 2500
            if not thorough and pid == "C18":
                cap = 1200 if tag.endswith("_spell") else 2500
            n = min(results[("pl", tag)].distinct, cap or 10 ** 9)
            parts = max(1, -(-n // 4000))
            for part in range(parts):
                work.append((tag, kind, sc.path("PL_%s.dump" % tag), length, phase, tier, seed, cap, part, parts))
        hist_total, steps_total = 0, 0
        with mp.get_context("fork").Pool(min(_PAR, len(work))) as pool:
            for res in pool.imap_unordered(_pipeline_worker, work):
                res["col"].merge_into(rep)
                hist_total += res["histories"]
                steps_total += res["steps"]
        rep.extra["pipeline_histories_replayed"] = hist_total
        rep.extra["pipeline_steps_executed_on_real_objects"] = steps_total
    more = rep.extra.get("further_violation_signatures_not_listed")
    if more:
        print("... and %d further violation signatures (listed in the evidence file)" % len(more))
    if pid == "C18":
        rule = ("Pipeline: every maximal call history TLC enumerates per object kind x (mean none/const/callable, normalizer "
                "on/off, trend none/const/callable) x scalar/vector x mesh type x kriging flavour (quick: a seeded sample of at "
                "most 2500 (spelling jobs: 1200) histories per TLC job, one normalizer flavour per history; thorough: all, three flavours, except one "
                "flavour for the three-call kriging histories); every step "
                "compares the real array with the documented term evaluated by the driver.  Pointwise: every case of the exact "
                "pair table and of the domain table.  distinct non-trivial = distinct (object, configuration, flavour, call "
                "prefix) whose documented value is at least half finite and was matched, plus distinct table configurations")
    else:
        rule = ("Pointwise: every value list of length 1-4 over the value pool x arithmetic / all ascending user thresholds / "
                "two-class 'equal', each evaluated on all lattice inputs on and around the thresholds; every wrapper "
                "configuration; every force_moments vector.  Pipeline: every history call -> transformation (14 method variants "
                "x field name x store x process/keep_mean) [-> second transformation] per configuration (quick: seeded sample of "
                "at most 2500 histories per TLC job).  distinct non-trivial = distinct cases with more than one class / distinct "
                "(object, configuration, flavour, call prefix) whose documented value is at least half finite and was matched")
    return rep.finish(level="model_checking", rule=rule, exhaustive=False)
