"""Path sets over a dumped TLC state graph: every edge reached by a shortest prefix."""
from collections import deque


def edge_cover(nodes, edges, inits, max_paths=None, rng=None, merge=True):
    """Return a list of paths (each a list of node ids, starting at an initial node)
    such that every edge of the graph lies on at least one path.

    With ``merge`` the paths are extended greedily through uncovered edges, so the
    set is much smaller than one path per edge and contains long histories."""
    succ = {}
    for s, d, _l in edges:
        succ.setdefault(s, []).append(d)
    for s in succ:
        succ[s] = sorted(set(succ[s]))
    parent = {}
    dq = deque()
    for i in inits:
        parent[i] = None
        dq.append(i)
    while dq:
        u = dq.popleft()
        for v in succ.get(u, ()):
            if v not in parent:
                parent[v] = u
                dq.append(v)

    def prefix(n):
        p = []
        while n is not None:
            p.append(n)
            n = parent[n]
        return p[::-1]

    uncovered = {(s, d) for s, d, _ in edges if s in parent and s != d}
    order = sorted(uncovered)
    if rng is not None:
        rng.shuffle(order)
    paths = []
    for (s, d) in order:
        if (s, d) not in uncovered:
            continue
        p = prefix(s) + [d]
        for a, b in zip(p, p[1:]):
            uncovered.discard((a, b))
        if merge:
            cur, steps = d, 0
            while steps < 40:
                nxt = [v for v in succ.get(cur, ()) if (cur, v) in uncovered]
                if not nxt:
                    break
                v = nxt[0] if rng is None else rng.choice(nxt)
                uncovered.discard((cur, v))
                p.append(v)
                cur = v
                steps += 1
        paths.append(p)
        if max_paths and len(paths) >= max_paths:
            break
    return paths, len(uncovered)
