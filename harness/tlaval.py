"""Parser for TLA+ values as printed by TLC (dumps, simulation files, PrintT).

Mapping: records/functions -> dict, sequences/tuples -> list, sets -> frozenset
(elements made hashable through ``freeze``), strings -> str, numbers -> int,
TRUE/FALSE -> bool, model values / identifiers -> ``Sym(name)`` (a str subclass).
"""
import re


class Sym(str):
    """A TLA+ model value or bare identifier."""

    def __repr__(self):
        return "Sym(%s)" % str.__repr__(self)


_TOK = re.compile(
    r"\s*(?:(?P<str>\"(?:[^\"\\]|\\.)*\")|(?P<num>-?\d+)|(?P<id>[A-Za-z_][A-Za-z0-9_!]*)"
    r"|(?P<op><<|>>|\|->|:>|@@|\.\.|[\[\]{}(),]))"
)


def _tokens(s):
    pos, out, n = 0, [], len(s)
    while pos < n:
        m = _TOK.match(s, pos)
        if not m:
            if s[pos:].strip() == "":
                break
            raise ValueError("cannot tokenise TLA+ value at %r" % s[pos : pos + 40])
        pos = m.end()
        if m.group("str") is not None:
            raw = m.group("str")[1:-1]
            out.append(("str", raw.encode().decode("unicode_escape") if "\\" in raw else raw))
        elif m.group("num") is not None:
            out.append(("num", int(m.group("num"))))
        elif m.group("id") is not None:
            out.append(("id", m.group("id")))
        else:
            out.append(("op", m.group("op")))
    return out


def freeze(v):
    if isinstance(v, dict):
        return tuple(sorted(((freeze(k), freeze(x)) for k, x in v.items()), key=repr))
    if isinstance(v, list):
        return tuple(freeze(x) for x in v)
    if isinstance(v, (set, frozenset)):
        return frozenset(freeze(x) for x in v)
    return v


class _P:
    def __init__(self, toks):
        self.t, self.i = toks, 0

    def peek(self):
        return self.t[self.i] if self.i < len(self.t) else (None, None)

    def eat(self, kind=None, val=None):
        k, v = self.peek()
        if (kind and k != kind) or (val is not None and v != val):
            raise ValueError("expected %s %s, got %s %r at token %d" % (kind, val, k, v, self.i))
        self.i += 1
        return v

    def value(self):
        v = self.atom()
        # function displayed as (a :> b @@ c :> d) is handled in atom '(';
        return v

    def atom(self):
        k, v = self.peek()
        if k == "str":
            self.i += 1
            return v
        if k == "num":
            self.i += 1
            if self.peek() == ("op", ".."):
                self.i += 1
                hi = self.eat("num")
                return frozenset(range(v, hi + 1))
            return v
        if k == "id":
            self.i += 1
            if v == "TRUE":
                return True
            if v == "FALSE":
                return False
            return Sym(v)
        if (k, v) == ("op", "<<"):
            self.i += 1
            out = []
            while self.peek() != ("op", ">>"):
                out.append(self.value())
                if self.peek() == ("op", ","):
                    self.i += 1
            self.eat("op", ">>")
            return out
        if (k, v) == ("op", "{"):
            self.i += 1
            out = []
            while self.peek() != ("op", "}"):
                out.append(self.value())
                if self.peek() == ("op", ","):
                    self.i += 1
            self.eat("op", "}")
            return frozenset(freeze(x) for x in out)
        if (k, v) == ("op", "["):
            self.i += 1
            out = {}
            while self.peek() != ("op", "]"):
                key = self.eat("id")
                self.eat("op", "|->")
                out[str(key)] = self.value()
                if self.peek() == ("op", ","):
                    self.i += 1
            self.eat("op", "]")
            return out
        if (k, v) == ("op", "("):
            self.i += 1
            out = {}
            while True:
                key = self.value()
                self.eat("op", ":>")
                out[freeze(key)] = self.value()
                if self.peek() == ("op", "@@"):
                    self.i += 1
                    continue
                break
            self.eat("op", ")")
            return out
        raise ValueError("unexpected token %s %r at %d" % (k, v, self.i))


def parse(s):
    p = _P(_tokens(s))
    v = p.value()
    if p.i != len(p.t):
        raise ValueError("trailing tokens in TLA+ value: %r" % (p.t[p.i : p.i + 5],))
    return v


def parse_state(text):
    """Parse a conjunction ``/\\ v = val`` (one variable per line group) into a dict."""
    out = {}
    parts = re.split(r"(?m)^/\\ ", text.strip())
    for part in parts:
        part = part.strip()
        if not part:
            continue
        name, _, val = part.partition(" = ")
        out[name.strip()] = parse(val)
    return out


def to_tla(v):
    """Python value -> TLA+ expression text (inverse of parse, for cfg/constant emission)."""
    if isinstance(v, bool):
        return "TRUE" if v else "FALSE"
    if isinstance(v, Sym):
        return str(v)
    if isinstance(v, int):
        return str(v)
    if isinstance(v, str):
        return '"' + v.replace("\\", "\\\\").replace('"', '\\"') + '"'
    if isinstance(v, (list, tuple)):
        return "<<" + ", ".join(to_tla(x) for x in v) + ">>"
    if isinstance(v, (set, frozenset)):
        return "{" + ", ".join(sorted(to_tla(x) for x in v)) + "}"
    if isinstance(v, dict):
        if all(isinstance(k, str) and re.match(r"^[A-Za-z_]\w*$", k) for k in v) and v:
            return "[" + ", ".join("%s |-> %s" % (k, to_tla(x)) for k, x in v.items()) + "]"
        if not v:
            return "<<>>"
        return "(" + " @@ ".join("%s :> %s" % (to_tla(k), to_tla(x)) for k, x in v.items()) + ")"
    raise TypeError("cannot render %r as TLA+" % (v,))


if __name__ == "__main__":
    s = '[name |-> "Inc", k |-> -1, s |-> {1, 2}, f |-> [a |-> TRUE], g |-> (3 :> <<1>> @@ 4 :> <<>>), m |-> A1, r |-> 1..3]'
    v = parse(s)
    assert v["k"] == -1 and v["g"][3] == [1] and v["m"] == "A1" and v["r"] == frozenset({1, 2, 3}), v
    assert parse(to_tla(v)) == v
    print("ok", v)
