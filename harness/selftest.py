"""./check selftest : vacuity and binding demonstrations for the state-machine specs.

1. every action of the ideal state machines is taken at least once in the exhaustive
   configurations (TLC -coverage 1): an action that is never enabled would make the
   properties hold vacuously;
2. the negative controls: each machine, with the defect it was written against switched
   back on, must be rejected by TLC.
(The trace-level binding demonstration - a corrupted recorded field is rejected - runs
inside ./check C14 and ./check C10 on every run and is recorded in their evidence.)
"""
import sys

from . import tlc
from .drivers import alias, condcache, generator, params


def run(tier, seed):
    ok = True
    with tlc.Scratch() as sc:
        jobs = []
        mod, cfg = params.mc_module("ST_params", "OptDim", "JBessel", False, True, "gen")
        sc.write("ST_params.tla", mod)
        jobs.append(("Params", sc, "ST_params", params.cfg_mc(cfg), dict(workers=4, coverage=True, timeout=1800)))
        mod, cfg = params.mc_module("ST_paramsP", "Plain", "Exponential", True, True, "gen")
        sc.write("ST_paramsP.tla", mod)
        jobs.append(("Params(plain,latlon+temporal)", sc, "ST_paramsP", params.cfg_mc(cfg), dict(workers=4, coverage=True, timeout=1800)))
        for kind in ("RandMeth", "Fourier"):
            mod, cfg = generator.mc_text("ST_gen" + kind, kind, 2, "mcquick")
            sc.write("ST_gen%s.tla" % kind, mod)
            jobs.append(("Generator(%s)" % kind, sc, "ST_gen" + kind, generator.cfg_mc(cfg), dict(workers=4, coverage=True, timeout=1800)))
            neg = dict(seed_compare="identity") if kind == "RandMeth" else dict(dk_refresh=False)
            mod, cfg = generator.mc_text("ST_neg" + kind, kind, 2, "mcquick", **neg)
            sc.write("ST_neg%s.tla" % kind, mod)
            jobs.append(("NEG Generator(%s)" % kind, sc, "ST_neg" + kind, generator.cfg_mc(cfg), dict(workers=2, timeout=1800)))
        for nm, clear in (("ST_cc", True), ("ST_negcc", False)):
            mod, cfg = condcache.mc_text(nm, clear, "mcquick")
            sc.write(nm + ".tla", mod)
            jobs.append((("NEG " if not clear else "") + "CondCache", sc, nm,
                         cfg + "INIT Init\nNEXT Next\nVIEW View\nINVARIANT Coherent\nINVARIANT MatrixCurrent\n",
                         dict(workers=4, coverage=clear, timeout=1800)))
        for nm, inpl in (("ST_heap", False), ("ST_negheap", True)):
            sc.write(nm + ".tla", '---- MODULE %s ----\nEXTENDS Alias\nMcNames == {"field", "f2"}\nMcKinds == {"function", "zinnharvey"}\n'
                                  'McNormalKinds == {"zinnharvey"}\n====\n' % nm)
            c = ("CONSTANTS\n Names <- McNames\n TKinds <- McKinds\n NormalKinds <- McNormalKinds\n MaxBuf = 4\n HasPipeline = TRUE\n NormalField = FALSE\n"
                 " InPlacePipeline = %s\nINIT Init\nNEXT Next\nINVARIANT EarlierResultsStable\nPROPERTY NoForeignWrite\n" % ("TRUE" if inpl else "FALSE"))
            jobs.append((("NEG " if inpl else "") + "Alias", sc, nm, c, dict(workers=4, coverage=not inpl, timeout=1800)))
        from . import fieldstore
        mod, cfg = fieldstore.mc_text("ST_fs", "mid")
        sc.write("ST_fs.tla", mod)
        jobs.append(("FieldStore", sc, "ST_fs", cfg + fieldstore.PROPS, dict(workers=4, coverage=True, timeout=1800)))
        mod, cfg = generator.mc_text("ST_negrefused", "Fourier", 2, "mcquick", refused_atomic=False)
        sc.write("ST_negrefused.tla", mod)
        jobs.append(("NEG Generator(Fourier, refused update not atomic)", sc, "ST_negrefused", generator.cfg_mc(cfg), dict(workers=2, timeout=1800)))
        res = tlc.run_many(jobs, parallel=4)
        for name, r in res.items():
            tlc.must_pass(r, name)
            if name.startswith("NEG"):
                good = r.error is not None
                print("%-40s %s (%s)" % (name, "rejected as required" if good else "NOT REJECTED", r.error))
                ok &= good
                continue
            if r.error:
                print("%-40s unexpected %s" % (name, r.error))
                ok = False
                continue
            never = sorted(a for a, (d, t) in r.coverage.items() if t == 0 and a not in ("Init",))
            print("%-40s %d states, actions taken: %s%s" % (
                name, r.distinct, ", ".join("%s=%d" % (a, t) for a, (d, t) in sorted(r.coverage.items())),
                ("; NEVER TAKEN: %s" % never) if never else ""))
            expected_idle = {"SetVarRaw", "SetIntScale", "SetOpt"} if name.startswith("Params") else (
                {"GenPeriod", "GenRefused"} if name == "Generator(RandMeth)" else set())   # actions that do not exist for that class
            if set(never) - expected_idle:
                ok = False
    print("selftest: %s" % ("ok" if ok else "FAILED"))
    return 0 if ok else 1
