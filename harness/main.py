"""CLI: ./check <id> [--tier quick|thorough] [--replay file]

A driver is any module harness/drivers/<name>.py that declares
``PROPERTIES = ("Cxx", ...)`` and ``run(pid, tier, seed, replay=None) -> exit code``.
"""
import argparse
import importlib
import os
import pkgutil
import sys
import traceback


def discover(pid):
    """Find the driver that declares `pid` in its PROPERTIES tuple (only that module is imported,
    so a problem in another driver cannot break this check)."""
    import re
    import harness.drivers as pkg

    for m in pkgutil.iter_modules(pkg.__path__):
        src = open(os.path.join(pkg.__path__[0], m.name + ".py")).read()
        mm = re.search(r"(?m)^PROPERTIES\s*=\s*\(([^)]*)\)", src)
        if mm and pid in re.findall(r"C\d+", mm.group(1)):
            return importlib.import_module("harness.drivers." + m.name)
    return None


def main():
    ap = argparse.ArgumentParser()
    ap.add_argument("pid")
    ap.add_argument("--tier", default=os.environ.get("VERIF_TIER", "quick"), choices=["quick", "thorough"])
    ap.add_argument("--replay", default=None)
    a = ap.parse_args()
    seed = int(os.environ.get("VERIF_SEED", "20240519"))
    try:
        if a.pid == "selftest":
            mod = importlib.import_module("harness.selftest")
            sys.exit(mod.run(a.tier, seed))
        mod = discover(a.pid)
        if mod is None:
            print("unknown property %s" % a.pid)
            sys.exit(2)
        rc = mod.run(a.pid, a.tier, seed, replay=a.replay)
    except SystemExit:
        raise
    except Exception:  # noqa: BLE001  machinery failure, never a VIOLATION
        traceback.print_exc()
        print("MACHINERY-FAILURE property=%s" % a.pid)
        sys.exit(2)
    sys.exit(rc)


if __name__ == "__main__":
    main()
