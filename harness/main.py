"""CLI: ./check <id> [--tier quick|thorough] [--replay file]

A driver is any module harness/drivers/<name>.py that declares
``PROPERTIES = ("Cxx", ...)`` and ``run(pid, tier, seed, replay=None) -> exit code``.
"""
import argparse
import importlib
import os
import pkgutil
import sys
import traceback


def discover():
    import harness.drivers as pkg

    table = {}
    for m in pkgutil.iter_modules(pkg.__path__):
        src = open(os.path.join(pkg.__path__[0], m.name + ".py")).read()
        if "PROPERTIES" not in src:
            continue
        mod = importlib.import_module("harness.drivers." + m.name)
        for pid in getattr(mod, "PROPERTIES", ()):
            table[pid] = mod
    return table


def main():
    ap = argparse.ArgumentParser()
    ap.add_argument("pid")
    ap.add_argument("--tier", default=os.environ.get("VERIF_TIER", "quick"), choices=["quick", "thorough"])
    ap.add_argument("--replay", default=None)
    a = ap.parse_args()
    seed = int(os.environ.get("VERIF_SEED", "20240519"))
    try:
        if a.pid == "selftest":
            mod = importlib.import_module("harness.selftest")
            sys.exit(mod.run(a.tier, seed))
        table = discover()
        if a.pid not in table:
            print("unknown property %s (have %s)" % (a.pid, sorted(table)))
            sys.exit(2)
        rc = table[a.pid].run(a.pid, a.tier, seed, replay=a.replay)
    except SystemExit:
        raise
    except Exception:  # noqa: BLE001  machinery failure, never a VIOLATION
        traceback.print_exc()
        print("MACHINERY-FAILURE property=%s" % a.pid)
        sys.exit(2)
    sys.exit(rc)


if __name__ == "__main__":
    main()
