"""CLI: ./check <id> [--tier quick|thorough] [--replay file]"""
import argparse
import importlib
import os
import sys
import traceback

DRIVERS = {
    "C14": "params",
}


def main():
    ap = argparse.ArgumentParser()
    ap.add_argument("pid")
    ap.add_argument("--tier", default=os.environ.get("VERIF_TIER", "quick"), choices=["quick", "thorough"])
    ap.add_argument("--replay", default=None)
    a = ap.parse_args()
    seed = int(os.environ.get("VERIF_SEED", "20240519"))
    if a.pid == "selftest":
        mod = importlib.import_module("harness.selftest")
        sys.exit(mod.run(a.tier, seed))
    if a.pid not in DRIVERS:
        print("unknown property %s" % a.pid)
        sys.exit(2)
    mod = importlib.import_module("harness.drivers." + DRIVERS[a.pid])
    try:
        rc = mod.run(a.pid, a.tier, seed, replay=a.replay)
    except Exception:  # noqa: BLE001  machinery failure, never a VIOLATION
        traceback.print_exc()
        print("MACHINERY-FAILURE property=%s" % a.pid)
        sys.exit(2)
    sys.exit(rc)


if __name__ == "__main__":
    main()
