"""Thin runner around TLC (tla2tools 1.8): model checking, state/graph dumps, simulation.

Every run happens in a private scratch directory (removed by the caller through
``Scratch``); nothing is written under /verif/spec.
"""
import os
import re
import shutil
import subprocess
import tempfile
import time

from . import tlaval

SPEC_DIR = os.path.join(os.path.dirname(os.path.dirname(os.path.abspath(__file__))), "spec")
JAR = "/opt/veriftools/tla/tla2tools.jar"
DEPS = "/opt/veriftools/tla/CommunityModules-deps.jar"


_COUNTER = __import__("itertools").count()


class MachineryError(RuntimeError):
    """TLC crashed / output unparsable: exit status 2, never a VIOLATION."""


class Scratch:
    """Temporary directory holding a copy of the spec modules."""

    def __init__(self, extra_files=None):
        self.dir = tempfile.mkdtemp(prefix="gsverif_")
        for root, _dirs, files in os.walk(SPEC_DIR):
            for f in files:
                if f.endswith(".tla"):
                    shutil.copy(os.path.join(root, f), os.path.join(self.dir, f))
        for name, text in (extra_files or {}).items():
            with open(os.path.join(self.dir, name), "w") as fh:
                fh.write(text)

    def write(self, name, text):
        with open(os.path.join(self.dir, name), "w") as fh:
            fh.write(text)
        return os.path.join(self.dir, name)

    def path(self, name):
        return os.path.join(self.dir, name)

    def close(self):
        shutil.rmtree(self.dir, ignore_errors=True)

    def __enter__(self):
        return self

    def __exit__(self, *a):
        self.close()


class Result:
    def __init__(self):
        self.ok = False
        self.generated = 0
        self.distinct = 0
        self.depth = 0
        self.error = None  # (kind, name)
        self.stdout = ""
        self.wall = 0.0
        self.coverage = {}  # action name -> (distinct, total)
        self.printed = []  # values printed with PrintT (parsed when possible)
        self.cmd = ""

    def __repr__(self):
        return "<TLC ok=%s gen=%d distinct=%d depth=%d err=%s %.1fs>" % (
            self.ok, self.generated, self.distinct, self.depth, self.error, self.wall)


_NUM = r"([\d,]+)"


def _int(s):
    return int(s.replace(",", ""))


def run(scratch, module, cfg_text, workers=None, timeout=3600, dump=None, simulate=None,
        coverage=False, depth_first=False, env=None, extra=(), heap="8g", check_deadlock=False):
    """Run TLC on ``module`` (a .tla in scratch) with cfg text.  Returns Result.

    dump: None | ("states", file) | ("dot", file);  simulate: dict(num=, depth=, seed=, file=)
    """
    cfgname = module + "_%d.cfg" % next(_COUNTER)
    scratch.write(cfgname, cfg_text)
    meta = tempfile.mkdtemp(prefix="meta_", dir=scratch.dir)
    jopts = ["-XX:+UseParallelGC", "-Xmx" + heap]
    if depth_first:
        jopts.append("-Dtlc2.tool.queue.IStateQueue=StateDeque")
    cmd = ["java"] + jopts + ["-cp", JAR + ":" + DEPS, "tlc2.TLC", "-metadir", meta,
                               "-noGenerateSpecTE", "-config", cfgname]
    if workers is None:
        workers = "auto" if not simulate else 1
    cmd += ["-workers", str(workers)]
    if not check_deadlock:
        cmd += ["-deadlock"]
    if dump:
        kind, fname = dump
        cmd += ["-dump"] + (["dot,actionlabels"] if kind == "dot" else []) + [fname]
    if simulate:
        spec = "num=%d" % simulate["num"]
        if simulate.get("file"):
            spec = "file=%s," % simulate["file"] + spec
        cmd += ["-simulate", spec, "-depth", str(simulate.get("depth", 20)),
                "-seed", str(simulate.get("seed", 0))]
    if coverage:
        cmd += ["-coverage", "1"]
    cmd += list(extra) + [module + ".tla"]
    e = dict(os.environ)
    e.pop("JAVA_TOOL_OPTIONS", None)
    e.update(env or {})
    t0 = time.time()
    try:
        p = subprocess.run(cmd, cwd=scratch.dir, env=e, stdout=subprocess.PIPE,
                           stderr=subprocess.STDOUT, timeout=timeout, text=True)
    except subprocess.TimeoutExpired as ex:
        subprocess.run(["pkill", "-f", meta], check=False)
        raise MachineryError("TLC timeout after %ss: %s" % (timeout, " ".join(cmd))) from ex
    r = Result()
    r.wall = time.time() - t0
    r.stdout = out = p.stdout
    r.cmd = " ".join(cmd)
    m = re.search(_NUM + r" states generated, " + _NUM + r" distinct states found", out)
    if m:
        r.generated, r.distinct = _int(m.group(1)), _int(m.group(2))
    m = re.search(r"The number of states generated: " + _NUM, out)
    if m and not r.generated:
        r.generated = _int(m.group(1))
    m = re.search(r"depth of the complete state graph search is " + _NUM, out)
    if m:
        r.depth = _int(m.group(1))
    for m in re.finditer(r"<(\w+) line \d+, col \d+ to line \d+, col \d+ of module (\w+)>: (\d+):(\d+)", out):
        r.coverage[m.group(1)] = (int(m.group(3)), int(m.group(4)))
    m = re.search(r"Error: Invariant (\S+) is violated", out)
    if m:
        r.error = ("invariant", m.group(1))
    elif re.search(r"Error: Action property (\S+)", out):
        r.error = ("action_property", re.search(r"Error: Action property (\S+)", out).group(1))
    elif "Temporal properties were violated" in out:
        r.error = ("temporal", "")
    elif "Error: Deadlock reached" in out:
        r.error = ("deadlock", "")
    elif re.search(r"Error: .*[Pp]ostcondition", out) or "POSTCONDITION" in out and "violated" in out:
        r.error = ("postcondition", "")
    elif "The first argument of Assert evaluated to FALSE" in out or "Error: Assumption" in out:
        r.error = ("assert", "")
    elif re.search(r"(?m)^Error: ", out) or p.returncode not in (0,):
        # anything else non-zero is machinery failure unless it is a recognised violation code
        mm = re.search(r"(?m)^Error: (.*)$", out)
        r.error = ("tlc_error", mm.group(1) if mm else "exit %d" % p.returncode)
    r.ok = r.error is None and ("No error has been found" in out or simulate is not None
                                or "Finished in" in out)
    return r


def must_pass(r, what):
    """Raise MachineryError for TLC failures that are not property violations."""
    if r.error and r.error[0] == "tlc_error":
        raise MachineryError("%s: TLC error: %s\n%s" % (what, r.error[1], r.stdout[-3000:]))
    if not r.ok and r.error is None:
        raise MachineryError("%s: TLC did not finish normally\n%s" % (what, r.stdout[-3000:]))
    return r


def error_trace(r):
    """Extract the counterexample states TLC printed ('State n: <action>' blocks)."""
    states = []
    for m in re.finditer(r"(?ms)^State (\d+): <([^>]*)>\n(.*?)(?=^\s*$)", r.stdout):
        try:
            st = tlaval.parse_state(m.group(3))
        except Exception:  # noqa: BLE001
            st = {"_raw": m.group(3)}
        states.append({"n": int(m.group(1)), "action": m.group(2).split(" line ")[0], "state": st})
    return states


def read_state_dump(path):
    """Parse a ``-dump`` file into a list of state dicts."""
    with open(path) as fh:
        text = fh.read()
    out = []
    for block in re.split(r"(?m)^State \d+:\n", text):
        if block.strip():
            out.append(tlaval.parse_state(block))
    return out


_NODE = re.compile(r'^(-?\d+) \[label="((?:[^"\\]|\\.)*)"')
_EDGE = re.compile(r'^(-?\d+) -> (-?\d+) \[label="((?:[^"\\]|\\.)*)"')


def read_dot(path):
    """Parse ``-dump dot,actionlabels``: (nodes: id -> state dict, edges: [(src, dst, label)], init ids)."""
    nodes, edges, inits = {}, [], []
    with open(path) as fh:
        for line in fh:
            m = _EDGE.match(line)
            if m:
                edges.append((m.group(1), m.group(2), m.group(3)))
                continue
            m = _NODE.match(line)
            if m:
                lab = m.group(2).replace("\\n", "\n").replace('\\"', '"').replace("\\\\", "\\")
                nodes[m.group(1)] = tlaval.parse_state(lab)
                if "style = filled" in line:
                    inits.append(m.group(1))
    return nodes, edges, inits


def read_sim_traces(prefix_dir, prefix):
    """Parse files written by ``-simulate file=<prefix>``: list of behaviours,
    each a list of (action label, state dict)."""
    out = []
    for fn in sorted(os.listdir(prefix_dir)):
        if not fn.startswith(prefix + "_"):
            continue
        with open(os.path.join(prefix_dir, fn)) as fh:
            text = fh.read()
        beh = []
        for m in re.finditer(r"(?ms)^\\\* <(.*?)>\nSTATE_\d+ == \n(.*?)(?=^\s*$)", text):
            beh.append((m.group(1).split(" line ")[0], tlaval.parse_state(m.group(2))))
        out.append(beh)
    return out


def sany(scratch, module):
    p = subprocess.run(["java", "-cp", JAR + ":" + DEPS, "tla2sany.SANY", module + ".tla"],
                       cwd=scratch.dir, stdout=subprocess.PIPE, stderr=subprocess.STDOUT, text=True)
    return p.returncode == 0 and "*** Errors" not in p.stdout and "Fatal" not in p.stdout, p.stdout


def run_many(jobs, parallel=6):
    """Run several TLC jobs concurrently.  jobs: list of (key, scratch, module, cfg_text, kwargs).
    Returns {key: Result}.  Exceptions (timeouts) are re-raised as MachineryError."""
    from concurrent.futures import ThreadPoolExecutor

    def one(job):
        key, sc, module, cfg, kw = job
        return key, run(sc, module, cfg, **kw)

    out = {}
    with ThreadPoolExecutor(max_workers=parallel) as ex:
        for key, r in ex.map(one, jobs):
            out[key] = r
    return out
