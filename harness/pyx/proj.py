"""The projector expression of ``summate_incompr`` in the current ``.pyx`` -> TLA+ (exact rationals).

Finds ``proj[<c>] = <expr>`` in ``summate_incompr`` and translates ``<expr>`` into the rational
operators of spec/Kernels.tla as ``McProjSrc(q, c)`` (q = wave vector in quarter-turn units,
c = 1-based component).  Scalars assigned in the loop (``k_2 = abs_square(cov_samples[:, j])``)
are inlined; a called ``cdef`` function of the shape ``r = c0; for i in range(v.shape[0]): r += f(v[i]);
return r`` becomes a sum.  Anything outside that subset raises ``NotExtractable`` (the driver then
falls back to the behavioural binding alone and says so in the evidence).
"""
import ast
from fractions import Fraction


class NotExtractable(Exception):
    pass


def _const(v):
    fr = Fraction(v)
    if abs(fr.numerator) > 10**6 or fr.denominator > 10**6:
        raise NotExtractable("constant %r is not a small rational" % (v,))
    return "<<%d, %d>>" % (fr.numerator, fr.denominator) if fr.numerator >= 0 else "<<(0 - %d), %d>>" % (-fr.numerator, fr.denominator)


class _Tr:
    def __init__(self, tree, fname="summate_incompr", samples="cov_samples"):
        self.funcs = {n.name: n for n in tree.body if isinstance(n, ast.FunctionDef)}
        if fname not in self.funcs:
            raise NotExtractable("no function %s" % fname)
        self.fd = self.funcs[fname]
        self.samples = samples
        self.assign = None
        for n in ast.walk(self.fd):
            if isinstance(n, ast.Assign) and isinstance(n.targets[0], ast.Subscript) and \
                    isinstance(n.targets[0].value, ast.Name) and n.targets[0].value.id == "proj":
                self.assign = n
        if self.assign is None:
            raise NotExtractable("no assignment proj[...] = ... in %s" % fname)
        idx = self.assign.targets[0].slice
        if not isinstance(idx, ast.Name):
            raise NotExtractable("proj index is not a plain loop variable")
        self.comp = idx.id
        # scalars assigned anywhere in the function: name -> expression (last assignment before proj)
        self.scalars = {}
        for n in ast.walk(self.fd):
            if isinstance(n, ast.Assign) and isinstance(n.targets[0], ast.Name) and n.lineno < self.assign.lineno:
                self.scalars[n.targets[0].id] = n.value
        # unit vector: e1 = np.zeros(...); e1[c] = v
        self.e1 = {}
        for n in ast.walk(self.fd):
            if isinstance(n, ast.Assign) and isinstance(n.targets[0], ast.Subscript) and \
                    isinstance(n.targets[0].value, ast.Name) and n.targets[0].value.id == "e1":
                sl = n.targets[0].slice
                if not (isinstance(sl, ast.Constant) and isinstance(n.value, ast.Constant)):
                    raise NotExtractable("e1 is not set by constants")
                self.e1[int(sl.value)] = n.value.value
        e1def = self.scalars.get("e1")
        if not (isinstance(e1def, ast.Call) and ast.unparse(e1def.func) == "np.zeros"):
            raise NotExtractable("e1 is not np.zeros(...) plus constant entries")

    def intexpr(self, node):
        """0-based integer index expression -> TLA+ integer (in terms of c)."""
        if isinstance(node, ast.Constant) and isinstance(node.value, int):
            return str(node.value)
        if isinstance(node, ast.Name) and node.id == self.comp:
            return "(c - 1)"
        if isinstance(node, ast.BinOp) and isinstance(node.op, (ast.Add, ast.Sub)):
            return "(%s %s %s)" % (self.intexpr(node.left), "+" if isinstance(node.op, ast.Add) else "-",
                                    self.intexpr(node.right))
        raise NotExtractable("index expression %s" % ast.unparse(node))

    def tr(self, node, vec=None, depth=0):
        """expression -> TLA+ rational.  vec = (param name, loop var, tla index) inside an inlined callee."""
        if depth > 6:
            raise NotExtractable("expression too deep")
        if isinstance(node, ast.Constant) and isinstance(node.value, (int, float)):
            return _const(node.value)
        if isinstance(node, ast.BinOp):
            if isinstance(node.op, ast.Pow):
                if not (isinstance(node.right, ast.Constant) and isinstance(node.right.value, int) and 1 <= node.right.value <= 4):
                    raise NotExtractable("power %s" % ast.unparse(node))
                base = self.tr(node.left, vec, depth + 1)
                out = base
                for _ in range(node.right.value - 1):
                    out = "RMul(%s, %s)" % (out, base)
                return out
            ops = {ast.Add: "RAdd", ast.Sub: "RSub", ast.Mult: "RMul", ast.Div: "RDiv"}
            if type(node.op) not in ops:
                raise NotExtractable("operator in %s" % ast.unparse(node))
            return "%s(%s, %s)" % (ops[type(node.op)], self.tr(node.left, vec, depth + 1), self.tr(node.right, vec, depth + 1))
        if isinstance(node, ast.UnaryOp) and isinstance(node.op, ast.USub):
            return "RSub(RInt(0), %s)" % self.tr(node.operand, vec, depth + 1)
        if isinstance(node, ast.Subscript) and isinstance(node.value, ast.Name):
            arr = node.value.id
            if vec and arr == vec[0]:
                if not (isinstance(node.slice, ast.Name) and node.slice.id == vec[1]):
                    raise NotExtractable("callee index %s" % ast.unparse(node))
                return "RInt(q[%s])" % vec[2]
            if arr == self.samples:
                sl = node.slice
                if not (isinstance(sl, ast.Tuple) and len(sl.elts) == 2):
                    raise NotExtractable("sample access %s" % ast.unparse(node))
                return "RInt(q[%s + 1])" % self.intexpr(sl.elts[0])
            if arr == "e1":
                i = self.intexpr(node.slice)
                cases = " [] ".join("%s = %d -> %s" % (i, c, _const(v)) for c, v in sorted(self.e1.items()))
                return "(CASE %s [] OTHER -> RInt(0))" % cases if cases else "RInt(0)"
            raise NotExtractable("array %s" % arr)
        if isinstance(node, ast.Name):
            if node.id in self.scalars and not vec:
                return self.tr(self.scalars[node.id], None, depth + 1)
            raise NotExtractable("name %s" % node.id)
        if isinstance(node, ast.Call) and isinstance(node.func, ast.Name) and node.func.id in self.funcs and not vec:
            return self.inline(node, depth)
        raise NotExtractable("expression %s" % ast.unparse(node))

    def inline(self, call, depth):
        fd = self.funcs[call.func.id]
        if len(call.args) != 1 or len(fd.args.args) != 1:
            raise NotExtractable("call %s" % ast.unparse(call))
        a = call.args[0]
        ok = isinstance(a, ast.Subscript) and isinstance(a.value, ast.Name) and a.value.id == self.samples and \
            isinstance(a.slice, ast.Tuple) and isinstance(a.slice.elts[0], ast.Slice) and a.slice.elts[0].lower is None \
            and a.slice.elts[0].upper is None
        if not ok:
            raise NotExtractable("argument %s" % ast.unparse(a))
        param = fd.args.args[0].arg
        body = [s for s in fd.body if not isinstance(s, ast.Pass)]
        if len(body) != 3 or not isinstance(body[0], ast.Assign) or not isinstance(body[1], ast.For) or \
                not isinstance(body[2], ast.Return):
            raise NotExtractable("callee %s is not a plain sum" % fd.name)
        acc = body[0].targets[0].id
        init = body[0].value
        loop = body[1]
        rng = ast.unparse(loop.iter)
        if rng != "range(%s.shape[0])" % param or len(loop.body) != 1:
            raise NotExtractable("callee loop %s" % rng)
        st = loop.body[0]
        if not (isinstance(st, ast.AugAssign) and isinstance(st.op, ast.Add) and isinstance(st.target, ast.Name)
                and st.target.id == acc and isinstance(body[2].value, ast.Name) and body[2].value.id == acc):
            raise NotExtractable("callee %s is not a plain sum" % fd.name)
        term = self.tr(st.value, (param, loop.target.id, "ii"), depth + 1)
        return "RAdd(%s, RSumSeq([ii \\in 1..Len(q) |-> %s]))" % (self.tr(init, ("", "", ""), depth + 1), term)


def extract(rw):
    """-> (TLA+ definition text of McProjSrc, source text of the projector statement)."""
    tree = ast.parse(rw.py_text)
    t = _Tr(tree)
    expr = t.tr(t.assign.value)
    return "McProjSrc(q, c) == %s\n" % expr, ast.unparse(t.assign)
