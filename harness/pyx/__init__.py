"""A plain interpretation of the restricted Cython subset used by the GSTools kernels.

* ``rewriter``  : ``.pyx`` text -> importable Python text + declaration tables
* ``ir``        : loop-nest IR of every ``prange`` region (worksharing loop, enclosing and
                  inner sequential loops, shared accesses, private / reduction scalars)
* ``emit``      : IR -> TLA+ module ``Omp_<kernel>`` (extends spec/OmpTemplate.tla)
* ``proj``      : the projector expression of ``summate_incompr`` -> exact rationals of Kernels.tla
* ``artefact``  : what the generated C says (embedded source comments, ``#pragma omp``
                  clauses) and the OpenMP scratch build
"""
