"""What the Cython-generated C next to a ``.pyx`` says, and the OpenMP scratch build of it.

* ``embedded_source``: the source lines Cython embeds as comments
  (``/* "gstools/field/summator.pyx":47 ... # <<<<< */``) -> {line number: text}
* ``staleness``: textual comparison of those lines with the current ``.pyx`` (diagnostic only)
* ``pragmas``: the ``#pragma omp parallel`` / ``#pragma omp for`` clauses per source function
* ``build_openmp``: ``gcc/g++ -O2 -fPIC -shared -fopenmp`` into a scratch directory; the module is
  loaded standalone with ``ExtensionFileLoader`` under its real dotted name.
"""
import importlib.machinery
import importlib.util
import os
import re
import subprocess
import sys
import sysconfig

from .rewriter import code_part

_BLOCK = re.compile(r'/\* "([^"\n]+\.pyx)":(\d+)\n(.*?)\n\s*\*/', re.S)
_MARK = re.compile(r"\s*# <<<<<<<<<<<<<<\s*$")


def embedded_source(ctext, pyx_basename):
    lines = {}
    for m in _BLOCK.finditer(ctext):
        if os.path.basename(m.group(1)) != pyx_basename:
            continue
        n = int(m.group(2))
        body = [re.sub(r"^ \* ?", "", ln) for ln in m.group(3).split("\n")]
        idx = [i for i, ln in enumerate(body) if _MARK.search(ln)]
        if not idx:
            continue
        for i, ln in enumerate(body):
            ln = _MARK.sub("", ln)
            lines.setdefault(n + i - idx[0], ln)
    return lines


def _norm(line):
    return re.sub(r"\s+", "", code_part(line))


def staleness(ctext, pyx_text, pyx_basename):
    """-> list of (line number, embedded text, current text) that differ textually."""
    emb = embedded_source(ctext, pyx_basename)
    cur = pyx_text.split("\n")
    out = []
    for n in sorted(emb):
        now = cur[n - 1] if 0 < n <= len(cur) else "<no such line>"
        if _norm(emb[n]) != _norm(now):
            out.append((n, emb[n].strip(), now.strip()))
    return out, len(emb)


_CLAUSE = re.compile(r"(reduction|lastprivate|firstprivate|private|shared)\(([^)]*)\)")


def pragmas(ctext, pyx_basename):
    """-> {function: {"private": set, "reduction": set, "ws": set, "nfor": n, "nparallel": n}}
    (user variables only, i.e. ``__pyx_v_*``), keyed by the function of the artefact's own source."""
    emb = embedded_source(ctext, pyx_basename)
    defs = []
    for n, ln in sorted(emb.items()):
        if re.match(r"^(def|cdef|cpdef)\b", ln):
            names = [x for x in re.findall(r"(\w+)\s*\(", ln) if x not in ("def", "cdef", "cpdef", "inline")]
            if names:
                defs.append((n, names[0]))
    out = {}
    pos = 0
    lastline = None
    marker = re.compile(r'/\* "[^"\n]*%s":(\d+)\n' % re.escape(pyx_basename))
    for m in re.finditer(r"(?m)^\s*#pragma omp (parallel|for)\b(.*)$", ctext):
        for mm in marker.finditer(ctext, pos, m.start()):
            lastline = int(mm.group(1))
        pos = m.start()
        if lastline is None:
            continue
        func = None
        for n, name in defs:
            if n <= lastline:
                func = name
        info = out.setdefault(func, {"private": set(), "reduction": set(), "ws": set(), "nfor": 0, "nparallel": 0,
                                     "line": lastline})
        info["n" + m.group(1)] += 1
        for kind, names in _CLAUSE.findall(m.group(2)):
            vs = {v.strip().replace("+:", "") for v in names.split(",")}
            vs = {v[len("__pyx_v_"):] for v in vs if v.startswith("__pyx_v_")}
            if kind == "reduction":
                info["reduction"] |= vs
            elif kind == "firstprivate" and m.group(1) == "for":
                info["ws"] |= vs
            elif kind in ("private", "lastprivate"):
                info["private"] |= vs
    for info in out.values():
        info["private"] -= info["reduction"]
    return out


def compare_classification(reg, prag):
    """IR classification vs pragma clauses -> list of mismatch descriptions (empty = agree)."""
    out = []
    if prag is None:
        return ["no #pragma omp found for %s in the generated C (source has a prange)" % reg.func]
    ir_priv = set(reg.private) | set(reg.wsvars)
    if ir_priv != prag["private"] | prag["ws"]:
        out.append("%s: private scalars: source %s, generated C %s" % (reg.func, sorted(ir_priv), sorted(prag["private"] | prag["ws"])))
    if set(reg.reduction) != prag["reduction"]:
        out.append("%s: reduction scalars: source %s, generated C %s" % (reg.func, sorted(reg.reduction), sorted(prag["reduction"])))
    if set(reg.wsvars) != prag["ws"]:
        out.append("%s: worksharing variable: source %s, generated C %s" % (reg.func, sorted(reg.wsvars), sorted(prag["ws"])))
    return out


def c_path(pyx_path):
    base = pyx_path[: -len(".pyx")]
    for ext in (".c", ".cpp"):
        if os.path.exists(base + ext):
            return base + ext
    return None


def build_cmd(cpath, out):
    import numpy as np

    cc = "g++" if cpath.endswith(".cpp") else "gcc"
    return [cc, "-O2", "-fPIC", "-shared", "-fopenmp", "-w",
            "-I" + sysconfig.get_paths()["include"], "-I" + np.get_include(),
            "-DNPY_NO_DEPRECATED_API=NPY_1_7_API_VERSION", cpath, "-o", out]


def build_openmp(cpath, outdir, modname):
    """Compile; returns (path of the .so, None) or (None, error text)."""
    out = os.path.join(outdir, modname.split(".")[-1] + "_omp" + sysconfig.get_config_var("EXT_SUFFIX"))
    try:
        p = subprocess.run(build_cmd(cpath, out), stdout=subprocess.PIPE, stderr=subprocess.STDOUT, text=True,
                           timeout=600)
    except (OSError, subprocess.TimeoutExpired) as e:
        return None, repr(e)
    if p.returncode != 0 or not os.path.exists(out):
        return None, p.stdout[-2000:]
    return out, None


def load_standalone(path, modname):
    """Load an extension module from ``path`` under ``modname`` without touching sys.modules."""
    loader = importlib.machinery.ExtensionFileLoader(modname, path)
    spec = importlib.util.spec_from_loader(modname, loader, origin=path)
    saved = sys.modules.get(modname)
    mod = importlib.util.module_from_spec(spec)
    loader.exec_module(mod)
    if saved is not None:
        sys.modules[modname] = saved
    else:
        sys.modules.pop(modname, None)
    return mod
