"""``.pyx`` -> Python for the restricted Cython subset of the GSTools kernels.

The rewrite is purely mechanical and keeps every executable statement of the source verbatim:

* ``cimport`` lines and ``from cython.parallel import ...`` become ``pass``;
* ``ctypedef`` statements are dropped;
* ``cdef <type> a, b`` declarations are dropped, ``cdef <type> a = e`` becomes ``a = e``;
* ``cdef [inline] <type> f(<typed args>) [nogil]:`` and ``def f(<typed args>):`` keep only the
  argument names (and defaults);
* ``prange`` / ``parallel`` / ``nogil`` are *not* rewritten: the execution namespace binds them to
  ``range`` / null context managers, so the same text is also what ``ir`` parses with ``ast``;
* libc math comes from ``math`` wrapped to C semantics (domain errors give NaN, not exceptions);
* typed memoryviews are numpy arrays; element reads are ``np.float64`` so that ``cdivision``
  semantics (x/0 = inf/nan, no exception) hold;
* one Cython-only f-string quirk (``{f.shape[1])}``) is normalised.

Line numbers are preserved (a rewritten multi-line statement is put on its first line), so
tracebacks and the IR refer to ``.pyx`` lines.
"""
import math
import re

import numpy as np

_IDENT = r"[A-Za-z_]\w*"


def code_part(line):
    """The line without a trailing comment (quote aware)."""
    q = None
    i = 0
    while i < len(line):
        c = line[i]
        if q:
            if c == "\\":
                i += 2
                continue
            if c == q:
                q = None
        elif c in "\"'":
            q = c
        elif c == "#":
            return line[:i]
        i += 1
    return line


def _depth_delta(code):
    d, q, i = 0, None, 0
    while i < len(code):
        c = code[i]
        if q:
            if c == "\\":
                i += 2
                continue
            if c == q:
                q = None
        elif c in "\"'":
            q = c
        elif c in "([{":
            d += 1
        elif c in ")]}":
            d -= 1
        i += 1
    return d


def split_top(text, sep=","):
    """Split at separators that are not nested in brackets / quotes."""
    out, cur, d, q = [], [], 0, None
    for c in text:
        if q:
            cur.append(c)
            if c == q:
                q = None
            continue
        if c in "\"'":
            q = c
        elif c in "([{":
            d += 1
        elif c in ")]}":
            d -= 1
        if c == sep and d == 0:
            out.append("".join(cur))
            cur = []
        else:
            cur.append(c)
    out.append("".join(cur))
    return out


def _top_find(text, ch):
    d, q = 0, None
    for i, c in enumerate(text):
        if q:
            if c == q:
                q = None
            continue
        if c in "\"'":
            q = c
        elif c in "([{":
            d += 1
        elif c in ")]}":
            d -= 1
        elif c == ch and d == 0:
            # '=' but not '==', '<=', '>=', '!='
            if ch == "=" and (text[i + 1 : i + 2] == "=" or text[i - 1 : i] in "=<>!"):
                continue
            return i
    return -1


def _matching_open(text, close_idx):
    d = 0
    for i in range(close_idx, -1, -1):
        if text[i] in ")]}":
            d += 1
        elif text[i] in "([{":
            d -= 1
            if d == 0:
                return i
    raise ValueError("unbalanced: %r" % text)


def _args(argtext, decl):
    """typed argument list -> names (+ defaults); records the C types in ``decl``."""
    out = []
    for a in split_top(argtext):
        a = a.strip()
        if not a:
            continue
        eq = _top_find(a, "=")
        left, default = (a, None) if eq < 0 else (a[:eq].strip(), a[eq + 1 :].strip())
        m = re.search(r"(%s)\s*$" % _IDENT, left)
        name = m.group(1)
        ctype = left[: m.start()].strip()
        decl[name] = ctype or "object"
        out.append(name if default is None else "%s=%s" % (name, default))
    return ", ".join(out)


class Rewritten:
    """Result of ``rewrite``: python text, per-function C declarations, function kinds."""

    def __init__(self):
        self.py_text = ""
        self.decls = {}  # function -> {name: ctype}
        self.kinds = {}  # function -> "def" | "cdef"
        self.args = {}  # function -> [argument names]
        self.rettype = {}
        self.src_lines = []


def rewrite(text):
    src = text.split("\n")
    out = []
    res = Rewritten()
    res.src_lines = src
    cur = None  # current top-level function
    in_doc = False
    i = 0
    n = len(src)
    while i < n:
        line = src[i]
        if in_doc or line.count('"""') % 2 == 1:
            # inside / entering / leaving a triple quoted string: pass through
            if line.count('"""') % 2 == 1:
                in_doc = not in_doc
            out.append(line)
            i += 1
            continue
        code = code_part(line)
        stripped = code.strip()
        indent = line[: len(line) - len(line.lstrip())]
        first = stripped.split(" ", 1)[0] if stripped else ""
        is_stmt = first in ("cdef", "ctypedef", "def", "cpdef") or re.match(r"^(from\s+\S+\s+)?cimport\b", stripped) \
            or re.match(r"^from\s+cython(\.\w+)*\s+import\b", stripped)
        if not is_stmt:
            # verbatim; only the Cython-only f-string quirk is normalised
            out.append(re.sub(r"\{([^{}()']*)\)\}", r"{\1}", line))
            i += 1
            continue
        # gather the logical statement
        parts, depth, j = [], 0, i
        while True:
            c = code_part(src[j])
            parts.append(c.strip())
            depth += _depth_delta(c)
            j += 1
            if depth <= 0 or j >= n:
                break
        stmt = " ".join(p for p in parts if p)
        nlines = j - i
        new = None
        if re.match(r"^(from\s+\S+\s+)?cimport\b", stmt) or re.match(r"^from\s+cython", stmt):
            new = "pass"
        elif first == "ctypedef":
            new = ""
        elif first in ("def", "cpdef") or (first == "cdef" and stmt.endswith(":")):
            head = stmt[:-1].rstrip() if stmt.endswith(":") else stmt
            head = re.sub(r"\s+(nogil|noexcept)\s*$", "", head)
            head = re.sub(r"\s+except\s+\S+\s*$", "", head)
            close = len(head) - 1
            if head[close] != ")":
                raise ValueError("cannot parse function head at line %d: %r" % (i + 1, stmt))
            op = _matching_open(head, close)
            m = re.search(r"(%s)\s*$" % _IDENT, head[:op])
            name = m.group(1)
            if not indent:
                cur = name
            decl = res.decls.setdefault(name, {})
            res.kinds[name] = "def" if first == "def" else "cdef"
            res.rettype[name] = re.sub(r"^(cdef|cpdef|def)\s*(inline\s+)?", "", head[: m.start()]).strip()
            arglist = _args(head[op + 1 : close], decl)
            res.args[name] = [a.split("=")[0] for a in split_top(arglist) if a.strip()]
            res.args[name] = [a.strip() for a in res.args[name]]
            new = "def %s(%s):" % (name, arglist)
        elif first == "cdef":
            body = stmt[len("cdef") :].strip()
            decl = res.decls.setdefault(cur, {}) if indent else res.decls.setdefault("<module>", {})
            eq = _top_find(body, "=")
            if eq >= 0:
                left, expr = body[:eq].strip(), body[eq + 1 :].strip()
                m = re.search(r"(%s)\s*$" % _IDENT, left)
                decl[m.group(1)] = left[: m.start()].strip()
                new = "%s = %s" % (m.group(1), expr)
            else:
                items = [x.strip() for x in split_top(body)]
                m = re.search(r"(%s)\s*$" % _IDENT, items[0])
                ctype = items[0][: m.start()].strip()
                decl[m.group(1)] = ctype
                for extra in items[1:]:
                    decl[extra] = ctype
                new = ""
        out.append((indent + new) if new else "")
        out.extend([""] * (nlines - 1))
        i = j
    res.py_text = "\n".join(out)
    return res


# ---------------------------------------------------------------------------
# execution namespace


class _Null:
    def __enter__(self):
        return self

    def __exit__(self, *a):
        return False


def _prange(*a, **_kw):
    return range(*a)


def _parallel(**_kw):
    return _Null()


def _c1(fn):
    def f(x):
        try:
            return fn(x)
        except ValueError:  # C: domain error -> NaN
            return math.nan

    f.__name__ = fn.__name__
    return f


def _cpow(x, y):
    try:
        return math.pow(x, y)
    except ValueError:
        return math.nan
    except OverflowError:
        return math.inf


def namespace():
    return {
        "OPENMP": False, "prange": _prange, "parallel": _parallel, "nogil": _Null(),
        "cos": _c1(math.cos), "sin": _c1(math.sin), "sqrt": _c1(math.sqrt), "acos": _c1(math.acos),
        "atan2": math.atan2, "fabs": math.fabs, "isnan": math.isnan, "pow": _cpow, "M_PI": math.pi,
        "np": np, "__name__": "pyx_interpreted",
    }


class Interpreted:
    """The current ``.pyx`` executed by CPython."""

    def __init__(self, path, text=None):
        self.path = path
        if text is None:
            with open(path) as fh:
                text = fh.read()
        self.text = text
        self.rw = rewrite(self.text)
        self.ns = namespace()
        exec(compile(self.rw.py_text, path, "exec"), self.ns)  # noqa: S102  (our own source tree)

    def __getattr__(self, name):
        try:
            return self.__dict__["ns"][name]
        except KeyError:
            raise AttributeError(name) from None


def call(fn, *args, **kw):
    """Call an interpreted kernel under C float semantics (no numpy warnings)."""
    with np.errstate(all="ignore"):
        return fn(*args, **kw)
