"""IR (``ir.Region``) -> TLA+ module ``Omp_<kernel>`` extending spec/OmpTemplate.tla.

The index expressions and loop bounds of the source are emitted *symbolically* (``v_i`` for loop
variables, integer literals for the extents obtained by running the function's own prelude on
tiny arrays); TLC unrolls the loops, evaluates the index expressions and explores the schedules.
"""
import ast

import numpy as np

from . import ir as irmod

ALL = irmod.ALL


class EmitError(Exception):
    pass


def model_env(interp, reg, args):
    """Run the statements before the parallel region on the model arguments -> local variables."""
    fd = reg.fdef
    body = list(reg.prelude) + [ast.Return(ast.Call(ast.Name("locals", ast.Load()), [], []))]
    f = ast.FunctionDef(name="__prelude", args=fd.args, body=body, decorator_list=[], returns=None,
                        type_comment=None, type_params=[])
    mod = ast.Module([f], [])
    ast.fix_missing_locations(mod)
    ns = dict(interp.ns)
    exec(compile(mod, "<prelude of %s>" % reg.func, "exec"), ns)  # noqa: S102
    with np.errstate(all="ignore"):
        return ns["__prelude"](**args)


class _Emitter:
    def __init__(self, reg, env):
        self.reg = reg
        self.env = env
        self.privset = reg.private | reg.reduction | reg.wsvars
        self.consts = {}

    # -- expressions ------------------------------------------------------
    def names(self, node):
        return {n.id for n in ast.walk(node) if isinstance(n, ast.Name)}

    def tr(self, node, scope):
        if not (self.names(node) & set(scope)):
            try:
                val = eval(compile(ast.fix_missing_locations(ast.Expression(node)), "<bound>", "eval"),  # noqa: S307
                           {"len": len, "np": np}, dict(self.env))
            except Exception as e:  # noqa: BLE001
                raise EmitError("cannot evaluate %s: %r" % (ast.unparse(node), e)) from e
            if int(val) != val:
                raise EmitError("non-integer extent/index %s = %r" % (ast.unparse(node), val))
            v = int(val)
            return str(v) if v >= 0 else "(0 - %d)" % (-v)
        if isinstance(node, ast.Name):
            return "v_" + node.id
        if isinstance(node, ast.BinOp) and isinstance(node.op, (ast.Add, ast.Sub, ast.Mult)):
            op = {ast.Add: "+", ast.Sub: "-", ast.Mult: "*"}[type(node.op)]
            return "(%s %s %s)" % (self.tr(node.left, scope), op, self.tr(node.right, scope))
        if isinstance(node, ast.UnaryOp) and isinstance(node.op, ast.USub):
            return "(0 - %s)" % self.tr(node.operand, scope)
        raise EmitError("index/bound expression outside the modelled subset: %s" % ast.unparse(node))

    def ident(self, line, scope):
        return "<<" + ", ".join([str(line)] + ["v_" + v for v in scope]) + ">>"

    def access(self, op, acc, line, scope, aug=False):
        """TLA+ sequence expression with the event(s) of one array access (ALL expanded)."""
        arr = acc["arr"]
        shape = np.shape(self.env[arr])
        idx, wraps = [], []
        for dim, e in enumerate(acc["idx"]):
            if e is ALL:
                v = "a%d_%d" % (len(wraps), dim)
                wraps.append((v, shape[dim]))
                idx.append(v)
            else:
                idx.append(self.tr(e, scope))
        ev = '<<Ev("%s", <<"%s", %s>>, %s, %s)>>' % (op, arr, ", ".join(idx), self.ident(line, scope),
                                                      "TRUE" if aug else "FALSE")
        for v, n in reversed(wraps):
            ev = "Flat(Loop(0, %d, LAMBDA %s: %s))" % (n, v, ev)
        return ev

    def relevant(self, arr):
        return self.reg.arrays[arr]["written"]

    # -- shared events ----------------------------------------------------
    def reads_sh(self, reads, line, scope):
        out = []
        for r in reads:
            if not self.relevant(r["arr"]):
                continue
            out.append(self.access("W" if r.get("callee_write") else "R", r, line, scope))
        return out

    def events(self, stmts, scope, mode):
        parts = []
        for s in stmts:
            if s["k"] == "stmt":
                if mode == "sh":
                    evs = self.reads_sh(s["reads"], s["line"], scope)
                    w = s["write"]
                    if w is not None:
                        if w["aug"]:
                            evs.append(self.access("R", w, s["line"], scope))
                        evs.append(self.access("W", w, s["line"], scope, aug=w["aug"]))
                    if evs:
                        parts.append("Stmt(%s)" % " \\o ".join(evs))
                else:
                    evs = ['Pv("PR", "%s")' % v for v in s["sreads"] if v in self.privset]
                    sw = s["swrite"]
                    if sw is not None:
                        if sw["aug"]:
                            evs.append('Pv("PR", "%s")' % sw["v"])
                        evs.append('Pv("PW", "%s")' % sw["v"])
                    if evs:
                        parts.append("<<%s>>" % ", ".join(evs))
            elif s["k"] == "if":
                parts += self.cond(s, scope, mode)
                for branch in (s["body"], s["orelse"]):
                    e = self.events(branch, scope, mode)
                    if e != "<<>>":
                        parts.append(e)
            elif s["k"] == "for":
                if s["par"]:
                    raise EmitError("worksharing loop inside straight-line context")
                parts += self.cond(s, scope, mode)
                sc = scope + [s["var"]]
                body = self.events(s["body"], sc, mode)
                if mode == "pv":
                    body = '<<Pv("PW", "%s")>> \\o %s' % (s["var"], body)
                if body != "<<>>":
                    parts.append("Flat(Loop(%s, %s, LAMBDA v_%s: %s))" % (
                        self.tr(s["lo"], scope), self.tr(s["hi"], scope), s["var"], body))
        return "(" + " \\o ".join(parts) + ")" if parts else "<<>>"

    def cond(self, s, scope, mode):
        if mode == "sh":
            evs = self.reads_sh(s["reads"], s["line"], scope)
            return ["Stmt(%s)" % " \\o ".join(evs)] if evs else []
        evs = ['Pv("PR", "%s")' % v for v in s["sreads"] if v in self.privset]
        return ["<<%s>>" % ", ".join(evs)] if evs else []

    # -- phases -----------------------------------------------------------
    def has_par(self, s):
        if s["k"] == "for":
            return s["par"] or any(self.has_par(x) for x in s["body"])
        if s["k"] == "if":
            return any(self.has_par(x) for x in s["body"] + s["orelse"])
        return False

    def phases(self, stmts, scope, mode):
        parts, group = [], []

        def flush():
            if group:
                e = self.events(group, scope, mode)
                if e != "<<>>":
                    parts.append("<<Phase(%s, <<>>, FALSE)>>" % e)
                del group[:]

        for s in stmts:
            if not self.has_par(s):
                group.append(s)
                continue
            flush()
            if s["k"] != "for":
                raise EmitError("worksharing loop under a condition")
            pre = self.cond(s, scope, mode)
            sc = scope + [s["var"]]
            if s["par"]:
                body = self.events(s["body"], sc, mode)
                if mode == "pv":
                    body = '<<Pv("PW", "%s")>> \\o %s' % (s["var"], body)
                parts.append("<<Phase(%s, Loop(%s, %s, LAMBDA v_%s: %s), TRUE)>>" % (
                    " \\o ".join(pre) if pre else "<<>>", self.tr(s["lo"], scope), self.tr(s["hi"], scope),
                    s["var"], body))
            else:
                if pre:
                    parts.append("<<Phase(%s, <<>>, FALSE)>>" % " \\o ".join(pre))
                body = self.phases(s["body"], sc, mode)
                if mode == "pv":
                    body = '<<Phase(<<Pv("PW", "%s")>>, <<>>, FALSE)>> \\o %s' % (s["var"], body)
                parts.append("Flat(Loop(%s, %s, LAMBDA v_%s: %s))" % (
                    self.tr(s["lo"], scope), self.tr(s["hi"], scope), s["var"], body))
        flush()
        return "(" + "\n    \\o ".join(parts) + ")" if parts else "<<>>"


def emit(reg, env, module):
    """-> (module text, cfg text, info)."""
    em = _Emitter(reg, env)
    prog = em.phases(reg.tree, [], "sh")
    priv = em.phases(reg.tree, [], "pv")
    shapes = {a: list(np.shape(env[a])) for a in reg.arrays}
    lines = [
        "---- MODULE %s ----" % module,
        "\\* generated at check time from the parallel region of `%s` (line %d of the current .pyx)" % (reg.func, reg.line),
        "\\* arrays (shape in this model): " + ", ".join(
            "%s%s%s" % (a, shapes[a], " written" if i["written"] else " read-only, not modelled")
            for a, i in sorted(reg.arrays.items())),
        "\\* private: %s   reduction: %s   worksharing variable: %s" % (
            sorted(reg.private), sorted(reg.reduction), sorted(reg.wsvars)),
        "EXTENDS OmpTemplate",
        "McProgram ==\n    " + prog,
        "McPrivProgram ==\n    " + priv,
        "McWsPriv == {%s}" % ", ".join('"%s"' % v for v in sorted(reg.wspriv)),
        "====",
    ]
    cfg = ("CONSTANTS\n T = %d\n Program <- McProgram\n PrivProgram <- McPrivProgram\n WsPriv <- McWsPriv\n"
           "INIT Init\nNEXT Next\n")
    return "\n".join(lines) + "\n", cfg, {"shapes": shapes}


INVARIANTS = ("PrivatesInitialised", "RaceFree", "OrderDeterministic", "SerialEquivalent")
