"""Loop-nest IR of the ``prange`` regions of a rewritten ``.pyx`` (see ``rewriter``).

For each function that contains a ``prange`` the extractor returns a ``Region``:

* ``form``      ``"prange"`` (``for v in prange(..., nogil=True)`` at function level: the OpenMP
                parallel region is exactly that loop) or ``"parallel"`` (``with nogil,
                parallel():`` block: everything in the block outside a ``prange`` is executed
                redundantly by every thread)
* ``tree``      the statements of the region as nested nodes
                ``for`` (var, lo, hi, par, body) / ``if`` (cond accesses, body, orelse) /
                ``stmt`` (scalar + shared reads, then at most one scalar or shared write)
* ``arrays``    every memoryview indexed or passed in the region: const?, written in the region?
* ``private`` / ``reduction`` / ``wsvar``   scalar classification by Cython's rule (assigned in
                the region -> private/lastprivate, in-place operator on a scalar -> reduction)
* ``prelude``   the function's statements before the region (executed by ``emit`` on tiny arrays
                to obtain concrete extents and shapes)

Abstraction (over-approximation of the accesses of one iteration): both branches of every
``if`` are taken and ``continue`` / ``break`` are ignored; the bodies of called ``cdef``
functions are not expanded (a memoryview passed to a callee counts as a read of the whole array,
and as a write of the whole array if the callee stores into that parameter).
"""
import ast

ALL = "ALL"


class Unsupported(Exception):
    """The region uses a construct outside the modelled subset."""


def _src(node):
    return ast.unparse(node)


def _is_mv(ctype):
    return ctype is not None and "[" in ctype


def _is_prange(node):
    return isinstance(node, ast.For) and isinstance(node.iter, ast.Call) and \
        isinstance(node.iter.func, ast.Name) and node.iter.func.id == "prange"


def _is_range(node):
    return isinstance(node, ast.For) and isinstance(node.iter, ast.Call) and \
        isinstance(node.iter.func, ast.Name) and node.iter.func.id == "range"


def _has_prange(node):
    return any(_is_prange(n) for n in ast.walk(node))


def _is_parallel_with(node):
    if not isinstance(node, ast.With):
        return False
    for it in node.items:
        e = it.context_expr
        if isinstance(e, ast.Call) and isinstance(e.func, ast.Name) and e.func.id == "parallel":
            return True
    return False


class Region:
    def __init__(self, func):
        self.func = func
        self.form = None
        self.line = None
        self.tree = []
        self.arrays = {}
        self.private = set()
        self.reduction = set()
        self.wsvars = set()
        self.wspriv = set()  # scalars assigned inside a prange body (uninitialised at iteration start)
        self.prelude = []  # ast statements
        self.fdef = None
        self.notes = []
        self.prange_kwargs = {}

    def summary(self):
        return {
            "func": self.func, "form": self.form, "line": self.line,
            "arrays": {k: dict(v) for k, v in sorted(self.arrays.items())},
            "private": sorted(self.private), "reduction": sorted(self.reduction),
            "wsvars": sorted(self.wsvars), "notes": self.notes,
        }


class _Builder:
    def __init__(self, rw, fdef, callees_writing):
        self.rw = rw
        self.decl = rw.decls.get(fdef.name, {})
        self.reg = Region(fdef.name)
        self.reg.fdef = fdef
        self.cw = callees_writing  # callee name -> set of parameter positions it stores into
        self.in_prange = 0

    # -- expression scan ------------------------------------------------
    def is_array(self, name):
        return _is_mv(self.decl.get(name))

    def note_array(self, name):
        ctype = self.decl[name]
        return self.reg.arrays.setdefault(name, {"ctype": ctype, "const": ctype.startswith("const"),
                                                 "written": False, "ndim": ctype.count(":")})

    def index_of(self, sub):
        sl = sub.slice
        elts = sl.elts if isinstance(sl, ast.Tuple) else [sl]
        out = []
        for e in elts:
            out.append(ALL if isinstance(e, ast.Slice) else e)
        return out

    def scan(self, node, reads, sreads):
        """Collect shared array reads and scalar reads of an expression (evaluation order)."""
        if node is None:
            return
        if isinstance(node, ast.Subscript) and isinstance(node.value, ast.Name) and self.is_array(node.value.id):
            idx = self.index_of(node)
            for e in idx:
                if e is not ALL:
                    self.scan(e, reads, sreads)
            self.note_array(node.value.id)
            reads.append({"arr": node.value.id, "idx": idx})
            return
        if isinstance(node, ast.Call):
            fname = node.func.id if isinstance(node.func, ast.Name) else None
            if fname is not None and fname in self.decl and not self.is_array(fname):
                sreads.append(fname)  # function pointer held in a local
            for pos, a in enumerate(node.args):
                if isinstance(a, ast.Name) and self.is_array(a.id):
                    info = self.note_array(a.id)
                    reads.append({"arr": a.id, "idx": [ALL] * info["ndim"]})
                    writes = self.cw.get(fname)
                    if (writes is None and not info["const"] and fname not in _PURE) or (writes and pos in writes):
                        info["written"] = True
                        reads.append({"arr": a.id, "idx": [ALL] * info["ndim"], "callee_write": True})
                else:
                    self.scan(a, reads, sreads)
            for kw in node.keywords:
                self.scan(kw.value, reads, sreads)
            return
        if isinstance(node, ast.Name):
            if isinstance(node.ctx, ast.Load) and node.id in self.decl and not self.is_array(node.id):
                sreads.append(node.id)
            return
        for ch in ast.iter_child_nodes(node):
            self.scan(ch, reads, sreads)

    # -- statements -----------------------------------------------------
    def stmt(self, node):
        line = node.lineno
        if isinstance(node, (ast.Continue, ast.Break, ast.Pass)):
            if not isinstance(node, ast.Pass) and "data dependent continue/break ignored (over-approximation)" not in self.reg.notes:
                self.reg.notes.append("data dependent continue/break ignored (over-approximation)")
            return []
        if isinstance(node, ast.For):
            par = _is_prange(node)
            if not (par or _is_range(node)):
                raise Unsupported("line %d: loop over %s" % (line, _src(node.iter)))
            if not isinstance(node.target, ast.Name):
                raise Unsupported("line %d: loop target" % line)
            args = node.iter.args
            if len(args) == 1:
                lo, hi = ast.Constant(0), args[0]
            elif len(args) == 2:
                lo, hi = args
            else:
                raise Unsupported("line %d: loop with a step" % line)
            reads, sreads = [], []
            self.scan(lo, reads, sreads)
            self.scan(hi, reads, sreads)
            v = node.target.id
            if par:
                if self.in_prange:
                    raise Unsupported("line %d: nested prange" % line)
                self.reg.wsvars.add(v)
                self.reg.prange_kwargs = {k.arg: _src(k.value) for k in node.iter.keywords}
                self.in_prange += 1
            self.assigned(v, aug=False)
            body = [x for s in node.body for x in self.stmt(s)]
            if par:
                self.in_prange -= 1
            if node.orelse:
                raise Unsupported("line %d: for/else" % line)
            return [{"k": "for", "var": v, "lo": lo, "hi": hi, "par": par, "body": body, "line": line,
                     "reads": reads, "sreads": sreads}]
        if isinstance(node, ast.If):
            reads, sreads = [], []
            self.scan(node.test, reads, sreads)
            body = [x for s in node.body for x in self.stmt(s)]
            orelse = [x for s in node.orelse for x in self.stmt(s)]
            if any(_has_prange(s) for s in node.body + node.orelse):
                raise Unsupported("line %d: prange under a condition" % line)
            return [{"k": "if", "reads": reads, "sreads": sreads, "body": body, "orelse": orelse, "line": line,
                     "cond": _src(node.test)}]
        if isinstance(node, ast.With):
            return [x for s in node.body for x in self.stmt(s)]
        if isinstance(node, ast.Expr):
            reads, sreads = [], []
            self.scan(node.value, reads, sreads)
            return [{"k": "stmt", "line": line, "reads": reads, "sreads": sreads, "write": None, "swrite": None,
                     "src": _src(node)}]
        if isinstance(node, (ast.Assign, ast.AugAssign)):
            aug = isinstance(node, ast.AugAssign)
            if not aug and len(node.targets) != 1:
                raise Unsupported("line %d: chained assignment" % line)
            tgt = node.target if aug else node.targets[0]
            reads, sreads = [], []
            write = swrite = None
            if isinstance(tgt, ast.Subscript) and isinstance(tgt.value, ast.Name) and self.is_array(tgt.value.id):
                idx = self.index_of(tgt)
                for e in idx:
                    if e is not ALL:
                        self.scan(e, reads, sreads)
                self.scan(node.value, reads, sreads)
                info = self.note_array(tgt.value.id)
                info["written"] = True
                write = {"arr": tgt.value.id, "idx": idx, "aug": aug}
            elif isinstance(tgt, ast.Name):
                self.scan(node.value, reads, sreads)
                if self.is_array(tgt.id):
                    raise Unsupported("line %d: memoryview rebound in a parallel region" % line)
                self.assigned(tgt.id, aug)
                swrite = {"v": tgt.id, "aug": aug}
            else:
                raise Unsupported("line %d: assignment target %s" % (line, _src(tgt)))
            return [{"k": "stmt", "line": line, "reads": reads, "sreads": sreads, "write": write, "swrite": swrite,
                     "src": _src(node)}]
        raise Unsupported("line %d: statement %s" % (line, type(node).__name__))

    def assigned(self, v, aug):
        if aug:
            self.reg.reduction.add(v)
        else:
            self.reg.private.add(v)
        if self.in_prange:
            self.reg.wspriv.add(v)


_PURE = {"cos", "sin", "sqrt", "acos", "atan2", "fabs", "isnan", "pow", "max", "min", "abs", "len"}


def _callee_writes(tree, rw):
    """For every function: the positions of memoryview parameters it (or a callee) stores into."""
    funcs = {n.name: n for n in tree.body if isinstance(n, ast.FunctionDef)}
    out = {}
    for name, fd in funcs.items():
        params = [a.arg for a in fd.args.args]
        decl = rw.decls.get(name, {})
        w = set()
        for n in ast.walk(fd):
            tgt = None
            if isinstance(n, ast.Assign):
                tgt = n.targets[0]
            elif isinstance(n, ast.AugAssign):
                tgt = n.target
            if isinstance(tgt, ast.Subscript) and isinstance(tgt.value, ast.Name) and tgt.value.id in params \
                    and _is_mv(decl.get(tgt.value.id)):
                w.add(params.index(tgt.value.id))
        out[name] = w
    # one propagation round per call depth (the kernels nest at most twice)
    for _ in range(3):
        for name, fd in funcs.items():
            params = [a.arg for a in fd.args.args]
            for n in ast.walk(fd):
                if isinstance(n, ast.Call) and isinstance(n.func, ast.Name) and n.func.id in out:
                    for pos, a in enumerate(n.args):
                        base = a.value if isinstance(a, ast.Subscript) else a
                        if isinstance(base, ast.Name) and base.id in params and pos in out[n.func.id]:
                            out[name].add(params.index(base.id))
    return out


def extract(rw):
    """-> ({function: Region}, {function: reason}) for all functions containing a ``prange``."""
    tree = ast.parse(rw.py_text)
    cw = _callee_writes(tree, rw)
    regions, failed = {}, {}
    for fd in tree.body:
        if not isinstance(fd, ast.FunctionDef) or not _has_prange(fd):
            continue
        try:
            b = _Builder(rw, fd, cw)
            reg = b.reg
            top = [i for i, s in enumerate(fd.body) if _has_prange(s)]
            if len(top) != 1:
                raise Unsupported("%d statements with a prange in one function" % len(top))
            node = fd.body[top[0]]
            reg.prelude = fd.body[: top[0]]
            reg.line = node.lineno
            if _is_prange(node):
                reg.form = "prange"
                kws = {k.arg: _src(k.value) for k in node.iter.keywords}
                if kws.get("nogil") != "True":
                    raise Unsupported("prange without nogil=True outside a parallel block")
                reg.tree = b.stmt(node)
            elif _is_parallel_with(node):
                reg.form = "parallel"
                reg.tree = [x for s in node.body for x in b.stmt(s)]
            elif isinstance(node, ast.With) and len(node.body) == 1 and _is_prange(node.body[0]):
                reg.form = "prange"  # `with nogil:` around a single prange: same region as prange(nogil=True)
                reg.prelude = fd.body[: top[0]]
                reg.tree = b.stmt(node.body[0])
            else:
                raise Unsupported("line %d: prange neither at function level nor in a parallel block" % node.lineno)
            # the scalars that are both assigned and updated in place are reductions for Cython
            reg.private -= reg.reduction
            regions[fd.name] = reg
        except Unsupported as e:
            failed[fd.name] = str(e)
    return regions, failed


def serial_kernels(rw):
    """Public ``def`` functions without any prange (no parallel region: trivially schedule independent)."""
    tree = ast.parse(rw.py_text)
    return [fd.name for fd in tree.body if isinstance(fd, ast.FunctionDef) and rw.kinds.get(fd.name) == "def"
            and not _has_prange(fd) and fd.name != "set_num_threads"]
