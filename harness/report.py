"""Verdicts, known findings, replay files and evidence for one check run."""
import json
import os
import sys
import time

ROOT = os.path.dirname(os.path.dirname(os.path.abspath(__file__)))
LEVELS = ("exploration", "fault_enumeration", "model_checking", "proof", "translation_validation", "other")


def _jsonable(o):
    import numpy as np

    if isinstance(o, dict):
        return {str(k): _jsonable(v) for k, v in o.items()}
    if isinstance(o, (list, tuple, set, frozenset)):
        return [_jsonable(v) for v in (sorted(o, key=repr) if isinstance(o, (set, frozenset)) else o)]
    if isinstance(o, np.ndarray):
        return _jsonable(o.tolist())
    if isinstance(o, (np.integer,)):
        return int(o)
    if isinstance(o, (np.floating,)):
        return float(o)
    if isinstance(o, (np.bool_,)):
        return bool(o)
    if isinstance(o, float) and (o != o or o in (float("inf"), float("-inf"))):
        return repr(o)
    if isinstance(o, (str, int, float, bool)) or o is None:
        return o
    return repr(o)


class Report:
    """Collects violations / drifts for one property and writes evidence.

    ``violation(key, what, replay)``: key is the *signature* of the failure
    (operation kind + configuration class + violated observable).  A key listed
    as ``open`` in known_findings.json is printed as KNOWN-FINDING and does not
    fail the check; every other key fails it (exit 1, VIOLATION line)."""

    def __init__(self, pid, tier, seed):
        self.pid, self.tier, self.seed = pid, tier, int(seed)
        self.t0 = time.time()
        with open(os.path.join(ROOT, "known_findings.json")) as fh:
            self.findings = [f for f in json.load(fh)["findings"] if f["property"] == pid]
        self.open_keys = {f["key"]: f for f in self.findings if f["status"] == "open"}
        self.known_hit = {}
        self.violations = []  # (key, what, replay path)
        self.drift = []
        self.notes = []
        self.states = 0
        self.transitions = 0
        self.traces = 0
        self.evaluations = 0
        self.nontrivial = set()
        self.samples = []
        self.extra = {}
        self.assumptions = []
        self.tlc_runs = []

    # -- accounting -------------------------------------------------------
    def add_tlc(self, name, r):
        self.states += r.distinct
        self.transitions += r.generated
        self.tlc_runs.append({"spec": name, "distinct_states": r.distinct, "states_generated": r.generated,
                              "depth": r.depth, "wall_s": round(r.wall, 2),
                              "result": "ok" if r.error is None else "%s %s" % r.error})

    def sample(self, obj, cap=6):
        if len(self.samples) < cap:
            self.samples.append(_jsonable(obj))

    def count(self, n=1, nontrivial_key=None):
        self.evaluations += n
        if nontrivial_key is not None:
            self.nontrivial.add(nontrivial_key)

    def note(self, msg):
        self.notes.append(msg)
        print("NOTE: " + msg)

    def drift_msg(self, msg):
        if len(self.drift) < 50:
            self.drift.append(msg)
        if len(self.drift) <= 10:
            print("DRIFT: property=%s %s" % (self.pid, msg))

    # -- verdicts ---------------------------------------------------------
    def violation(self, key, what, replay):
        if key in self.open_keys:
            if key not in self.known_hit:
                self.known_hit[key] = what
                print("KNOWN-FINDING: property=%s %s [%s]" % (self.pid, self.open_keys[key]["what"], key))
            return False
        if any(k == key for k, _w, _p in self.violations):
            return True
        os.makedirs(os.path.join(ROOT, "replays"), exist_ok=True)
        path = os.path.join(ROOT, "replays", "%s_%s_%d.json" % (self.pid, self.tier, len(self.violations)))
        with open(path, "w") as fh:
            json.dump(_jsonable({"property": self.pid, "key": key, "what": what, "replay": replay}), fh, indent=1)
        self.violations.append((key, what, path))
        print("VIOLATION property=%s replay=%s" % (self.pid, path))
        print("  key=%s: %s" % (key, what))
        return True

    # -- output -----------------------------------------------------------
    def finish(self, level="model_checking", rule="", exhaustive=False):
        assert level in LEVELS
        cov = {
            "states": int(self.states),
            "transitions": int(self.transitions),
            "traces_validated_against_impl": int(self.traces),
            "samples": self.samples or ["(no sample recorded)"],
            "evaluations": int(self.evaluations),
            "distinct_nontrivial": len(self.nontrivial),
            "rule": rule,
            "exhaustive": bool(exhaustive),
            "tlc_runs": self.tlc_runs,
            "drift": self.drift,
            "known_findings_reproduced": sorted(self.known_hit),
            "notes": self.notes,
        }
        cov.update(_jsonable(self.extra))
        ev = {
            "property_id": self.pid,
            "tier": self.tier,
            "seed": self.seed,
            "level": level,
            "coverage": cov,
            "assumptions": self.assumptions,
            "wall_s": round(time.time() - self.t0, 2),
            "violations": len(self.violations),
        }
        os.makedirs(os.path.join(ROOT, "evidence"), exist_ok=True)
        with open(os.path.join(ROOT, "evidence", self.pid + ".json"), "w") as fh:
            json.dump(ev, fh, indent=1)
        print("%s tier=%s seed=%d: states=%d transitions=%d traces=%d evaluations=%d nontrivial=%d "
              "violations=%d known=%d drift=%d wall=%.1fs" % (
                  self.pid, self.tier, self.seed, self.states, self.transitions, self.traces,
                  self.evaluations, len(self.nontrivial), len(self.violations), len(self.known_hit),
                  len(self.drift), ev["wall_s"]))
        sys.stdout.flush()
        return 1 if self.violations else 0
