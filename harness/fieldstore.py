"""FieldStore.tla / StoreConfig.tla bound to real Field / SRF objects (part of the C20 check).

TLC computes the storage machine (which call produced what is stored under which name, in which
order the names are listed, which requests are refused) and the store-configuration function;
the behaviours (edge cover of the state graph + simulation) are replayed on gstools.SRF and
gstools.field.Field objects and the projection of the real object is compared after every step.

Verdicts: a stored or earlier returned result that was altered / replaced / lost without a request that
names it is property level (C20, VIOLATION); any other disagreement with the machine (order of
names, a refusal that did or did not happen, the position in force) is DRIFT.
"""
import os
import random
import warnings

import numpy as np

from . import paths, tlaval, tlc

GOOD = ["field", "f2", "zz"]
BAD = ["pos", "1x", "mesh_type"]
KEEP = 0


def mc_text(name, size):
    good = GOOD if size != "small" else GOOD[:2]
    bad = BAD if size == "full" else BAD[:2]
    mod = ("---- MODULE %s ----\nEXTENDS FieldStore\nMcGood == {%s}\nMcBad == {%s}\nMcPos == {1, 2, 3}\n====\n"
           % (name, ", ".join('"%s"' % g for g in good), ", ".join('"%s"' % b for b in bad)))
    cfg = ("CONSTANTS\n GoodNames <- McGood\n BadNames <- McBad\n PosToks <- McPos\n MaxCalls = %d\nINIT Init\nNEXT Next\n"
           % (3 if size == "small" else 4))
    return mod, cfg


PROPS = "INVARIANT NamesMatch\nINVARIANT Provenance\nPROPERTY OthersUntouched\nPROPERTY RefusedStoresNothing\n"


def positions(tok):
    """token -> (pos, mesh_type); token 3 is the tuple of token 1 read as the axes of a structured grid"""
    a = (np.array([0.0, 1.0, 2.5, 4.0]), np.array([0.5, 1.5, 2.0, 3.5]))
    b = (np.array([0.2, 1.1, 2.7, 4.4]), np.array([0.5, 1.5, 2.0, 3.5]))
    return {1: (a, "unstructured"), 2: (b, "unstructured"), 3: (a, "structured")}[tok]


class Real:
    def __init__(self, gs, cls):
        self.gs, self.cls = gs, cls
        model = gs.Gaussian(dim=2, var=1.0, len_scale=2.0)
        self.o = gs.SRF(model, mode_no=8, seed=1) if cls == "SRF" else gs.field.Field(model)
        self.out = {}       # id -> (returned array object, bytes at the time it was returned)
        self.n = 0

    def call(self, op):
        self.n += 1
        st = op["st"]
        store = False if st == "none" else (True if (st == "field" and self.n % 2) else st)
        kw = {}
        if op["p"] != KEEP:
            pos, mesh = positions(op["p"])
            kw = dict(pos=pos, mesh_type=mesh)
        if self.cls == "SRF":
            res = self.o(seed=1000 + op["id"], store=store, **kw)
        else:
            pos, mesh = positions(op["p"]) if op["p"] != KEEP else (None, None)
            if op["p"] != KEEP:
                self.o.set_pos(pos, mesh)        # the base class needs the shape before it can take values
            shape = self.o.field_shape
            res = self.o(field=np.full(shape, float(op["id"])) + np.arange(int(np.prod(shape))).reshape(shape) * 1e-3, store=store, **kw)
        self.out[op["id"]] = (res, res.tobytes())

    def apply(self, op):
        """Executes the operation; returns (raised exception or None, answer of a read or None)."""
        o, n = self.o, op["name"]
        ans = None
        try:
            if n == "Call":
                self.call(op)
            elif n == "SetPos":
                pos, mesh = positions(op["p"])
                o.set_pos(pos, mesh)
            elif n == "Delete":
                self.n += 1
                sel = [str(x) for x in op["sel"]]
                if op["form"] == "all":
                    if self.n % 2:
                        o.delete_fields()
                    else:
                        del o.field_names
                elif len(sel) == 1:
                    [lambda: o.delete_fields(sel[0]), lambda: o.__delitem__(sel[0]), lambda: o.delete_fields(list(sel))][self.n % 3]()
                else:
                    o.delete_fields(list(sel))
            elif n == "DeleteIdx":
                del o[int(op["i"])]
            elif n == "DeleteIdxList":
                del o[[int(op["i"])]]
            elif n == "Read":
                f, sel = op["form"], [str(x) for x in op["sel"]]
                if f == "name":
                    ans = [o[sel[0]]]
                elif f == "list":
                    ans = o[list(sel)]
                elif f == "idx":
                    ans = [o[int(op["i"])]]
                else:
                    ans = o.all_fields
            elif n == "Transform":
                st = op["st"]
                store = True if st == "same" else (False if st == "none" else st)
                c = float(op["id"])
                res = o.transform("function", field=op["src"], store=store, function=lambda x: x * 0.5 + c)
                self.out[op["id"]] = (res, res.tobytes())
            else:
                raise AssertionError(n)
        except (ValueError, KeyError, IndexError) as e:
            return e, None
        return None, ans


def replay(gs, cls, beh, origin):
    """Returns (violations, drifts) of one behaviour."""
    r = Real(gs, cls)
    hist = []
    for st in beh[1:]:
        op = st["op"]
        hist.append(op)
        exempt = None
        if op["name"] == "Transform" and op["st"] == "same" and op["src"] in r.o.field_names:
            exempt = id(r.o[op["src"]])        # the array a transformation was asked to replace in place
        with warnings.catch_warnings():
            warnings.simplefilter("ignore")
            raised, ans = r.apply(op)
        tail = [tlaval.to_tla(o) for o in hist[-3:]]
        rp = {"class": cls, "ops": list(hist), "origin": origin}
        # property level: results returned earlier keep their contents
        for i, (arr, snap) in r.out.items():
            if id(arr) != exempt and arr.tobytes() != snap:
                return [("store:%s:returned-result-altered:%s" % (cls, op["name"]),
                         "%s: the array returned by call #%d was altered by %s" % (cls, i, tail), rp)], []
        names = [str(x) for x in st["names"]]
        real_names = list(r.o.field_names)
        # property level: what is stored under a name is the result of the call the machine names
        for nm in names:
            want = st["val"][nm]
            if nm not in real_names:
                return [("store:%s:stored-result-lost:%s" % (cls, op["name"]),
                         "%s: the result stored under '%s' is gone after %s" % (cls, nm, tail), rp)], []
            if want in r.out and np.asarray(r.o[nm]).tobytes() != r.out[want][1]:
                return [("store:%s:stored-result-altered:%s" % (cls, op["name"]),
                         "%s: what is stored under '%s' is not the result of call #%d after %s" % (cls, nm, want, tail), rp)], []
        if op["name"] == "Read" and raised is None and st["status"] == "Ok":
            ids = [int(x) for x in op["ans"]]
            if len(ans) != len(ids) or any(i in r.out and np.asarray(a).tobytes() != r.out[i][1] for a, i in zip(ans, ids)):
                return [("store:%s:read:%s" % (cls, op["form"]), "%s: %s does not return the stored results %s" % (cls, tail[-1], ids), rp)], []
        # everything else: disagreement with the machine
        if (raised is not None) != (st["status"] == "Refused"):
            return [], ["%s: %s %s, the storage machine says %s (after %s)" % (
                cls, tail[-1], "raised %r" % raised if raised is not None else "was accepted", st["status"], tail[:-1])]
        if real_names != names:
            return [], ["%s: field_names %s, the storage machine says %s after %s" % (cls, real_names, names, tail)]
        if len(r.o) != len(names) or any((g in r.o) != (g in names) for g in GOOD):
            return [], ["%s: len / membership disagree with field_names after %s" % (cls, tail)]
        if st["pos"] != 0:
            pos, mesh = positions(st["pos"])
            ok = r.o.mesh_type == mesh and r.o.pos is not None and all(np.array_equal(a, b) for a, b in zip(r.o.pos, pos))
            if not ok:
                return [], ["%s: position in force differs from the machine's after %s" % (cls, tail)]
    return [], []


def random_executions(gs, cls, rng, n_exec, n_ops, max_calls):
    """Random operations on a real object (no TLC involved); one logged event per public call."""
    events = []

    def ident(r, arr):
        b = np.asarray(arr).tobytes()
        hit = [i for i, (_a, snap) in r.out.items() if snap == b]
        return hit[-1] if hit else -1

    for _x in range(n_exec):
        r = Real(gs, cls)
        events.append({"name": "Init"})
        ncall, pos = 0, 0
        for _i in range(n_ops):
            k = rng.choice(["Call", "Call", "Call", "SetPos", "Delete", "DeleteIdx", "DeleteIdxList", "Read", "Read", "Transform", "Transform"])
            stored = list(r.o.field_names)
            if k in ("Call", "Transform") and ncall >= max_calls:
                continue
            if k == "Call":
                p = rng.choice([KEEP, 1, 2, 3]) if pos else rng.choice([1, 2, 3])
                op = {"name": k, "p": p, "st": rng.choice(GOOD + GOOD + ["none"] + BAD), "id": ncall + 1}
            elif k == "SetPos":
                op = {"name": k, "p": rng.choice([1, 2, 3])}
            elif k == "Delete":
                form = rng.choice(["all", "sel", "sel"])
                op = {"name": k, "form": form, "sel": [] if form == "all" else rng.choice([[a] for a in GOOD] + [[a, b] for a in GOOD for b in GOOD])}
            elif k in ("DeleteIdx", "DeleteIdxList"):
                op = {"name": k, "i": rng.choice([0, 1, 2])}
            elif k == "Read":
                form = rng.choice(["name", "list", "idx", "all"])
                sel = {"name": [rng.choice(GOOD)], "list": [rng.choice(GOOD), rng.choice(GOOD)]}.get(form, [])
                op = {"name": k, "form": form, "sel": sel, "i": rng.choice([0, 1, 2]) if form == "idx" else 0}
            else:
                op = {"name": k, "src": rng.choice(stored + GOOD), "st": rng.choice(GOOD + ["same", "same", "none"] + BAD), "id": ncall + 1}
            with warnings.catch_warnings():
                warnings.simplefilter("ignore")
                raised, ans = r.apply(op)
            if k == "Call" or (k == "Transform" and raised is None):
                ncall += 1
            ptok = 0
            if r.o.pos is not None:
                for t in (1, 2, 3):
                    pp, mesh = positions(t)
                    if r.o.mesh_type == mesh and all(np.array_equal(a, b) for a, b in zip(r.o.pos, pp)):
                        ptok = t
            pos = ptok
            ev = dict(op, raised=raised is not None, pos=ptok, names=[str(n) for n in r.o.field_names],
                      val={g: (ident(r, r.o[g]) if g in r.o.field_names else 0) for g in GOOD})
            if k == "Read":
                ev["ans"] = [ident(r, a) for a in ans] if raised is None else []
            events.append(ev)
    return events


def trace_validation(rep, sc, tier, rng, gs):
    import json

    n_exec, n_ops = (60, 25) if tier == "quick" else (600, 40)
    jobs, meta = [], {}
    for cls in ("SRF", "Field"):
        evs = random_executions(gs, cls, rng, n_exec, n_ops, 12)
        fn = sc.write("fstrace_%s.json" % cls, json.dumps(evs))
        name = "TR_fs_" + cls
        mod, cfg = mc_text(name, "full")
        sc.write(name + ".tla", mod.replace("EXTENDS FieldStore", "EXTENDS TraceFieldStore"))
        cfgt = (cfg.replace("MaxCalls = 4", "MaxCalls = 12").replace("INIT Init\nNEXT Next\n", "")
                + "SPECIFICATION TraceSpec\nINVARIANT TraceMatches\nINVARIANT NotStuck\nPOSTCONDITION TraceAccepted\nCHECK_DEADLOCK FALSE\n")
        jobs.append((cls, sc, name, cfgt, dict(workers=1, timeout=1800, env={"TRACE_FILE": fn})))
        meta[cls] = evs
    evs0 = json.loads(json.dumps(meta["SRF"]))
    k = next(i for i in range(len(evs0) // 2, len(evs0)) if evs0[i]["name"] == "Call" and not evs0[i]["raised"] and evs0[i]["st"] != "none")
    evs0[k]["val"][evs0[k]["st"]] -= 1          # another call's result under the name just stored
    fn0 = sc.write("fstrace_corrupt.json", json.dumps(evs0))
    jobs.append(("__corrupt__", sc, jobs[0][2], jobs[0][3], dict(workers=1, timeout=1800, env={"TRACE_FILE": fn0})))
    res = tlc.run_many(jobs, parallel=3)
    rc = res.pop("__corrupt__")
    tlc.must_pass(rc, "corrupted trace")
    if rc.error is None:
        raise tlc.MachineryError("binding not demonstrated: a corrupted FieldStore trace was accepted")
    n_ev = n_bad = 0
    for cls, r in sorted(res.items()):
        evs = meta[cls]
        tlc.must_pass(r, "trace " + cls)
        rep.add_tlc("TraceFieldStore[%s]" % cls, r)
        n_ev += len(evs)
        if r.error:
            n_bad += 1
            tr = tlc.error_trace(r)
            l = tr[-1]["state"].get("l", 0) if tr else 0
            idx = max(0, l - 2)
            e = evs[idx] if idx < len(evs) else {}
            stv = tr[-1]["state"] if tr else {}
            # a stored result that is not the one the machine names is property level, the rest is drift
            lost = [g for g in GOOD if stv.get("val", {}).get(g, 0) not in (0, e.get("val", {}).get(g))]
            msg = ("recorded %s execution is not explained by FieldStore.tla at event #%d %s (%s): the machine has names %s, val %s, status %s"
                   % (cls, idx, e, r.error[1], stv.get("names"), stv.get("val"), stv.get("status")))
            if lost and r.error[1] == "TraceMatches":
                rep.violation("store:%s:trace:stored-result:%s" % (cls, e.get("name")), msg, {"events": evs[max(0, idx - 8): idx + 1]})
            else:
                rep.drift_msg(msg)
    rep.traces += 2 * n_exec
    rep.extra["field_store_trace_validation"] = {
        "executions": 2 * n_exec, "events": n_ev, "rejected_batches": n_bad,
        "observable": "position token, field_names, and per stored name the number of the call whose result it holds (by content)",
        "binding_demonstration": "a recorded execution with one corrupted provenance number is rejected: %s %s" % rc.error}


def _work(job):
    cls, behs = job
    warnings.simplefilter("ignore")
    import gstools as gs

    viol, drift, n = [], [], 0
    for origin, b in behs:
        v, d = replay(gs, cls, b, origin)
        n += 1
        viol += v
        drift += d
    seen, uv = set(), []
    for v in viol:
        if v[0] not in seen:
            seen.add(v[0])
            uv.append(v)
    return cls, n, sum(len(b) - 1 for _o, b in behs), uv, drift[:3]


def pyname(nm):
    return str(nm["base"]) + (str(nm["n"]) if nm["n"] else "")


def store_config_cases(gs, dump):
    """Every spelling TLC enumerated -> real get_store_config; returns (cases, disagreements)."""
    o = gs.SRF(gs.Gaussian(dim=1))
    bad, n = [], 0

    def item(it):
        return str(it["s"]) if it["k"] == "str" else bool(it["b"])
    for st in tlc.read_state_dump(dump):
        inp, out = st["inp"], st["out"]
        store = [item(i) for i in inp["store"]] if inp["isList"] else item(inp["store"])
        defaults = [str(d) for d in inp["defaults"]]
        cnt = int(inp["cnt"])
        n += 1
        if cnt == 0:
            name, save = o.get_store_config(store, default=defaults[0])
            got = ([name], [bool(save)])
        else:
            name, save = o.get_store_config(store, default=list(defaults), fld_cnt=cnt)
            got = (list(name), [bool(s) for s in save])
        want = ([pyname(x) for x in out["name"]], [bool(x) for x in out["save"]])
        if got != want:
            bad.append("get_store_config(store=%r, default=%r, fld_cnt=%s) = %r, StoreConfig.tla says %r" % (store, defaults, cnt or None, got, want))
    return n, bad


def run_part(rep, tier, rng):
    thorough = tier == "thorough"
    with tlc.Scratch() as sc:
        os.makedirs(sc.path("sim"), exist_ok=True)
        jobs = []
        mod, cfg = mc_text("MC_fs", "full" if thorough else "mid")
        sc.write("MC_fs.tla", mod)
        jobs.append(("MC_fs", sc, "MC_fs", cfg + PROPS, dict(workers=4, timeout=1800, coverage=True)))
        mod, cfg = mc_text("G_fs", "small")
        sc.write("G_fs.tla", mod)
        jobs.append(("G_fs", sc, "G_fs", cfg, dict(workers=4, timeout=1800, dump=("dot", sc.path("G_fs.dot")))))
        mod, cfg = mc_text("S_fs", "full")
        sc.write("S_fs.tla", mod)
        jobs.append(("S_fs", sc, "S_fs", cfg.replace("MaxCalls = 4", "MaxCalls = 12"), dict(timeout=1800, simulate=dict(
            num=600 if thorough else 150, depth=40 if thorough else 25, seed=rng.randrange(1, 2**31), file=sc.path("sim/S_fs")))))
        sc.write("MC_sc.tla", '---- MODULE MC_sc ----\nEXTENDS StoreConfig\nMcStrs == {"a", "b"}\n'
                              'McDef == {<<"field">>, <<"field", "krige_var", "mean_field">>, <<"x", "y">>}\nMcCnt == {0, 1, 2, 3}\n====\n')
        jobs.append(("MC_sc", sc, "MC_sc", "CONSTANTS\n Strs <- McStrs\n DefaultSets <- McDef\n Counts <- McCnt\nINIT Init\nNEXT Next\n"
                                           "INVARIANT Shape\nINVARIANT StringsSaved\n",
                     dict(workers=2, timeout=1800, dump=("states", sc.path("sc.dump")))))
        res = tlc.run_many(jobs, parallel=4)
        for nm, r in res.items():
            tlc.must_pass(r, nm)
            rep.add_tlc("FieldStore." + nm, r)
            if r.error:
                rep.violation("design:FieldStore:%s:%s" % (nm, r.error[1]), "the storage machine violates %s" % r.error[1],
                              {"trace": tlc.error_trace(r)})
        nodes, edges, inits = tlc.read_dot(sc.path("G_fs.dot"))
        ps, _ = paths.edge_cover(nodes, edges, inits, rng=rng, merge=True)
        cap = 4000 if thorough else 900
        if len(ps) > cap:
            ps = rng.sample(ps, cap)
        behs = [("state-graph edge cover", [nodes[i] for i in p]) for p in ps]
        behs += [("simulate", [s for _a, s in b]) for b in tlc.read_sim_traces(sc.path("sim"), "S_fs")]
        import gstools as gs

        with warnings.catch_warnings():
            warnings.simplefilter("ignore")
            n_sc, bad_sc = store_config_cases(gs, sc.path("sc.dump"))
        trace_validation(rep, sc, tier, rng, gs)
    # binding demonstration: a behaviour whose expectation is corrupted (another call's result expected under a
    # stored name) must be rejected by the replay
    import copy
    demo = None
    for _o, b in behs:
        produced = set()        # numbers of the computing calls whose result was returned (not refused)
        for k, st in enumerate(b[1:], 1):
            if st["op"]["name"] in ("Call", "Transform") and st["status"] == "Ok":
                produced.add(st["op"]["id"])
            stored = [n for n in st["names"] if st["val"][n] > 1 and st["val"][n] - 1 in produced and st["op"]["name"] in ("Call", "Transform")]
            if stored:
                demo = copy.deepcopy(b[: k + 1])
                demo[k]["val"][stored[0]] = demo[k]["val"][stored[0]] - 1
                break
        if demo:
            break
    if demo is None:
        raise tlc.MachineryError("FieldStore: no behaviour stores a second result (vacuous replay)")
    with warnings.catch_warnings():
        warnings.simplefilter("ignore")
        v, _d = replay(gs, "SRF", demo, "corrupted")
    if not v:
        raise tlc.MachineryError("binding not demonstrated: a corrupted FieldStore expectation was accepted")
    rep.extra["field_store_binding"] = "a behaviour with one corrupted provenance number is rejected: %s" % v[0][0]
    rep.count(n_sc)
    for b in bad_sc[:3]:
        rep.drift_msg(b)
    import multiprocessing as mp

    work = [(cls, behs[i::6]) for cls in ("SRF", "Field") for i in range(6)]
    steps = 0
    with mp.get_context("fork").Pool(12) as pool:
        for cls, n, st, viol, drift in pool.imap_unordered(_work, work):
            rep.traces += n
            rep.count(st)
            steps += st
            for key, what, rp in viol:
                rep.violation(key, what, rp)
            for d in drift:
                rep.drift_msg(d)
    rep.extra["field_store"] = {"behaviours": len(behs) * 2, "steps_compared": steps, "store_config_spellings": n_sc,
                                "store_config_disagreements": len(bad_sc),
                                "named_deviations": ["D1 refused call has moved the position", "D2 list deletion stops at the first missing name",
                                                     "D3 del obj[[i]] refused"]}
