------------------------------ MODULE Pointwise ------------------------------
(***************************************************************************)
(* Exact point-wise semantics of GSTools (properties C18 and C19).         *)
(*                                                                         *)
(* Pattern "TLC computes, the code is replayed": every initial state is    *)
(* one case = an input configuration plus the documented result computed   *)
(* with exact integer / rational arithmetic.  There are no transitions.    *)
(* One section is selected per TLC run through the INIT predicate:         *)
(*                                                                         *)
(*   InitDiscrete   array_discrete: classes closed on the right,           *)
(*                  arithmetic / user / 'equal' (two classes) thresholds   *)
(*   InitWrap       transform.binary / transform.discrete / Field.transform*)
(*                  with the field's mean and trend, process / keep_mean   *)
(*   InitNormExact  the normalizer pairs that are rational functions       *)
(*   InitRange      the (de)normalisation domain table                     *)
(*   InitFix        reference points x0 |-> 0 of all pairs                 *)
(*   InitForce      array_force_moments                                    *)
(*   InitLlf        log-likelihood: which entries of a sample count        *)
(*   InitBounds     target bounds of uniform / arcsine / U-quadratic       *)
(*   InitFit        Normalizer.fit: which parameters are fitted / frozen   *)
(*                                                                         *)
(* Numbers: the discrete sections use integers in QUARTER units (4 = 1.0), *)
(* the normalizer sections reduced rationals <<n, d>> with d > 0; NaN is   *)
(* the token <<0, 0>>.                                                     *)
(***************************************************************************)
EXTENDS Integers, Sequences, FiniteSets, TLC

CONSTANTS
  ValPool,     \* discrete values (quarter units)
  ThrPool,     \* user thresholds (quarter units)
  Grid,        \* sequence of input values (quarter units) covering all thresholds +- 1/4
  EqGrids,     \* set of input sequences for the 'equal' mode with the sample mean
  EqMeans,     \* explicitly given means for the 'equal' mode (quarter units)
  EqSds,       \* standard deviations for 'equal' with 3 / 4 classes (quarter units)
  MaxLen,      \* longest value list
  WrapPos,     \* sequence of 1-D positions (integers) of the wrapper cases
  WrapData,    \* sequence of pre-processed data values (quarter units), one per position
  WrapMean,    \* the constant field mean (quarter units)
  WrapSqrtSill,\* sqrt(model.sill) (quarter units)
  XGrid,       \* ascending sequence of rationals: inputs of the exact normalizer pairs
  Lambdas,     \* set of rationals: parameter values of the range table
  ExactLams,   \* set of integers: parameter values of the exact pairs
  Shifts,      \* set of rationals: BoxCoxShift shifts
  RangeVals,   \* set of rationals and NaN tokens: inputs of the range table
  InputShapes, \* how an input is handed over: "scalar" | "zero_d" | "list" | "array1" | "array2"
  ForceVals,   \* integers the force-moments input vectors are made of
  ForceLens,   \* lengths of these vectors
  ForceMeans,  \* requested means (rationals)
  ForceVars,   \* requested variances (rationals)
  LlfData,     \* set of data vectors (rationals and NaN tokens) of the log-likelihood cases
  BoundMeans, BoundVarPool, BoundAs, BoundBs,  \* rationals: target-bound cases (uniform / arcsin / uquad)
  FitLams, FitShifts                           \* rationals: start values of the fit cases

VARIABLE c     \* the case

-----------------------------------------------------------------------------
(* exact rational arithmetic *)
AbsI(a) == IF a < 0 THEN -a ELSE a
RECURSIVE GCD(_, _)
GCD(a, b) == IF b = 0 THEN a ELSE GCD(b, a % b)
Rat(n, d) == LET s == IF d < 0 THEN -1 ELSE 1
                 g == GCD(AbsI(n), AbsI(d))
             IN  IF d = 0 THEN Assert(FALSE, <<"division by zero", n, d>>)
                 ELSE <<(s * n) \div g, (s * d) \div g>>
RI(k)      == <<k, 1>>
NaN        == <<0, 0>>
IsNaN(a)   == a[2] = 0
RAdd(a, b) == Rat(a[1] * b[2] + b[1] * a[2], a[2] * b[2])
RNeg(a)    == <<-a[1], a[2]>>
RSub(a, b) == RAdd(a, RNeg(b))
RMul(a, b) == Rat(a[1] * b[1], a[2] * b[2])
RInv(a)    == Rat(a[2], a[1])
RDiv(a, b) == RMul(a, RInv(b))
RLt(a, b)  == a[1] * b[2] < b[1] * a[2]
RLe(a, b)  == a[1] * b[2] <= b[1] * a[2]
RAbs(a)    == <<AbsI(a[1]), a[2]>>
RSgn(a)    == IF a[1] > 0 THEN 1 ELSE IF a[1] < 0 THEN -1 ELSE 0
RECURSIVE RPowN(_, _)
RPowN(a, k) == IF k = 0 THEN RI(1) ELSE RMul(a, RPowN(a, k - 1))
RPow(a, k)  == IF k >= 0 THEN RPowN(a, k) ELSE RInv(RPowN(a, -k))
IsSquareI(n) == n >= 0 /\ \E k \in 0..64 : k * k = n
SqrtI(n)     == CHOOSE k \in 0..64 : k * k = n
RIsSquare(a) == IsSquareI(a[1]) /\ IsSquareI(a[2])
RSqrt(a)     == <<SqrtI(a[1]), SqrtI(a[2])>>

RECURSIVE SumSeq(_)
SumSeq(s) == IF s = <<>> THEN 0 ELSE Head(s) + SumSeq(Tail(s))
RangeOf(s) == {s[i] : i \in DOMAIN s}
SeqsOf(S, n)  == [1..n -> S]
InjSeqs(S, n) == {s \in [1..n -> S] : \A i, j \in 1..n : i # j => s[i] # s[j]}
AscSeqs(S, n) == {s \in [1..n -> S] : \A i \in 1..(n - 1) : s[i] < s[i + 1]}
Sorted(s) == SortSeq(s, LAMBDA a, b : a < b)

-----------------------------------------------------------------------------
(* C19: the discrete transformation.
   Documentation of array_discrete: "the field has only len(values) discrete values";
   thresholds "arithmetic": the mean of the 2 neighbouring values (of the sorted values),
   "equal": divide the field into equal parts (quantiles of the normal law),
   or explicitly given thresholds.  Class k (1..n) is  thr[k-1] < f <= thr[k]. *)

ClassOf(f, thr) ==
  LET n == Len(thr) + 1
  IN  CHOOSE k \in 1..n : (k = 1 \/ thr[k - 1] < f) /\ (k = n \/ f <= thr[k])

Discrete(f, vals, thr) == vals[ClassOf(f, thr)]

ArithmeticThresholds(vals) ==
  LET s == Sorted(vals)
  IN  [i \in 1..(Len(s) - 1) |->
         IF (s[i] + s[i + 1]) % 2 = 0 THEN (s[i] + s[i + 1]) \div 2
         ELSE Assert(FALSE, <<"inexact midpoint", s>>)]

(* two classes of equal probability of a normal law: the median = the mean *)
EqualTwo(f, vals, meanNum, meanDen) ==
  IF f * meanDen <= meanNum THEN vals[1] ELSE vals[2]

Binary(f, divide, lower, upper) == Discrete(f, <<lower, upper>>, <<divide>>)

(* three / four classes of equal probability: thresholds  mean + sd z  with the normal quantiles
   z(1/3) = -z(2/3) = -0.430727..., z(1/4) = -z(3/4) = -0.674489..., z(1/2) = 0, enclosed in
   units of 1/10000.  An input is classified when it lies on the same side of the whole
   enclosure (always the case on the quarter lattice; asserted). *)
ZEnc(n) == CASE n = 3 -> <<<<-4308, -4307>>, <<4307, 4308>>>>
             [] n = 4 -> <<<<-6745, -6744>>, <<0, 0>>, <<6744, 6745>>>>
BelowAll(f, m, sd, enc) == (f - m) * 10000 <= sd * enc[1]     \* f <= m + sd z for every z in enc
AboveAll(f, m, sd, enc) == (f - m) * 10000 > sd * enc[2]      \* f >  m + sd z for every z in enc
EqualN(f, vals, m, sd) ==
  LET n == Len(vals)
  IN  IF \E k \in 1..(n - 1) : ~BelowAll(f, m, sd, ZEnc(n)[k]) /\ ~AboveAll(f, m, sd, ZEnc(n)[k])
      THEN Assert(FALSE, <<"input inside a quantile enclosure", f, m, sd>>)
      ELSE vals[CHOOSE k \in 1..n : (k = 1 \/ AboveAll(f, m, sd, ZEnc(n)[k - 1]))
                                    /\ (k = n \/ BelowAll(f, m, sd, ZEnc(n)[k]))]

DiscreteCases ==
  {[sec |-> "discrete", mode |-> "arithmetic", vals |-> v, thr |-> ArithmeticThresholds(v),
    grid |-> Grid,
    res |-> [i \in 1..Len(Grid) |-> Discrete(Grid[i], Sorted(v), ArithmeticThresholds(v))]]
     : v \in UNION {InjSeqs(ValPool, n) : n \in 1..MaxLen}}
  \cup
  {[sec |-> "discrete", mode |-> "user", vals |-> p[1], thr |-> p[2], grid |-> Grid,
    res |-> [i \in 1..Len(Grid) |-> Discrete(Grid[i], p[1], p[2])]]
     : p \in UNION {SeqsOf(ValPool, n) \X AscSeqs(ThrPool, n - 1) : n \in 1..MaxLen}}
  \cup
  {[sec |-> "discrete", mode |-> "equal", vals |-> p[1], thr |-> <<p[2]>>, grid |-> Grid,
    res |-> [i \in 1..Len(Grid) |-> EqualTwo(Grid[i], p[1], p[2], 1)]]
     : p \in SeqsOf(ValPool, 2) \X EqMeans}
  \cup
  {[sec |-> "discrete", mode |-> "equal_n", vals |-> p[1], thr |-> <<p[2], p[3]>>, grid |-> Grid,
    res |-> [i \in 1..Len(Grid) |-> EqualN(Grid[i], p[1], p[2], p[3])]]
     : p \in UNION {SeqsOf(ValPool, n) \X EqMeans \X EqSds : n \in {3, 4} \cap (1..MaxLen)}}
  \cup
  {[sec |-> "discrete", mode |-> "equal_sample", vals |-> p[1], thr |-> <<SumSeq(p[2]), Len(p[2])>>,
    grid |-> p[2],
    res |-> [i \in 1..Len(p[2]) |-> EqualTwo(p[2][i], p[1], SumSeq(p[2]), Len(p[2]))]]
     : p \in SeqsOf(ValPool, 2) \X EqGrids}

InitDiscrete == c \in DiscreteCases

(* design checks on every case *)
OnlyGivenValues == c.sec = "discrete" => \A i \in DOMAIN c.res : c.res[i] \in RangeOf(c.vals)
ClosedOnTheRight ==
  (c.sec = "discrete" /\ c.mode \in {"arithmetic", "user"}) =>
    LET v == IF c.mode = "arithmetic" THEN Sorted(c.vals) ELSE c.vals
    IN  \A k \in DOMAIN c.thr :
          /\ Discrete(c.thr[k], v, c.thr) = v[k]          \* on the threshold: lower class
          /\ Discrete(c.thr[k] + 1, v, c.thr) = v[ClassOf(c.thr[k] + 1, c.thr)]
          /\ ClassOf(c.thr[k] + 1, c.thr) > k             \* just above: a higher class
ClassesMonotone ==
  (c.sec = "discrete" /\ c.mode \in {"arithmetic", "user"}) =>
    \A i, j \in DOMAIN c.grid : c.grid[i] <= c.grid[j] => ClassOf(c.grid[i], c.thr) <= ClassOf(c.grid[j], c.thr)

-----------------------------------------------------------------------------
(* C19: the wrappers transform.binary / transform.discrete (Field.transform).
   A 1-D field with constant or position dependent mean and trend and NO normalizer, so that
   every step stays on the quarter-unit lattice.  Documented wrapper rules:
     process=True : the stored field is pre-processed (trend removed, mean removed unless
                    keep_mean), transformed, and post-processed again;
     the mean handed to the array function is 0 if process and not keep_mean else field.mean;
     binary defaults: divide = mean, upper/lower = mean +- sqrt(sill);
     without process, transformations that need a normal field (binary with default divide,
     'equal' thresholds) are rejected unless normalizer and trend are absent and the mean
     is a constant.                                                                      *)

TrendAt(kind, x) == CASE kind = "none" -> 0 [] kind = "const" -> 4 [] kind = "call" -> 12 * x   \* 1.0 ; 3x

(* every optional number of the binary wrapper is "default" (not given), "zero" (given as 0:
   a falsy but legitimate value) or "val" (another given value); the field mean is a non-zero
   constant, the constant 0 (configured, falsy) or position dependent *)
ArgSpecs == {"default", "zero", "val"}
WrapCfgs ==
  {cf \in [meanKind : {"const", "zero", "call"}, trendKind : {"none", "const", "call"},
           process : BOOLEAN, keepMean : BOOLEAN,
           method : {"binary", "discrete_arithmetic", "discrete_user", "discrete_equal"},
           divide : ArgSpecs \cup {"-"}, lower : ArgSpecs \cup {"-"}, upper : ArgSpecs \cup {"-"}] :
      \* a position dependent mean can only be handed over as the number 0
      /\ cf.meanKind = "call" => (cf.process /\ ~cf.keepMean)
      /\ IF cf.method = "binary" THEN "-" \notin {cf.divide, cf.lower, cf.upper}
         ELSE cf.divide = "-" /\ cf.lower = "-" /\ cf.upper = "-"}

MeanAt(kind, x)  == CASE kind = "const" -> WrapMean [] kind = "zero" -> 0 [] kind = "call" -> WrapMean + 4 * x
Pick(spec, dflt, val) == CASE spec = "default" -> dflt [] spec = "zero" -> 0 [] spec = "val" -> val

WrapCase(cf) ==
  LET n        == Len(WrapPos)
      usesMean == cf.process /\ ~cf.keepMean
      mAt(i)   == IF usesMean THEN MeanAt(cf.meanKind, WrapPos[i]) ELSE 0
      tAt(i)   == IF cf.process THEN TrendAt(cf.trendKind, WrapPos[i]) ELSE 0
      \* the stored field is chosen such that the pre-processed data are WrapData
      stored   == [i \in 1..n |-> WrapData[i] + mAt(i) + tAt(i)]
      meanArg  == IF usesMean THEN 0 ELSE MeanAt(cf.meanKind, 0)
      normal   == cf.trendKind = "none" /\ cf.meanKind \in {"const", "zero"}
      needs    == (cf.method = "binary" /\ cf.divide = "default") \/ cf.method = "discrete_equal"
      rejected == ~cf.process /\ needs /\ ~normal
      vals     == CASE cf.method = "binary" -> <<Pick(cf.lower, meanArg - WrapSqrtSill, 12),
                                                 Pick(cf.upper, meanArg + WrapSqrtSill, -4)>>
                    [] cf.method = "discrete_arithmetic" -> <<8, -4, 2>>
                    [] cf.method = "discrete_user"  -> <<8, -4, 8>>
                    [] cf.method = "discrete_equal" -> <<12, 2>>
      thr      == CASE cf.method = "binary" -> <<Pick(cf.divide, meanArg, 2)>>
                    [] cf.method = "discrete_arithmetic" -> ArithmeticThresholds(vals)
                    [] cf.method = "discrete_user"  -> <<-2, 5>>
                    [] cf.method = "discrete_equal" -> <<meanArg>>
      v        == IF cf.method = "discrete_arithmetic" THEN Sorted(vals) ELSE vals
  IN  [sec |-> "wrap", cfg |-> cf, pos |-> WrapPos, stored |-> stored, vals |-> vals, thr |-> thr,
       meanArg |-> meanArg, rejected |-> rejected,
       res |-> IF rejected THEN <<>>
               ELSE [i \in 1..n |-> Discrete(WrapData[i], v, thr) + mAt(i) + tAt(i)]]

InitWrap == c \in {WrapCase(cf) : cf \in WrapCfgs}

(* design check: with process the transformed field is the trend/mean re-applied to one of
   the given values; without process it takes only the given values *)
WrapOnlyGivenValues ==
  (c.sec = "wrap" /\ ~c.rejected) =>
     \A i \in DOMAIN c.res :
        LET off == c.res[i] - Discrete(WrapData[i], IF c.cfg.method = "discrete_arithmetic"
                                                     THEN Sorted(c.vals) ELSE c.vals, c.thr)
        IN  off = c.stored[i] - WrapData[i]

-----------------------------------------------------------------------------
(* C18: normalizer pairs that are rational functions (documentation formulas of
   normalizer/methods.py), k an integer parameter value:
      PowForm(u, k) = (u^k - 1) / k
      BoxCox       y = PowForm(x, k)                       x > 0
      BoxCoxShift  y = PowForm(x + s, k)                   x + s > 0
      YeoJohnson   y = PowForm(x + 1, k)       x >= 0, k # 0
                   y = -PowForm(|x| + 1, 2 - k) x <  0, k # 2
      Modulus      y = sgn(x) PowForm(|x| + 1, k)          k # 0
      Manly        y = x                                   k = 0                          *)

PowForm(u, k) == RDiv(RSub(RPow(u, k), RI(1)), RI(k))

NormDefined(norm, k, s, x) ==
  CASE norm = "BoxCox"      -> k # 0 /\ RLt(RI(0), x)
    [] norm = "BoxCoxShift" -> k # 0 /\ RLt(RI(0), RAdd(x, s))
    [] norm = "YeoJohnson"  -> IF RLe(RI(0), x) THEN k # 0 ELSE k # 2
    [] norm = "Modulus"     -> k # 0
    [] norm = "Manly"       -> k = 0
    [] OTHER                -> FALSE

NormExact(norm, k, s, x) ==
  CASE norm = "BoxCox"      -> PowForm(x, k)
    [] norm = "BoxCoxShift" -> PowForm(RAdd(x, s), k)
    [] norm = "YeoJohnson"  -> IF RLe(RI(0), x) THEN PowForm(RAdd(x, RI(1)), k)
                               ELSE RNeg(PowForm(RAdd(RAbs(x), RI(1)), 2 - k))
    [] norm = "Modulus"     -> RMul(RI(RSgn(x)), PowForm(RAdd(RAbs(x), RI(1)), k))
    [] norm = "Manly"       -> x

(* the inverse, evaluated independently where it is rational or an exact square root:
   u = (1 + k y)^(1/k) for k in {-1, 1, 2} *)
InvPow(y, k) ==
  LET b == RAdd(RI(1), RMul(RI(k), y))
  IN  CASE k = 1  -> b
        [] k = -1 -> RInv(b)
        [] k = 2  -> RSqrt(b)
InvPowDefined(y, k) ==
  LET b == RAdd(RI(1), RMul(RI(k), y))
  IN  CASE k = 1  -> TRUE
        [] k = -1 -> b[1] # 0
        [] k = 2  -> RIsSquare(b)
        [] OTHER  -> FALSE

DenormDefined(norm, k, s, y) ==
  CASE norm \in {"BoxCox", "BoxCoxShift"} -> InvPowDefined(y, k)
    [] norm = "YeoJohnson" -> IF RLe(RI(0), y) THEN InvPowDefined(y, k) ELSE InvPowDefined(RNeg(y), 2 - k)
    [] norm = "Modulus"    -> InvPowDefined(RAbs(y), k)
    [] norm = "Manly"      -> k = 0
    [] OTHER               -> FALSE

DenormExact(norm, k, s, y) ==
  CASE norm = "BoxCox"      -> InvPow(y, k)
    [] norm = "BoxCoxShift" -> RSub(InvPow(y, k), s)
    [] norm = "YeoJohnson"  -> IF RLe(RI(0), y) THEN RSub(InvPow(y, k), RI(1))
                               ELSE RSub(RI(1), InvPow(RNeg(y), 2 - k))
    [] norm = "Modulus"     -> RMul(RI(RSgn(y)), RSub(InvPow(RAbs(y), k), RI(1)))
    [] norm = "Manly"       -> y

(* the true derivative of the documented formulas: d/du PowForm(u, k) = u^(k-1) *)
DerivExact(norm, k, s, x) ==
  CASE norm = "BoxCox"      -> RPow(x, k - 1)
    [] norm = "BoxCoxShift" -> RPow(RAdd(x, s), k - 1)
    [] norm = "YeoJohnson"  -> IF RLe(RI(0), x) THEN RPow(RAdd(x, RI(1)), k - 1)
                               ELSE RPow(RAdd(RAbs(x), RI(1)), 1 - k)
    [] norm = "Modulus"     -> RPow(RAdd(RAbs(x), RI(1)), k - 1)
    [] norm = "Manly"       -> RI(1)

ExactCfgs ==
  {<<n, k, RI(0)>> : n \in {"BoxCox", "YeoJohnson", "Modulus", "Manly"}, k \in ExactLams}
  \cup {<<"BoxCoxShift", k, s>> : k \in ExactLams, s \in Shifts}

ExactCase(cf) ==
  LET Def(x) == NormDefined(cf[1], cf[2], cf[3], x)
      xs     == SelectSeq(XGrid, Def)
  IN  [sec |-> "exact", norm |-> cf[1], lam |-> cf[2], shift |-> cf[3], xs |-> xs,
       ys |-> [i \in 1..Len(xs) |-> NormExact(cf[1], cf[2], cf[3], xs[i])],
       dys |-> [i \in 1..Len(xs) |-> DerivExact(cf[1], cf[2], cf[3], xs[i])]]

InitNormExact ==
  c \in {ExactCase(cf) : cf \in {g \in ExactCfgs : \E i \in DOMAIN XGrid : NormDefined(g[1], g[2], g[3], XGrid[i])}}

(* design checks: the documented pairs are strictly increasing on the lattice and mutually
   inverse wherever the inverse can be evaluated exactly *)
ExactStrictlyIncreasing ==
  c.sec = "exact" => \A i \in 1..(Len(c.ys) - 1) : RLt(c.ys[i], c.ys[i + 1])
ExactDerivativePositive ==
  c.sec = "exact" => \A i \in DOMAIN c.dys : RLt(RI(0), c.dys[i])
ExactRoundTrip ==
  c.sec = "exact" =>
     \A i \in DOMAIN c.ys :
        DenormDefined(c.norm, c.lam, c.shift, c.ys[i]) =>
           DenormExact(c.norm, c.lam, c.shift, c.ys[i]) = c.xs[i]

-----------------------------------------------------------------------------
(* C18: the domain table.  An end is [inf |-> TRUE] or a rational; ranges are OPEN.
   normalize_range:   LogNormal, BoxCox (0, inf); BoxCoxShift (-shift, inf); others all reals
   denormalize_range: BoxCox, BoxCoxShift, Manly: all reals for lmbda = 0,
                      (-inf, -1/lmbda) for lmbda < 0, (-1/lmbda, inf) for lmbda > 0
                      (docstrings of the denormalize_range properties); others all reals.
   YeoJohnson and Modulus document no denormalize range although the image of normalize is
   bounded for lmbda < 0 (y < -1/lmbda resp. |y| < -1/lmbda): such inputs are "Open"
   (documentation and formula disagree; any result is accepted).                         *)

Inf == [inf |-> TRUE, v |-> RI(0)]
Fin(q) == [inf |-> FALSE, v |-> q]
MinusInvLam(lam) == RNeg(RInv(lam))

NormRange(norm, s) ==
  CASE norm \in {"LogNormal", "BoxCox"} -> <<Fin(RI(0)), Inf>>
    [] norm = "BoxCoxShift"             -> <<Fin(RNeg(s)), Inf>>
    [] OTHER                            -> <<Inf, Inf>>

DenormRange(norm, lam) ==
  IF norm \in {"BoxCox", "BoxCoxShift", "Manly"} /\ lam[1] # 0
  THEN IF lam[1] < 0 THEN <<Inf, Fin(MinusInvLam(lam))>> ELSE <<Fin(MinusInvLam(lam)), Inf>>
  ELSE <<Inf, Inf>>

InOpen(v, r) == (r[1].inf \/ RLt(r[1].v, v)) /\ (r[2].inf \/ RLt(v, r[2].v))

OutsideImage(norm, lam, y) ==
  CASE norm = "YeoJohnson" -> lam[1] < 0 /\ RLe(MinusInvLam(lam), y)
    [] norm = "Modulus"    -> lam[1] < 0 /\ RLe(MinusInvLam(lam), RAbs(y))
    [] OTHER               -> FALSE

Classify(norm, lam, s, dir, v) ==
  IF IsNaN(v) THEN "NaN"
  ELSE IF dir \in {"normalize", "derivative"}      \* the derivative lives on the input range
       THEN IF InOpen(v, NormRange(norm, s)) THEN "Valid" ELSE "OutOfRange"
       ELSE IF ~InOpen(v, DenormRange(norm, lam)) THEN "OutOfRange"
            ELSE IF OutsideImage(norm, lam, v) THEN "Open" ELSE "Valid"

RangeCfgs ==
  {<<"LogNormal", RI(1), RI(0)>>}
  \cup {<<n, l, RI(0)>> : n \in {"BoxCox", "YeoJohnson", "Modulus", "Manly"}, l \in Lambdas}
  \cup {<<"BoxCoxShift", l, s>> : l \in Lambdas, s \in Shifts}

(* The class of a value does not depend on how it is handed over: as a python number, a 0-d
   array, inside a list, a 1-d or a 2-d array (array_like input, element-wise semantics). *)
InitRange ==
  c \in {[sec |-> "range", norm |-> cf[1], lam |-> cf[2], shift |-> cf[3], dir |-> d, v |-> v,
          shape |-> sh, cls |-> Classify(cf[1], cf[2], cf[3], d, v)]
           : cf \in RangeCfgs, d \in {"normalize", "denormalize", "derivative"}, v \in RangeVals,
             sh \in InputShapes}

(* design check tying the two tables together: the exact image of a valid input is a valid
   input of the inverse direction (so the round trip is defined on the whole valid range) *)
IntLam(lam) == lam[2] = 1
ImageIsValid ==
  (c.sec = "range" /\ c.dir = "normalize" /\ c.cls = "Valid" /\ IntLam(c.lam)
     /\ NormDefined(c.norm, c.lam[1], c.shift, c.v)) =>
        Classify(c.norm, c.lam, c.shift, "denormalize", NormExact(c.norm, c.lam[1], c.shift, c.v)) = "Valid"

(* reference points: every pair, also the transcendental ones (log / exp), maps its reference
   point to 0 exactly:  log 1 = 0,  (1^lmbda - 1)/lmbda = 0,  (exp(0) - 1)/lmbda = 0 *)
RefPoint(norm, s) ==
  CASE norm \in {"LogNormal", "BoxCox"} -> RI(1)
    [] norm = "BoxCoxShift"             -> RSub(RI(1), s)
    [] OTHER                            -> RI(0)

InitFix ==
  c \in {[sec |-> "fix", norm |-> cf[1], lam |-> cf[2], shift |-> cf[3],
          x |-> RefPoint(cf[1], cf[3]), y |-> RI(0)] : cf \in RangeCfgs}

FixInsideRanges ==
  c.sec = "fix" => /\ Classify(c.norm, c.lam, c.shift, "normalize", c.x) = "Valid"
                   /\ Classify(c.norm, c.lam, c.shift, "denormalize", c.y) = "Valid"

-----------------------------------------------------------------------------
(* C19: array_force_moments: out = sqrt(var / var_in) (f - mean_in) + mean, so the SAMPLE mean
   and variance of the result are exactly the requested ones.  n^2 var_in = n sum f^2 - (sum f)^2.
   Where var / var_in is the square of a rational the result itself is computed exactly.   *)
SumSq(s) == SumSeq([i \in DOMAIN s |-> s[i] * s[i]])
ForceCase(f, m, v) ==
  LET n   == Len(f)
      vin == Rat(n * SumSq(f) - SumSeq(f) * SumSeq(f), n * n)
      q   == RDiv(v, vin)
      min == Rat(SumSeq(f), n)
  IN  [sec |-> "force", f |-> f, mean |-> m, var |-> v, varIn |-> vin,
       out |-> IF RIsSquare(q)
               THEN [i \in 1..n |-> RAdd(RMul(RSqrt(q), RSub(RI(f[i]), min)), m)]
               ELSE <<>>]

InitForce ==
  c \in {ForceCase(f, m, v) :
           f \in {g \in UNION {SeqsOf(ForceVals, n) : n \in ForceLens} : Cardinality(RangeOf(g)) > 1},
           m \in ForceMeans, v \in ForceVars}

(* design check: where the result is exact its sample moments are the requested ones *)
ForceMomentsExact ==
  (c.sec = "force" /\ c.out # <<>>) =>
     LET n  == Len(c.out)
         RECSUM[i \in 0..n] == IF i = 0 THEN RI(0) ELSE RAdd(RECSUM[i - 1], c.out[i])
         mu == RDiv(RECSUM[n], RI(n))
         SQ[i \in 0..n] == IF i = 0 THEN RI(0)
                           ELSE RAdd(SQ[i - 1], RMul(RSub(c.out[i], mu), RSub(c.out[i], mu)))
     IN  mu = c.mean /\ RDiv(SQ[n], RI(n)) = c.var

-----------------------------------------------------------------------------
(* C18: the log-likelihood is the maximum-likelihood value of the VALID entries of a sample:
   NaN and out-of-range entries are "treated as NaN", i.e. they do not count:
     loglikelihood = -n/2 (log(2 pi) + 1) - n/2 log(var(y)) + sum(log(dy/dx)),  n = number of
   valid entries, y their normalised values.  TLC determines which entries count. *)
LlfCase(cf, d) ==
  LET cls   == [i \in 1..Len(d) |-> Classify(cf[1], cf[2], cf[3], "normalize", d[i])]
      IsV(i) == cls[i] = "Valid"
      idx   == SelectSeq([i \in 1..Len(d) |-> i], IsV)
      valid == [j \in 1..Len(idx) |-> d[idx[j]]]
  IN  [sec |-> "llf", norm |-> cf[1], lam |-> cf[2], shift |-> cf[3], data |-> d, cls |-> cls,
       valid |-> valid, nValid |-> Len(valid)]

InitLlf ==
  c \in {k \in {LlfCase(cf, d) : cf \in RangeCfgs, d \in LlfData} :
            k.nValid >= 2 /\ Cardinality(RangeOf(k.valid)) >= 2}

LlfCountsValidOnly ==
  c.sec = "llf" => /\ c.nValid = Cardinality({i \in DOMAIN c.cls : c.cls[i] = "Valid"})
                   /\ \A j \in DOMAIN c.valid : ~IsNaN(c.valid[j])
                         /\ InOpen(c.valid[j], NormRange(c.norm, c.shift))

-----------------------------------------------------------------------------
(* C19: target bounds.  uniform on [low, high] (defaults 0, 1); arcsine and U-quadratic on
   [a, b] where EACH bound that is not given takes its default  mean -+ h,  h = sqrt(2 var)
   (arcsine) resp. sqrt(5/3 var) (U-quadratic) - the bounds that keep mean and variance.
   The quantiles 0, 1/2, 1 of the normal input map to lo, (lo + hi)/2, hi exactly. *)
HalfWidth(method, v) == IF method = "arcsin" THEN RSqrt(RMul(RI(2), v)) ELSE RSqrt(RMul(<<5, 3>>, v))
HasHalfWidth(method, v) == CASE method = "uniform" -> TRUE
                             [] method = "arcsin"  -> RIsSquare(RMul(RI(2), v))
                             [] method = "uquad"   -> RIsSquare(RMul(<<5, 3>>, v))

BoundCase(method, m, v, ag, bg, a, b) ==
  LET lo == IF ag THEN a ELSE IF method = "uniform" THEN RI(0) ELSE RSub(m, HalfWidth(method, v))
      hi == IF bg THEN b ELSE IF method = "uniform" THEN RI(1) ELSE RAdd(m, HalfWidth(method, v))
  IN  [sec |-> "bounds", method |-> method, mean |-> m, var |-> v, aGiven |-> ag, bGiven |-> bg,
       a |-> a, b |-> b, lo |-> lo, hi |-> hi, mid |-> RDiv(RAdd(lo, hi), RI(2))]

InitBounds ==
  c \in {k \in {BoundCase(p[1], p[2], p[3], p[4], p[5], p[6], p[7]) :
                  p \in {q \in {"uniform", "arcsin", "uquad"} \X BoundMeans \X BoundVarPool \X BOOLEAN \X BOOLEAN
                               \X (BoundAs \cup {RI(0)}) \X (BoundBs \cup {RI(0)}) :
                            /\ HasHalfWidth(q[1], q[3])
                            /\ (q[4] => q[6] \in BoundAs) /\ (~q[4] => q[6] = RI(0))
                            /\ (q[5] => q[7] \in BoundBs) /\ (~q[5] => q[7] = RI(0))}} :
            RLt(k.lo, k.hi)}

(* design checks: a given bound is the bound; the defaults keep mean and variance
   (arcsine: var = (hi - lo)^2 / 8,  U-quadratic: var = 3 (hi - lo)^2 / 20) *)
BoundsHonoured ==
  c.sec = "bounds" => /\ (c.aGiven => c.lo = c.a) /\ (c.bGiven => c.hi = c.b)
                      /\ (c.method # "uniform" /\ ~c.aGiven /\ ~c.bGiven) =>
                            LET w == RSub(c.hi, c.lo)
                            IN  /\ c.mid = c.mean
                                /\ c.method = "arcsin" => RDiv(RMul(w, w), RI(8)) = c.var
                                /\ c.method = "uquad"  => RDiv(RMul(RI(3), RMul(w, w)), RI(20)) = c.var

-----------------------------------------------------------------------------
(* C18: Normalizer.fit(data, skip).  "skip: names of parameters to be skipped in fitting".
   The parameters (sorted by name) are split into the fitted ones and the frozen ones; a frozen
   parameter keeps its value exactly, fitting never lowers the log-likelihood below its value at
   the start parameters, with nothing left to fit the call changes nothing and returns {},
   otherwise it returns every parameter by name.  Names in skip that the normalizer does not
   have are ignored. *)
ParamNames(norm) == CASE norm = "LogNormal"   -> <<>>
                      [] norm = "BoxCoxShift" -> <<"lmbda", "shift">>
                      [] OTHER                -> <<"lmbda">>

FitCase(norm, skip, l0, s0) ==
  LET names  == ParamNames(norm)
      Free(n) == n \notin skip
      fitted == SelectSeq(names, Free)
  IN  [sec |-> "fit", norm |-> norm, names |-> names, skip |-> skip, fitted |-> fitted,
       frozen |-> {n \in RangeOf(names) : n \in skip}, noop |-> fitted = <<>>,
       lam0 |-> l0, shift0 |-> s0]

InitFit ==
  c \in {FitCase(p[1], p[2], p[3], p[4]) :
           p \in {q \in {"LogNormal", "BoxCox", "BoxCoxShift", "YeoJohnson", "Modulus", "Manly"}
                         \X (SUBSET {"lmbda", "shift"}) \X FitLams \X FitShifts :
                    /\ (q[1] # "BoxCoxShift" => q[4] = RI(0))
                    /\ (q[1] = "LogNormal" => q[3] = RI(1))}}

FitPartition ==
  c.sec = "fit" => /\ RangeOf(c.fitted) \cap c.skip = {}
                   /\ RangeOf(c.fitted) \cup c.frozen = RangeOf(c.names)
                   /\ RangeOf(c.fitted) \cap c.frozen = {}
                   /\ c.noop <=> (RangeOf(c.names) \subseteq c.skip)

-----------------------------------------------------------------------------
Next == UNCHANGED c
=============================================================================
