---------------------------- MODULE KrigeSysHist ----------------------------
(***************************************************************************)
(* Histories on ONE kriging object (helper of KrigeSys, C05 / C06).        *)
(*                                                                         *)
(* `cfg` is the public configuration in force: covariance model (variance, *)
(* nugget, length scale, anisotropy = 1/stretch, rotation in quarter       *)
(* turns), mean, trend and (affine) normalizer; the exact solution of      *)
(* every configuration is tabulated by TInit (KrigeSys!Solve).  Actions:   *)
(*   SetMean / SetTrend / SetNorm   re-assign krige.mean / .trend /        *)
(*                                  .normalizer (they do not enter the     *)
(*                                  kriging matrix);                       *)
(*   SetVar / SetNug / SetLen / SetStretch / SetQuarter                    *)
(*                                  change the covariance model in place   *)
(*                                  (or assign an equal new model);        *)
(*   Refresh                        the documented update                  *)
(*                                  `krige.set_condition()` without        *)
(*                                  arguments.                             *)
(* The replay evaluates the object (with and without variance) in every    *)
(* state it passes through, so every cache an implementation may keep is   *)
(* filled before the next change.                                          *)
(*                                                                         *)
(* What a call has to return (Expected):                                   *)
(*   - after a Refresh (or construction) with nothing changed since:       *)
(*     exactly the solution for the current configuration `cfg`;           *)
(*   - mean / trend / normalizer re-assigned without a Refresh: the        *)
(*     documentation ("you can update the kriging setup by calling         *)
(*     set_condition") leaves open whether the new value is already in     *)
(*     force, so both the solution for the current configuration (`cfg`)   *)
(*     and the one for the configuration of the last refresh (`cfgR`) are  *)
(*     accepted -- but nothing else (in particular no mixture of old data  *)
(*     vector and new post-processing), and the estimate returned with     *)
(*     and without the variance must be the same;                          *)
(*   - covariance model changed without a Refresh (`dirty`): unspecified.  *)
(***************************************************************************)
EXTENDS KrigeSys

CONSTANTS
  HMeans, HTrends, HNorms,                 \* value domains of the re-assignable attributes
  HVars, HNugs, HLens, HStretches, HQuarters,   \* value domains of the model parameters
  HDepth                                   \* bound on the length of the explored histories

VARIABLES cfgR, dirty
hvars == <<cfg, out, cfgR, dirty>>

-----------------------------------------------------------------------------
(* (1) the table: exact solution of every configuration of the domain (no transitions) *)
TInit ==
  ForSomeBase(LAMBDA c0 :
    \E me \in HMeans \cup {c0.mean}, tr \in HTrends \cup {c0.trend}, nm \in HNorms \cup {c0.norm},
       vr \in HVars \cup {c0.var}, ng \in HNugs \cup {c0.nug}, L \in HLens \cup {c0.len},
       sx \in HStretches \cup {c0.stretch}, q \in HQuarters \cup {c0.quarter} :
      \E c \in {[c0 EXCEPT !.mean = me, !.trend = tr, !.norm = nm, !.var = vr, !.nug = ng, !.len = L,
                            !.stretch = sx, !.quarter = q]} :
        /\ (OnLattice(c) /\ Valid(c)) = TRUE      \* "= TRUE": evaluated as a value, not split into branches
        /\ cfg = c /\ out = SolveV(c) /\ cfgR = c /\ dirty = FALSE)
TNext == UNCHANGED hvars

-----------------------------------------------------------------------------
(* (2) the histories: `cfg` = configuration in force, `cfgR` = configuration at the last refresh,
   `dirty` = covariance model changed since.  `out` is not used here (the replay looks the
   solutions of cfg and cfgR up in the table). *)
HInit == ForSomeBase(LAMBDA c : /\ (Valid(c) /\ OnLattice(c)) = TRUE
                                /\ cfg = c /\ out = <<>> /\ cfgR = c /\ dirty = FALSE)

Becomes(c2) == /\ c2 # cfg
               /\ (OnLattice(c2) /\ Valid(c2)) = TRUE
               /\ cfg' = c2
               /\ UNCHANGED out

Attr(c2)  == Becomes(c2) /\ UNCHANGED <<cfgR, dirty>>
Model(c2) == Becomes(c2) /\ dirty' = TRUE /\ UNCHANGED cfgR

SetMean    == \E v \in HMeans     : \E c2 \in {[cfg EXCEPT !.mean = v]}    : Attr(c2)
SetTrend   == \E v \in HTrends    : \E c2 \in {[cfg EXCEPT !.trend = v]}   : Attr(c2)
SetNorm    == \E v \in HNorms     : \E c2 \in {[cfg EXCEPT !.norm = v]}    : Attr(c2)
SetVar     == \E v \in HVars      : \E c2 \in {[cfg EXCEPT !.var = v]}     : Model(c2)
SetNug     == \E v \in HNugs      : \E c2 \in {[cfg EXCEPT !.nug = v]}     : Model(c2)
SetLen     == \E v \in HLens      : \E c2 \in {[cfg EXCEPT !.len = v]}     : Model(c2)
SetStretch == \E v \in HStretches : \E c2 \in {[cfg EXCEPT !.stretch = v]} : Model(c2)
SetQuarter == \E v \in HQuarters  : \E c2 \in {[cfg EXCEPT !.quarter = v]} : Model(c2)

Refresh == /\ dirty \/ cfgR # cfg
           /\ cfgR' = cfg /\ dirty' = FALSE
           /\ UNCHANGED <<cfg, out>>

HNext == SetMean \/ SetTrend \/ SetNorm \/ SetVar \/ SetNug \/ SetLen \/ SetStretch \/ SetQuarter \/ Refresh

DepthBound == TLCGet("level") <= HDepth

-----------------------------------------------------------------------------
ModelPart(c) == <<c.model, c.len, c.var, c.nug, c.stretch, c.quarter>>

(* configurations whose solution is an admissible result of a call in the current state
   ({} = unspecified) *)
Expected == IF dirty THEN {} ELSE {cfg, cfgR}

HistOK ==
  /\ dirty \in BOOLEAN
  /\ ~dirty => ModelPart(cfgR) = ModelPart(cfg)       \* only attributes may differ from the refreshed state
  /\ (~dirty /\ cfgR = cfg) => Expected = {cfg}       \* refreshed: the current solution, nothing else
  /\ OnLattice(cfg) /\ OnLattice(cfgR)
=============================================================================
